package bgp

import (
	"testing"
)

func TestPmsiShort(t *testing.T) {
	// UPDATE: withdrawn len 0, attrs: ORIGIN, AS_PATH(empty), NEXT_HOP, PMSI_TUNNEL (type 22) with length 3; NLRI 10.0.0.0/8
	attrs := []byte{
		0x40, 1, 1, 0,
		0x40, 2, 0,
		0x40, 3, 4, 1, 1, 1, 1,
		0xc0, 22, 3, 0, 6, 0,
	}
	body := []byte{0, 0, 0, byte(len(attrs))}
	body = append(body, attrs...)
	body = append(body, 8, 10)
	msgLen := 19 + len(body)
	buf := make([]byte, 19)
	for i := 0; i < 16; i++ {
		buf[i] = 0xff
	}
	buf[16] = byte(msgLen >> 8)
	buf[17] = byte(msgLen)
	buf[18] = 2
	buf = append(buf, body...)
	m, err := ParseBGPMessage(buf)
	t.Logf("err=%v msg=%v", err, m != nil)
	if m == nil {
		return
	}
	u := m.Body.(*BGPUpdate)
	for _, a := range u.PathAttributes {
		t.Logf("attr %T", a)
	}
	if me, ok := err.(*MessageError); ok {
		t.Logf("handling=%d", me.ErrorHandling)
	}
	defer func() {
		if r := recover(); r != nil {
			t.Fatalf("PANIC on re-serialise/print of a message the parser handed back: %v", r)
		}
	}()
	for _, a := range u.PathAttributes {
		_ = a.String()
		_, _ = a.Serialize()
		_, _ = a.MarshalJSON()
	}
}
