package bgp

import (
	"reflect"
	"testing"
)

// An EVPN Multicast Flags extended community (RFC 9251) with both the IGMP
// Proxy and the MLD Proxy flag set must survive serialise -> parse.
func TestD89MulticastFlagsMldBit(t *testing.T) {
	ec := NewMulticastFlagsExtended(true, true)
	attr := NewPathAttributeExtendedCommunities([]ExtendedCommunityInterface{ec})

	wire, err := attr.Serialize()
	if err != nil {
		t.Fatalf("serialize: %v", err)
	}

	got := &PathAttributeExtendedCommunities{}
	if err := got.DecodeFromBytes(wire); err != nil {
		t.Fatalf("the library cannot parse what it serialised (% x): %v", wire, err)
	}
	if len(got.Value) != 1 {
		t.Fatalf("expected 1 community, got %d", len(got.Value))
	}
	if !reflect.DeepEqual(got.Value[0], ec) {
		t.Fatalf("round trip changed the community: sent %+v, parsed back %+v (wire % x)", ec, got.Value[0], wire)
	}
}
