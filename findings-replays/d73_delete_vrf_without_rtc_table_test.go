package table

import (
	"log/slog"
	"net/netip"
	"testing"
	"time"

	"github.com/osrg/gobgp/v4/pkg/packet/bgp"
)

// The global RIB is built from the configured global address families
// (api.Global.Families / global afi-safis). With VPN families but no
// rt-constrain family configured, deleting a VRF dereferences the missing RTC
// table: the routes originated in the VRF are never withdrawn, the process
// panics instead.
func TestD73DeleteVrfWithoutRtcTable(t *testing.T) {
	logger := slog.Default()
	m := NewTableManager(logger, []bgp.Family{bgp.RF_IPv4_UC, bgp.RF_IPv4_VPN})

	rd, err := bgp.ParseRouteDistinguisher("65001:100")
	if err != nil {
		t.Fatal(err)
	}
	rt, err := bgp.ParseRouteTarget("65001:100")
	if err != nil {
		t.Fatal(err)
	}
	info := &PeerInfo{AS: 65001, LocalID: netip.MustParseAddr("1.1.1.1")}
	if _, err := m.AddVrf("vrf1", 1, rd, []bgp.ExtendedCommunityInterface{rt}, []bgp.ExtendedCommunityInterface{rt}, info); err != nil {
		t.Fatal(err)
	}
	vrf, ok := m.GetVrf("vrf1")
	if !ok {
		t.Fatal("vrf1 not found")
	}

	// a route originated in the VRF (what AddPath with a VRF id does)
	nlri, _ := bgp.NewIPAddrPrefix(netip.MustParsePrefix("10.0.0.0/24"))
	mp, _ := bgp.NewPathAttributeMpReachNLRI(bgp.RF_IPv4_UC, []bgp.PathNLRI{{NLRI: nlri}}, netip.MustParseAddr("192.0.2.1"))
	p := NewPath(bgp.RF_IPv4_UC, nil, bgp.PathNLRI{NLRI: nlri}, false, []bgp.PathAttributeInterface{
		bgp.NewPathAttributeOrigin(0), mp,
	}, time.Now(), false)
	if err := vrf.ToGlobalPath(p); err != nil {
		t.Fatal(err)
	}
	m.Update(p)
	if n := len(m.GetPathList(GLOBAL_RIB_NAME, 0, []bgp.Family{bgp.RF_IPv4_VPN})); n != 1 {
		t.Fatalf("setup: expected the VRF route in the VPN table, got %d paths", n)
	}

	var withdrawn []*Path
	func() {
		defer func() {
			if r := recover(); r != nil {
				t.Fatalf("DeleteVrf panicked: %v", r)
			}
		}()
		withdrawn, err = m.DeleteVrf("vrf1")
	}()
	if err != nil {
		t.Fatal(err)
	}
	if len(withdrawn) != 1 || !withdrawn[0].IsWithdraw || withdrawn[0].GetFamily() != bgp.RF_IPv4_VPN {
		t.Fatalf("DeleteVrf should return the withdrawal of the route originated in the VRF, got %v", withdrawn)
	}
}
