package table

import (
	"net/netip"
	"sort"
	"testing"
	"time"

	"github.com/osrg/gobgp/v4/pkg/packet/bgp"
)

// A route added to a VRF through the API (BgpServer.fixupApiPath) is turned
// into a VPN route by Vrf.ToGlobalPath, which replaces the NLRI (and the
// family) of the path in place but leaves originInfo.nlriString - the text
// form computed by NewPath from the plain prefix - as it was.
// CreateUpdateMsgFromPaths keys "the last action per prefix wins" on
// Path.GetDestLocalKey(), i.e. on that stale string without the route
// distinguisher. The same prefix in two VRFs (the reason RDs exist) is
// therefore taken for one destination: of the two VPN routes in one packing
// pass only the later one is announced, and a withdrawal in one VRF swallows
// the announcement of the other.
func TestD71VrfRouteKey(t *testing.T) {
	vrf1 := &Vrf{Name: "vrf1", Id: 1, Rd: bgp.NewRouteDistinguisherTwoOctetAS(65000, 1), MplsLabel: 1001,
		ExportRt: []bgp.ExtendedCommunityInterface{bgp.NewTwoOctetAsSpecificExtended(bgp.EC_SUBTYPE_ROUTE_TARGET, 65000, 1, true)}}
	vrf2 := &Vrf{Name: "vrf2", Id: 2, Rd: bgp.NewRouteDistinguisherTwoOctetAS(65000, 2), MplsLabel: 1002,
		ExportRt: []bgp.ExtendedCommunityInterface{bgp.NewTwoOctetAsSpecificExtended(bgp.EC_SUBTYPE_ROUTE_TARGET, 65000, 2, true)}}

	// what the API builds for "add 10.0.0.0/24 nexthop 192.0.2.1" in a VRF
	apiPath := func(vrf *Vrf, withdraw bool) *Path {
		n, _ := bgp.NewIPAddrPrefix(netip.MustParsePrefix("10.0.0.0/24"))
		nh, _ := bgp.NewPathAttributeNextHop(netip.MustParseAddr("192.0.2.1"))
		attrs := []bgp.PathAttributeInterface{bgp.NewPathAttributeOrigin(0), nh}
		p := NewPath(bgp.RF_IPv4_UC, nil, bgp.PathNLRI{NLRI: n}, withdraw, attrs, time.Now(), false)
		if err := vrf.ToGlobalPath(p); err != nil {
			t.Fatal(err)
		}
		return p
	}

	// the receiver
	rib := map[string]bool{}
	receive := func(paths []*Path) {
		for _, m := range CreateUpdateMsgFromPaths(paths) {
			b, err := m.Serialize()
			if err != nil {
				t.Fatal(err)
			}
			pm, err := bgp.ParseBGPMessage(b)
			if err != nil {
				t.Fatal(err)
			}
			for _, p := range ProcessMessage(pm, &PeerInfo{}, time.Now(), false) {
				if p.GetFamily() != bgp.RF_IPv4_VPN {
					t.Errorf("family %s", p.GetFamily())
				}
				if p.IsWithdraw {
					delete(rib, p.GetNlri().String())
				} else {
					rib[p.GetNlri().String()] = true
				}
			}
		}
	}
	keys := func() []string {
		l := []string{}
		for k := range rib {
			l = append(l, k)
		}
		sort.Strings(l)
		return l
	}

	p1, p2 := apiPath(vrf1, false), apiPath(vrf2, false)
	if p1.GetNlri().String() == p2.GetNlri().String() {
		t.Fatal("test setup: the two VPN routes must differ")
	}

	// both VRFs announce the prefix
	receive([]*Path{p1, p2})
	if got := keys(); len(got) != 2 {
		t.Errorf("two VPN routes announced, the receiver has %v", got)
	}

	// vrf1 announces, vrf2 withdraws (the receiver knows both beforehand)
	rib = map[string]bool{p1.GetNlri().String(): true, p2.GetNlri().String(): true}
	delete(rib, p1.GetNlri().String())
	receive([]*Path{apiPath(vrf1, false), apiPath(vrf2, true)})
	if got := keys(); len(got) != 1 || got[0] != p1.GetNlri().String() {
		t.Errorf("after announce(vrf1)+withdraw(vrf2) the receiver has %v, want [%s]", got, p1.GetNlri())
	}
}
