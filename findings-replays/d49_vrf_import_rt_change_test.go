package server

import (
	"context"
	"net/netip"
	"testing"
	"time"

	"github.com/stretchr/testify/require"

	"github.com/osrg/gobgp/v4/api"
	"github.com/osrg/gobgp/v4/internal/pkg/table"
	"github.com/osrg/gobgp/v4/pkg/packet/bgp"
)

// A VPNv4 route carries route target 65001:100, which vrf1 imports, so it is
// advertised to the neighbor attached to vrf1 as a plain IPv4 route. The route
// is then re-announced (implicit replace of the same NLRI) with route target
// 65001:200 only, which vrf1 does not import. The route is no longer visible
// in vrf1, so the plain route must be withdrawn from the VRF neighbor. Nothing
// is sent: the neighbor keeps a route for a VPN route that is not in its VRF.
func TestD49VrfImportRtChange(t *testing.T) {
	ctx := context.Background()
	s := NewBgpServer()
	go s.Serve()
	require.NoError(t, s.StartBgp(ctx, &api.StartBgpRequest{
		Global: &api.Global{Asn: 65001, RouterId: "1.1.1.1", ListenPort: -1},
	}))
	addVrf(t, s, "vrf1", "65001:100", []string{"65001:100"}, []string{"65001:100"}, 1)

	peerAddr := netip.MustParseAddr("10.0.0.1")
	p := newPeerandInfo(t, 65001, 65002, peerAddr.String(), s.globalRib)
	p.policy = s.policy
	p.fsm.state.Store(bgp.BGP_FSM_ESTABLISHED)
	p.fsm.familyMap.Store(map[bgp.Family]bgp.BGPAddPathMode{
		bgp.RF_IPv4_UC: bgp.BGP_ADD_PATH_NONE,
	})
	p.fsm.lock.Lock()
	conf := p.fsm.pConf.ReadCopy()
	conf.Config.Vrf = "vrf1"
	conf.State.Vrf = "vrf1"
	p.fsm.pConf.Update(&conf)
	p.fsm.lock.Unlock()
	require.NoError(t, s.mgmtOperation(func() error {
		s.neighborMap[peerAddr] = p
		return nil
	}, true))
	t.Cleanup(func() {
		_ = s.mgmtOperation(func() error {
			delete(s.neighborMap, peerAddr)
			return nil
		}, false)
		cleanInfiniteChannel(p.fsm.outgoingCh)
		require.NoError(t, s.StopBgp(ctx, &api.StopBgpRequest{}))
	})

	outgoing := func() []*table.Path {
		t.Helper()
		var paths []*table.Path
		for {
			select {
			case o := <-p.fsm.outgoingCh.Out():
				for _, path := range o.(*fsmOutgoingMsg).Paths {
					if path != nil && !path.IsEOR() {
						paths = append(paths, path)
					}
				}
			case <-time.After(300 * time.Millisecond):
				return paths
			}
		}
	}

	// the remote PE the VPN route is learned from
	pe := &table.PeerInfo{
		AS:           65001,
		LocalAS:      65001,
		ID:           netip.MustParseAddr("10.0.0.9"),
		Address:      netip.MustParseAddr("10.0.0.9"),
		LocalID:      netip.MustParseAddr("1.1.1.1"),
		LocalAddress: netip.MustParseAddr("1.1.1.1"),
	}
	makeVPNPath := func(rtStr string) *table.Path {
		t.Helper()
		rd, _, err := parseRDRT("65001:999")
		require.NoError(t, err)
		_, rt, err := parseRDRT(rtStr)
		require.NoError(t, err)
		nlri, err := bgp.NewLabeledVPNIPAddrPrefix(netip.MustParsePrefix("192.0.2.0/24"), *bgp.NewMPLSLabelStack(100), rd)
		require.NoError(t, err)
		nextHop, err := bgp.NewPathAttributeNextHop(netip.MustParseAddr("192.0.2.254"))
		require.NoError(t, err)
		return table.NewPath(bgp.RF_IPv4_VPN, pe, bgp.PathNLRI{NLRI: nlri}, false, []bgp.PathAttributeInterface{
			bgp.NewPathAttributeOrigin(0),
			bgp.NewPathAttributeAsPath([]bgp.AsPathParamInterface{
				bgp.NewAs4PathParam(2, []uint32{65010}),
			}),
			nextHop,
			bgp.NewPathAttributeLocalPref(100),
			bgp.NewPathAttributeExtendedCommunities([]bgp.ExtendedCommunityInterface{rt}),
		}, time.Now(), false)
	}

	vrf, ok := s.globalRib.GetVrf("vrf1")
	require.True(t, ok)

	// step 1: the route matches the import target and reaches the VRF neighbor
	imported := makeVPNPath("65001:100")
	require.True(t, table.CanImportToVrf(vrf, imported))
	s.propagateUpdate(nil, []*table.Path{imported})
	sent := outgoing()
	require.Len(t, sent, 1)
	require.False(t, sent[0].IsWithdraw)
	require.Equal(t, bgp.RF_IPv4_UC, sent[0].GetFamily())
	require.Equal(t, "192.0.2.0/24", sent[0].GetPrefix())

	// step 2: same NLRI, same source, but now with a target vrf1 does not import
	notImported := makeVPNPath("65001:200")
	require.False(t, table.CanImportToVrf(vrf, notImported))
	s.propagateUpdate(nil, []*table.Path{notImported})

	// the VPN route is not visible in the VRF any more
	tbl, err := s.getVrfRib("vrf1", bgp.RF_IPv4_UC, nil)
	require.NoError(t, err)
	require.Empty(t, tbl.GetDestinations(), "route must not be visible in vrf1")

	sent = outgoing()
	require.Len(t, sent, 1, "the plain route advertised to the VRF neighbor must be withdrawn")
	require.True(t, sent[0].IsWithdraw)
	require.Equal(t, bgp.RF_IPv4_UC, sent[0].GetFamily())
	require.Equal(t, "192.0.2.0/24", sent[0].GetPrefix())
}
