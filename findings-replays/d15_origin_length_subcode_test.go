package server

import (
	"context"
	"io"
	"log/slog"
	"net"
	"net/netip"
	"sync"
	"testing"
	"time"

	"github.com/eapache/channels"
	"github.com/osrg/gobgp/v4/internal/pkg/table"
	"github.com/osrg/gobgp/v4/pkg/config/oc"
	"github.com/osrg/gobgp/v4/pkg/packet/bgp"
)

// TestFinding: with revised error handling disabled a malformed UPDATE resets the
// session with the RFC 4271 NOTIFICATION code/subcode. RFC 4271 section 6.3: "If
// any recognized attribute has an Attribute Length that conflicts with the
// expected length ... the Error Subcode MUST be set to Attribute Length Error"
// (3/5). An ORIGIN attribute of length 2 is answered with 3/1 (Malformed
// Attribute List) instead; every other fixed-length attribute (MED here) gets 3/5.
func TestD15OriginLengthSubcode(t *testing.T) {
	const localAS, peerAS = 65000, 65001
	lg := slog.New(slog.NewTextHandler(io.Discard, nil))

	// a real eBGP peer with revised error handling (treat-as-withdraw) enabled
	families := []bgp.Family{bgp.RF_IPv4_UC}
	rib := table.NewTableManager(lg, families)
	peerAddr := netip.MustParseAddr("192.168.0.1")
	nConf := &oc.Neighbor{
		Config: oc.NeighborConfig{PeerAs: peerAS, NeighborAddress: peerAddr},
		State:  oc.NeighborState{PeerAs: peerAS, NeighborAddress: peerAddr, RemoteRouterId: peerAddr},
	}
	gConf := &oc.Global{Config: oc.GlobalConfig{As: localAS}}
	if err := oc.SetDefaultNeighborConfigValues(nConf, nil, gConf); err != nil {
		t.Fatal(err)
	}
	policy := table.NewRoutingPolicy(lg)
	if err := policy.Reset(&oc.RoutingPolicy{}, nil); err != nil {
		t.Fatal(err)
	}
	p := newPeer(gConf, nConf, bgp.BGP_FSM_ESTABLISHED, rib, policy, lg)
	rfmap := map[bgp.Family]bgp.BGPAddPathMode{bgp.RF_IPv4_UC: bgp.BGP_ADD_PATH_NONE}
	p.fsm.familyMap.Store(rfmap)
	localAddr := netip.MustParseAddr("192.168.0.2")
	p.peerInfo.Store(table.NewPeerInfo(gConf, nConf, peerAS, localAS, peerAddr, localAddr, peerAddr, localAddr))
	p.fsm.isEBGP = true
	p.fsm.isConfed = false
	p.fsm.isTreatAsWithdraw = false

	local, remote := net.Pipe()
	defer remote.Close()
	defer local.Close()
	p.fsm.conn = local
	h := &fsmHandler{
		fsm:      p.fsm,
		outgoing: channels.NewInfiniteChannel(),
		callback: func(e *fsmMsg) {
			if m, ok := e.MsgData.(*bgp.BGPMessage); ok && m.Header.Type == bgp.BGP_MSG_UPDATE {
				p.handleUpdate(e)
			}
		},
	}
	p.fsm.h = h

	wrap := func(body []byte) []byte {
		msg := make([]byte, 19, 19+len(body))
		for i := 0; i < 16; i++ {
			msg[i] = 0xff
		}
		l := 19 + len(body)
		msg[16], msg[17], msg[18] = byte(l>>8), byte(l), bgp.BGP_MSG_UPDATE
		return append(msg, body...)
	}
	update := func(attrs []byte, nlri []byte) []byte {
		body := []byte{0, 0, byte(len(attrs) >> 8), byte(len(attrs))}
		body = append(body, attrs...)
		return wrap(append(body, nlri...))
	}

	origin := []byte{0x40, 0x01, 0x01, 0x00}
	originBadLen := []byte{0x40, 0x01, 0x02, 0x00, 0x00}                   // the only fault: ORIGIN of length 2
	asPath := []byte{0x40, 0x02, 0x06, 0x02, 0x01, 0x00, 0x00, 0xfd, 0xe9} // SEQ(65001)
	nextHop := []byte{0x40, 0x03, 0x04, 192, 168, 0, 1}
	med := []byte{0x80, 0x04, 0x04, 0, 0, 0, 10}
	nlri := []byte{24, 10, 0, 0} // 10.0.0.0/24

	cat := func(bs ...[]byte) []byte {
		var r []byte
		for _, b := range bs {
			r = append(r, b...)
		}
		return r
	}
	bad := update(cat(originBadLen, asPath, nextHop, med), nlri)

	// reference: the same fault on MED is reported as Attribute Length Error (3/5)
	{
		medBadLen := []byte{0x80, 0x04, 0x03, 0, 0, 10}
		_, err := bgp.ParseBGPMessage(update(cat(origin, asPath, nextHop, medBadLen), nlri))
		me, _ := err.(*bgp.MessageError)
		if me == nil || me.TypeCode != bgp.BGP_ERROR_UPDATE_MESSAGE_ERROR || me.SubTypeCode != bgp.BGP_ERROR_SUB_ATTRIBUTE_LENGTH_ERROR {
			t.Fatalf("reference: MED with a bad length: %v", err)
		}
	}

	ctx, cancel := context.WithCancel(context.Background())
	defer cancel()
	wg := &sync.WaitGroup{}
	wg.Add(1)
	go h.recvMessageloop(ctx, local, make(chan struct{}, 2), make(chan fsmStateReason, 4), wg)

	write := func(b []byte) {
		remote.SetWriteDeadline(time.Now().Add(5 * time.Second))
		remote.Write(b)
	}

	write(bad)
	wg.Wait() // a session reset ends the receive loop

	var notif *bgp.BGPNotification
	select {
	case m := <-p.fsm.notification:
		notif = m.Body.(*bgp.BGPNotification)
	default:
	}
	if notif == nil {
		t.Fatalf("no NOTIFICATION for an ORIGIN attribute of length 2")
	}
	if n := p.adjRibIn.Count(families); n != 0 {
		t.Fatalf("malformed UPDATE installed %d routes", n)
	}
	if notif.ErrorCode != bgp.BGP_ERROR_UPDATE_MESSAGE_ERROR || notif.ErrorSubcode != bgp.BGP_ERROR_SUB_ATTRIBUTE_LENGTH_ERROR {
		t.Fatalf("ORIGIN with a bad length answered with NOTIFICATION %d/%d, RFC 4271 6.3 requires %d/%d (Attribute Length Error)",
			notif.ErrorCode, notif.ErrorSubcode, bgp.BGP_ERROR_UPDATE_MESSAGE_ERROR, bgp.BGP_ERROR_SUB_ATTRIBUTE_LENGTH_ERROR)
	}
}
