package table

import (
	"io"
	"log/slog"
	"net/netip"
	"testing"
	"time"

	"github.com/osrg/gobgp/v4/pkg/config/oc"
	"github.com/osrg/gobgp/v4/pkg/packet/bgp"
)

// A fresh route and an LLGR-stale route (RFC 9494) that are otherwise equal:
// the first step of the decision process ranks the stale one last, so it is
// not of equal cost and must not be part of the multipath set next to a fresh
// best path.
func TestD110LlgrStaleInMultipath(t *testing.T) {
	savedSel, savedMp := SelectionOptions, UseMultiplePaths
	defer func() { SelectionOptions, UseMultiplePaths = savedSel, savedMp }()
	SelectionOptions = oc.RouteSelectionOptionsConfig{}
	UseMultiplePaths = oc.UseMultiplePathsConfig{Enabled: true}

	lg := slog.New(slog.NewTextHandler(io.Discard, nil))
	nlri, _ := bgp.NewIPAddrPrefix(netip.MustParsePrefix("10.10.10.0/24"))
	now := time.Now()

	mk := func(peer *PeerInfo, nh string, ts time.Time, stale bool) *Path {
		nexthop, _ := bgp.NewPathAttributeNextHop(netip.MustParseAddr(nh))
		attrs := []bgp.PathAttributeInterface{
			bgp.NewPathAttributeOrigin(0),
			bgp.NewPathAttributeAsPath([]bgp.AsPathParamInterface{bgp.NewAs4PathParam(bgp.BGP_ASPATH_ATTR_TYPE_SEQ, []uint32{65100})}),
			nexthop,
			bgp.NewPathAttributeMultiExitDisc(100),
		}
		if stale {
			attrs = append(attrs, bgp.NewPathAttributeCommunities([]uint32{uint32(bgp.COMMUNITY_LLGR_STALE)}))
		}
		return NewPath(bgp.RF_IPv4_UC, peer, bgp.PathNLRI{NLRI: nlri}, false, attrs, ts, false)
	}

	peerFresh := &PeerInfo{AS: 65100, LocalAS: 65000, Address: netip.MustParseAddr("192.168.0.1"), ID: netip.MustParseAddr("1.1.1.1")}
	peerStale := &PeerInfo{AS: 65100, LocalAS: 65000, Address: netip.MustParseAddr("192.168.0.2"), ID: netip.MustParseAddr("2.2.2.2")}

	for _, order := range []string{"fresh-first", "stale-first"} {
		fresh := mk(peerFresh, "192.168.0.1", now, false)
		stale := mk(peerStale, "192.168.0.2", now.Add(-time.Hour), true)
		if !stale.IsLLGRStale() || fresh.IsLLGRStale() {
			t.Fatal("test setup: LLGR_STALE marking")
		}

		d := newDestination(nlri, 0)
		var u *Update
		if order == "fresh-first" {
			d.Calculate(lg, fresh)
			u, _ = d.Calculate(lg, stale)
		} else {
			d.Calculate(lg, stale)
			u, _ = d.Calculate(lg, fresh)
		}

		if best := d.GetBestPath(GLOBAL_RIB_NAME, 0); best != fresh {
			t.Fatalf("%s: best path is %v, want the fresh one", order, best)
		}

		for _, p := range d.GetMultiBestPath(GLOBAL_RIB_NAME) {
			if p.IsLLGRStale() {
				t.Errorf("%s: GetMultiBestPath: the LLGR-stale route from %s is in the multipath set of the fresh best path", order, p.GetSource().Address)
			}
		}
		_, _, multi := u.GetChanges(GLOBAL_RIB_NAME, 0, false)
		for _, p := range multi {
			if p.IsLLGRStale() {
				t.Errorf("%s: GetChanges: the LLGR-stale route from %s is in the multipath set of the fresh best path", order, p.GetSource().Address)
			}
		}
	}
}
