package server

import (
	"context"
	"net"
	"net/netip"
	"testing"
	"time"

	"github.com/stretchr/testify/require"

	"github.com/osrg/gobgp/v4/api"
	"github.com/osrg/gobgp/v4/pkg/apiutil"
	"github.com/osrg/gobgp/v4/pkg/packet/bgp"
)

// C12: stale routes of a gracefully restarting peer must stay until the
// restart timer (the Restart Time the peer advertised, 90s here) expires
// without re-establishment.
//
// A single failed reconnection attempt inside the restart window (a TCP
// connection that is accepted and then closed before an OPEN is exchanged)
// makes the FSM go OPENSENT -> IDLE.  handleFSMMessage treats *any* transition
// to IDLE while PeerRestarting is set as "restart timer expired" and deletes
// all stale routes at once (or, with LLGR, starts the LLGR phase early).
func TestD52FailedReconnectDropsStale(t *testing.T) {
	ctx := context.Background()
	const port = 11791

	afiSafis := []*api.AfiSafi{
		{
			Config: &api.AfiSafiConfig{
				Family:  apiutil.ToApiFamily(bgp.AFI_IP, bgp.SAFI_UNICAST),
				Enabled: true,
			},
			MpGracefulRestart: &api.MpGracefulRestart{
				Config: &api.MpGracefulRestartConfig{Enabled: true},
			},
		},
	}

	// s1: the receiving speaker (helper) under test.
	s1 := NewBgpServer()
	go s1.Serve()
	require.NoError(t, s1.StartBgp(ctx, &api.StartBgpRequest{
		Global: &api.Global{Asn: 1, RouterId: "1.1.1.1", ListenPort: port},
	}))
	defer s1.StopBgp(ctx, &api.StopBgpRequest{})
	require.NoError(t, s1.AddPeer(ctx, &api.AddPeerRequest{Peer: &api.Peer{
		Conf:            &api.PeerConf{NeighborAddress: "127.0.0.1", PeerAsn: 2},
		Transport:       &api.Transport{PassiveMode: true},
		GracefulRestart: &api.GracefulRestart{Enabled: true, RestartTime: 120},
		AfiSafis:        afiSafis,
	}}))

	// s2: the speaker that is going to "restart". It advertises Restart Time 90s.
	s2 := NewBgpServer()
	go s2.Serve()
	require.NoError(t, s2.StartBgp(ctx, &api.StartBgpRequest{
		Global: &api.Global{Asn: 2, RouterId: "2.2.2.2", ListenPort: -1},
	}))
	nh, _ := bgp.NewPathAttributeNextHop(netip.MustParseAddr("10.0.0.1"))
	nlri, _ := bgp.NewIPAddrPrefix(netip.MustParsePrefix("10.10.0.0/24"))
	_, err := s2.AddPath(apiutil.AddPathRequest{Paths: []*apiutil.Path{{
		Family: bgp.RF_IPv4_UC,
		Nlri:   nlri,
		Attrs:  []bgp.PathAttributeInterface{bgp.NewPathAttributeOrigin(0), nh},
	}}})
	require.NoError(t, err)
	require.NoError(t, s2.AddPeer(ctx, &api.AddPeerRequest{Peer: &api.Peer{
		Conf:            &api.PeerConf{NeighborAddress: "127.0.0.1", PeerAsn: 1},
		Transport:       &api.Transport{RemotePort: port},
		GracefulRestart: &api.GracefulRestart{Enabled: true, RestartTime: 90},
		AfiSafis:        afiSafis,
		Timers:          &api.Timers{Config: &api.TimersConfig{ConnectRetry: 1, IdleHoldTimeAfterReset: 1}},
	}}))

	type snapshot struct {
		state      bgp.FSMState
		restarting bool
		adjIn      int
		stale      int
		global     int
	}
	snap := func() snapshot {
		var r snapshot
		_ = s1.mgmtOperation(func() error {
			for _, p := range s1.neighborMap {
				r.state = p.State()
				r.restarting = p.fsm.pConf.ReadOnly().GracefulRestart.State.PeerRestarting
				for _, path := range p.adjRibIn.PathList([]bgp.Family{bgp.RF_IPv4_UC}, false) {
					r.adjIn++
					if path.IsStale() {
						r.stale++
					}
				}
			}
			if tbl, ok := s1.globalRib.GetTable(bgp.RF_IPv4_UC); ok {
				r.global = len(tbl.GetDestinations())
			}
			return nil
		}, true)
		return r
	}

	require.Eventually(t, func() bool {
		r := snap()
		return r.state == bgp.BGP_FSM_ESTABLISHED && r.adjIn == 1 && r.global == 1
	}, 20*time.Second, 50*time.Millisecond, "session up and route learned")

	// Transport failure: s2 dies without sending a NOTIFICATION.
	_ = s2.mgmtOperation(func() error {
		for _, n := range s2.neighborMap {
			n.fsm.conn.Close()
		}
		return nil
	}, true)
	require.NoError(t, s2.StopBgp(ctx, &api.StopBgpRequest{}))
	lost := time.Now()

	require.Eventually(t, func() bool {
		r := snap()
		return r.restarting && r.stale == 1 && r.global == 1
	}, 5*time.Second, 20*time.Millisecond, "route kept as stale after the transport failure")

	// Wait until s1 accepts connections again (IDLE -> ACTIVE after the idle hold time).
	require.Eventually(t, func() bool {
		return snap().state == bgp.BGP_FSM_ACTIVE
	}, 15*time.Second, 20*time.Millisecond)

	// One failed reconnection attempt: connect and close before sending an OPEN.
	conn, err := net.Dial("tcp", net.JoinHostPort("127.0.0.1", "11791"))
	require.NoError(t, err)
	require.Eventually(t, func() bool {
		return snap().state == bgp.BGP_FSM_OPENSENT
	}, 5*time.Second, 10*time.Millisecond)
	conn.Close()

	// Give s1 time to notice; we are still far inside the 90s restart window.
	deadline := time.Now().Add(4 * time.Second)
	for time.Now().Before(deadline) {
		r := snap()
		if r.adjIn != 1 || r.global != 1 {
			t.Fatalf("stale route removed %.1fs after the session loss although the peer's restart time is 90s "+
				"(state=%s peerRestarting=%v adj-in=%d global=%d)",
				time.Since(lost).Seconds(), r.state, r.restarting, r.adjIn, r.global)
		}
		time.Sleep(50 * time.Millisecond)
	}
}
