package bgp

import (
	"testing"
)

// The Graceful Restart capability carries a 4-bit flags field and a 12-bit
// restart time in one 16-bit word. NewCapGracefulRestart takes the time as a
// uint16 (pkg/server passes the configured restart-time unchecked); a value
// above 4095 must not spill into the flags.
func TestD92GrTimeOverwritesFlags(t *testing.T) {
	// not restarting, no notification support, restart-time 32888 (0x8078)
	c := NewCapGracefulRestart(false, false, 32888, []*CapGracefulRestartTuple{
		NewCapGracefulRestartTuple(RF_IPv4_UC, false),
	})
	wire, err := c.Serialize()
	if err != nil {
		// refusing the value would be fine
		t.Logf("serialize refused: %v", err)
		return
	}
	parsed, err := DecodeCapability(wire)
	if err != nil {
		t.Fatalf("parse: %v", err)
	}
	g := parsed.(*CapGracefulRestart)
	if g.Flags&0x08 != 0 {
		t.Errorf("Restart State (R) bit is set on the wire although the capability was built with restarting=false (wire % x)", wire)
	}
	if g.Flags != c.Flags || g.Time != c.Time {
		t.Fatalf("round trip changed the capability: sent flags=%#x time=%d, parsed back flags=%#x time=%d (wire % x)",
			c.Flags, c.Time, g.Flags, g.Time, wire)
	}
}
