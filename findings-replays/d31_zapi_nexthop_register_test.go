package zebra

import (
	"net/netip"
	"reflect"
	"syscall"
	"testing"
)

// NEXTHOP_REGISTER for FRR >= 8.2 (ZAPI 6) carries
//   connected(1) resolve_via_default(1) safi(2) family(2) prefixlen(1) prefix
// RegisteredNexthop.serialize allocates the 7 octet fixed part for that
// flavour but writes the fields at the offsets of the older 4 octet layout:
// the SAFI goes to buf[1:3] (over resolve_via_default), the prefix length goes
// to buf[3] (into the SAFI) and buf[6], the real prefix length, stays 0.
// The package's own decoder (and FRR's zread_rnh_register) therefore reads
// safi=0x0120, prefixlen=0 and no prefix at all.
func TestD31ZapiNexthopRegister(t *testing.T) {
	const version = 6
	software := NewSoftware(version, "frr8.2")

	for _, in := range []*RegisteredNexthop{
		{connected: 1, resolveViaDef: 1, safi: uint16(SafiUnicast), Family: syscall.AF_INET, Prefix: netip.MustParseAddr("192.168.1.1")},
		{connected: 0, resolveViaDef: 0, safi: uint16(SafiUnicast), Family: syscall.AF_INET6, Prefix: netip.MustParseAddr("2001:db8::1")},
	} {
		buf, err := in.serialize(version, software)
		if err != nil {
			t.Fatal(err)
		}
		out := &RegisteredNexthop{}
		if err := out.decodeFromBytes(buf, version, software); err != nil {
			t.Fatalf("serialized RegisteredNexthop does not decode: %v (bytes % x)", err, buf)
		}
		if !reflect.DeepEqual(in, out) {
			t.Errorf("frr8.2 RegisteredNexthop round trip mismatch\n sent  %+v\n bytes % x\n got   %+v", *in, buf, *out)
		}
	}

	// Same through the message body the daemon sends (zclient.go
	// newNexthopRegisterBody -> Client.SendNexthopRegister).
	body := &NexthopRegisterBody{Nexthops: []*RegisteredNexthop{
		{Family: syscall.AF_INET, Prefix: netip.MustParseAddr("10.0.0.1")},
	}}
	buf, err := body.serialize(version, software)
	if err != nil {
		t.Fatal(err)
	}
	got := &NexthopRegisterBody{}
	if err := got.decodeFromBytes(buf, version, software); err != nil {
		t.Fatalf("serialized NexthopRegisterBody does not decode: %v", err)
	}
	if len(got.Nexthops) != 1 || got.Nexthops[0].Prefix != netip.MustParseAddr("10.0.0.1") {
		t.Errorf("frr8.2 NexthopRegisterBody round trip: registered 10.0.0.1, decoded %d nexthop(s), first %+v (bytes % x)",
			len(got.Nexthops), *got.Nexthops[0], buf)
	}
}
