package bmp

import (
	"net/netip"
	"testing"
)

// ParseBMPMessage is handed the first 20 octets of a 64-octet Statistics
// Report (e.g. a short read into a larger receive buffer). It must either
// report that the message is incomplete or confine itself to those 20 octets.
// Instead it re-slices its argument up to the length announced in the common
// header (data[BMP_HEADER_SIZE:msg.Header.Length]); Go allows a slice to be
// extended up to its capacity, so the decoder silently reads the 44 octets
// that lie behind the end of the data it was given and returns success.
func TestD66BmpOverread(t *testing.T) {
	ph := NewBMPPeerHeader(BMP_PEER_TYPE_GLOBAL, 0, 1000, netip.MustParseAddr("10.0.0.1"), 70000, netip.MustParseAddr("10.0.0.2"), 1)
	m := NewBMPStatisticsReport(*ph, []BMPStatsTLVInterface{NewBMPStatsTLV64(BMP_STAT_TYPE_ADJ_RIB_IN, 0x1122334455667788)})
	full, err := m.Serialize()
	if err != nil {
		t.Fatal(err)
	}
	if len(full) != 64 {
		t.Fatalf("unexpected message size %d", len(full))
	}

	recvBuf := make([]byte, 4096)
	copy(recvBuf, full)   // the whole message happens to sit in the buffer ...
	input := recvBuf[:20] // ... but the caller only hands over 20 octets

	got, err := ParseBMPMessage(input)
	if err == nil {
		stat := got.Body.(*BMPStatisticsReport).Stats[0].(*BMPStatsTLV64)
		t.Fatalf("ParseBMPMessage was given %d octets and decoded a %d-octet message from them "+
			"(peer AS %d, stat value %#x): it read %d octets past the end of its input",
			len(input), got.Header.Length, got.PeerHeader.PeerAS, stat.Value, int(got.Header.Length)-len(input))
	}

	// For comparison: the very same 20 octets in a slice without spare
	// capacity are rejected, so the result depends on memory the caller never
	// passed in.
	exact := append([]byte(nil), input...)
	if _, err := ParseBMPMessage(exact[:20:20]); err == nil {
		t.Fatalf("truncated message accepted")
	}
}
