package table

import (
	"net/netip"
	"testing"
	"time"

	"github.com/osrg/gobgp/v4/pkg/packet/bgp"
)

// Two routes whose sources have no neighbour address (routes injected through the API on behalf of two sources):
// the last step of the decision process cannot tell them apart. It must say so - preferring whichever route it is
// asked about first makes the best path depend on the order of arrival.
func TestD111NeighborAddressStepAntisymmetry(t *testing.T) {
	mk := func(id string, as uint32) *Path {
		nlri, _ := bgp.NewIPAddrPrefix(netip.MustParsePrefix("10.10.10.0/24"))
		nh, _ := bgp.NewPathAttributeNextHop(netip.MustParseAddr("192.0.2.1"))
		attrs := []bgp.PathAttributeInterface{bgp.NewPathAttributeOrigin(0), bgp.NewPathAttributeAsPath(nil), nh}
		src := &PeerInfo{AS: as, ID: netip.MustParseAddr(id)}
		return NewPath(bgp.RF_IPv4_UC, src, bgp.PathNLRI{NLRI: nlri}, false, attrs, time.Unix(1700000000, 0), false)
	}
	a, b := mk("1.1.1.1", 65001), mk("2.2.2.2", 65002)
	ab, ba := compareByNeighborAddress(a, b), compareByNeighborAddress(b, a)
	if ab != nil && ba != nil && ab != ba {
		t.Fatalf("neither source has a neighbour address, yet the step prefers the first route it is given in both directions")
	}
}
