package server

import (
	"context"
	"io"
	"log/slog"
	"net"
	"net/netip"
	"sync"
	"testing"
	"time"

	"github.com/eapache/channels"
	"github.com/osrg/gobgp/v4/internal/pkg/table"
	"github.com/osrg/gobgp/v4/pkg/config/oc"
	"github.com/osrg/gobgp/v4/pkg/packet/bgp"
)

// TestFinding: an UPDATE whose last path attribute overruns the Total Path
// Attribute Length (RFC 7606 section 4: treat-as-withdraw) is classified as
// treat-as-withdraw, but BGPUpdate.DecodeFromBytes returns before it decodes the
// NLRI field, so nothing is withdrawn: the route the peer announced before stays
// in the Adj-RIB-In, and no NOTIFICATION is sent either.
func TestD32AttrOverrunNLRI(t *testing.T) {
	const localAS, peerAS = 65000, 65001
	lg := slog.New(slog.NewTextHandler(io.Discard, nil))

	// a real eBGP peer with revised error handling (treat-as-withdraw) enabled
	families := []bgp.Family{bgp.RF_IPv4_UC}
	rib := table.NewTableManager(lg, families)
	peerAddr := netip.MustParseAddr("192.168.0.1")
	nConf := &oc.Neighbor{
		Config: oc.NeighborConfig{PeerAs: peerAS, NeighborAddress: peerAddr},
		State:  oc.NeighborState{PeerAs: peerAS, NeighborAddress: peerAddr, RemoteRouterId: peerAddr},
	}
	gConf := &oc.Global{Config: oc.GlobalConfig{As: localAS}}
	if err := oc.SetDefaultNeighborConfigValues(nConf, nil, gConf); err != nil {
		t.Fatal(err)
	}
	policy := table.NewRoutingPolicy(lg)
	if err := policy.Reset(&oc.RoutingPolicy{}, nil); err != nil {
		t.Fatal(err)
	}
	p := newPeer(gConf, nConf, bgp.BGP_FSM_ESTABLISHED, rib, policy, lg)
	rfmap := map[bgp.Family]bgp.BGPAddPathMode{bgp.RF_IPv4_UC: bgp.BGP_ADD_PATH_NONE}
	p.fsm.familyMap.Store(rfmap)
	localAddr := netip.MustParseAddr("192.168.0.2")
	p.peerInfo.Store(table.NewPeerInfo(gConf, nConf, peerAS, localAS, peerAddr, localAddr, peerAddr, localAddr))
	p.fsm.isEBGP = true
	p.fsm.isConfed = false
	p.fsm.isTreatAsWithdraw = true

	local, remote := net.Pipe()
	defer remote.Close()
	defer local.Close()
	p.fsm.conn = local
	h := &fsmHandler{
		fsm:      p.fsm,
		outgoing: channels.NewInfiniteChannel(),
		callback: func(e *fsmMsg) {
			if m, ok := e.MsgData.(*bgp.BGPMessage); ok && m.Header.Type == bgp.BGP_MSG_UPDATE {
				p.handleUpdate(e)
			}
		},
	}
	p.fsm.h = h

	wrap := func(body []byte) []byte {
		msg := make([]byte, 19, 19+len(body))
		for i := 0; i < 16; i++ {
			msg[i] = 0xff
		}
		l := 19 + len(body)
		msg[16], msg[17], msg[18] = byte(l>>8), byte(l), bgp.BGP_MSG_UPDATE
		return append(msg, body...)
	}
	update := func(attrs []byte, nlri []byte) []byte {
		body := []byte{0, 0, byte(len(attrs) >> 8), byte(len(attrs))}
		body = append(body, attrs...)
		return wrap(append(body, nlri...))
	}

	origin := []byte{0x40, 0x01, 0x01, 0x00}
	asPath := []byte{0x40, 0x02, 0x06, 0x02, 0x01, 0x00, 0x00, 0xfd, 0xe9} // SEQ(65001)
	nextHop := []byte{0x40, 0x03, 0x04, 192, 168, 0, 1}
	med := []byte{0x80, 0x04, 0x04, 0, 0, 0, 10}
	// the same MED whose length octet says 5: it runs one octet past the
	// Total Path Attribute Length (into the NLRI field).
	medOverrun := []byte{0x80, 0x04, 0x05, 0, 0, 0, 10}
	nlri := []byte{24, 10, 0, 0} // 10.0.0.0/24

	cat := func(bs ...[]byte) []byte {
		var r []byte
		for _, b := range bs {
			r = append(r, b...)
		}
		return r
	}
	good := update(cat(origin, asPath, nextHop, med), nlri)
	bad := update(cat(origin, asPath, nextHop, medOverrun), nlri)

	ctx, cancel := context.WithCancel(context.Background())
	defer cancel()
	wg := &sync.WaitGroup{}
	wg.Add(1)
	go h.recvMessageloop(ctx, local, make(chan struct{}, 2), make(chan fsmStateReason, 4), wg)

	write := func(b []byte) {
		remote.SetWriteDeadline(time.Now().Add(5 * time.Second))
		remote.Write(b) // the write fails when the loop has already ended (session reset)
	}
	keepalive := wrap(nil)
	keepalive[18] = bgp.BGP_MSG_KEEPALIVE

	write(good)
	write(keepalive) // returns when the loop is done with the previous message
	if n := p.adjRibIn.Count(families); n != 1 {
		t.Fatalf("the well-formed UPDATE was not installed: %d routes in the Adj-RIB-In", n)
	}

	write(bad)
	write(keepalive)
	remote.Close()
	wg.Wait()

	var notif *bgp.BGPNotification
	select {
	case m := <-p.fsm.notification:
		notif = m.Body.(*bgp.BGPNotification)
	default:
	}
	left := p.adjRibIn.PathList(families, false)
	if len(left) != 0 && notif == nil {
		t.Fatalf("malformed UPDATE (attribute overrunning the total attribute length, prefix 10.0.0.0/24) "+
			"neither removed the prefix from the peer's routes nor reset the session; Adj-RIB-In still has %v", left)
	}
}
