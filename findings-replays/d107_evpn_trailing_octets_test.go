package table

import (
	"encoding/binary"
	"testing"
	"time"

	"github.com/osrg/gobgp/v4/pkg/packet/bgp"
)

// C06: an EVPN MAC/IP Advertisement (type 2) NLRI whose Length octet covers
// one octet more than its fields make up is malformed. It must be contained
// (decode/validate error) - or at the very least must never leave the speaker
// again in malformed shape.
func TestD107EvpnTrailingOctets(t *testing.T) {
	attr := func(flags, typ byte, val []byte) []byte {
		return append([]byte{flags, typ, byte(len(val))}, val...)
	}

	// EVPN type 2: RD(8) ESI(10) ETag(4) MACLen(1) MAC(6) IPLen(1)=0 Label(3) = 33 octets
	rt2 := []byte{}
	rt2 = append(rt2, 0, 0, 0xfd, 0xe8, 0, 0, 0, 1) // RD 65000:1
	rt2 = append(rt2, make([]byte, 10)...)          // ESI 0
	rt2 = append(rt2, 0, 0, 0, 0)                   // ETag
	rt2 = append(rt2, 48, 0, 1, 2, 3, 4, 5)         // MAC
	rt2 = append(rt2, 0)                            // no IP
	rt2 = append(rt2, 0, 0x06, 0x41)                // label 100, bottom of stack
	rt2 = append(rt2, 0xee)                         // FAULT: one stray octet, counted by Length
	nlri := append([]byte{2, byte(len(rt2))}, rt2...) // route type 2, Length 34

	mp := []byte{0, 25, 70, 4, 10, 0, 0, 2, 0} // AFI 25 SAFI 70, next hop 10.0.0.2, reserved
	mp = append(mp, nlri...)

	attrs := []byte{}
	attrs = append(attrs, attr(0x40, 1, []byte{0})...)                       // ORIGIN
	attrs = append(attrs, attr(0x40, 2, []byte{2, 1, 0, 0, 0xfd, 0xe8})...) // AS_PATH 65000
	attrs = append(attrs, attr(0x40, 5, []byte{0, 0, 0, 100})...)           // LOCAL_PREF
	attrs = append(attrs, attr(0x80, 14, mp)...)                            // MP_REACH_NLRI
	body := []byte{0, 0, 0, 0}
	binary.BigEndian.PutUint16(body[2:], uint16(len(attrs)))
	body = append(body, attrs...)

	rfs := map[bgp.Family]bgp.BGPAddPathMode{bgp.RF_IPv4_UC: 0, bgp.RF_EVPN: 0}
	opt := &bgp.MarshallingOption{AddPath: rfs}
	hdr := &bgp.BGPHeader{Type: bgp.BGP_MSG_UPDATE, Len: uint16(bgp.BGP_HEADER_LENGTH + len(body))}

	msg, err := bgp.ParseBGPBody(hdr, body, opt)
	if err != nil {
		t.Logf("contained at decode: %v", err)
		return
	}
	if ok, verr := bgp.ValidateUpdateMsg(msg.Body.(*bgp.BGPUpdate), rfs, false, false, false); !ok {
		t.Logf("contained at validation: %v", verr)
		return
	}

	// the UPDATE was accepted as well-formed: it is installed ...
	peer := &PeerInfo{AS: 65000}
	paths := ProcessMessage(msg, peer, time.Now(), false)
	if len(paths) != 1 || paths[0].IsWithdraw {
		t.Fatalf("expected one announced path, got %v", paths)
	}
	t.Logf("malformed EVPN NLRI accepted and installed: %s", paths[0].GetNlri())

	// ... and propagated. What goes out must at least be decodable.
	for _, out := range CreateUpdateMsgFromPaths(paths, opt) {
		b, err := out.Serialize(opt)
		if err != nil {
			t.Fatalf("the installed route cannot be serialized: %v", err)
		}
		if _, err := bgp.ParseBGPMessage(b, opt); err != nil {
			t.Fatalf("route from a malformed EVPN NLRI (Length 34, 33 octets of fields) was installed and is re-advertised as a malformed UPDATE: %v\n%x", err, b)
		}
	}
	t.Fatalf("malformed EVPN NLRI (Length octet does not match the route's fields) was accepted as well-formed")
}
