package server

import (
	"context"
	"io"
	"net"
	"net/netip"
	"testing"
	"time"

	"github.com/osrg/gobgp/v4/api"
	"github.com/osrg/gobgp/v4/pkg/packet/bgp"
)

// C07: RFC 4271 8.2.2 (OpenSent, event 19): on a valid OPEN the speaker "sets
// the HoldTimer according to the negotiated value" and sets the
// KeepaliveTimer; in OpenConfirm the expiry of that HoldTimer (event 10)
// sends NOTIFICATION(Hold Timer Expired) and drops to Idle.
//
// gobgp computes Timers.State.NegotiatedHoldTime / KeepaliveInterval only in
// fsm.stateChange(ESTABLISHED), i.e. AFTER OpenConfirm. openconfirm() reads
// the field before it was ever written: on the first session it is 0, so the
// hold timer and the keepalive ticker are both disabled and a peer that goes
// silent after its OPEN keeps the session in OpenConfirm forever.

func fndReadMsg(conn net.Conn, deadline time.Time) (*bgp.BGPMessage, error) {
	_ = conn.SetReadDeadline(deadline)
	hdr := make([]byte, bgp.BGP_HEADER_LENGTH)
	if _, err := io.ReadFull(conn, hdr); err != nil {
		return nil, err
	}
	h := &bgp.BGPHeader{}
	if err := h.DecodeFromBytes(hdr); err != nil {
		return nil, err
	}
	body := make([]byte, int(h.Len)-bgp.BGP_HEADER_LENGTH)
	if _, err := io.ReadFull(conn, body); err != nil {
		return nil, err
	}
	return bgp.ParseBGPBody(h, body)
}

func fndSessionState(t *testing.T, s *BgpServer) api.PeerState_SessionState {
	t.Helper()
	st := api.PeerState_SESSION_STATE_UNSPECIFIED
	err := s.ListPeer(context.Background(), &api.ListPeerRequest{}, func(p *api.Peer) {
		st = p.State.SessionState
	})
	if err != nil {
		t.Fatalf("ListPeer: %v", err)
	}
	return st
}

func TestD54OpenconfirmTimers(t *testing.T) {
	const port = 10179
	s := NewBgpServer()
	go s.Serve()
	if err := s.StartBgp(context.Background(), &api.StartBgpRequest{
		Global: &api.Global{Asn: 65001, RouterId: "1.1.1.1", ListenPort: port, ListenAddresses: []string{"127.0.0.1"}},
	}); err != nil {
		t.Fatalf("StartBgp: %v", err)
	}
	defer s.StopBgp(context.Background(), &api.StopBgpRequest{})

	if err := s.AddPeer(context.Background(), &api.AddPeerRequest{Peer: &api.Peer{
		Conf:      &api.PeerConf{NeighborAddress: "127.0.0.1", PeerAsn: 65002},
		Transport: &api.Transport{PassiveMode: true},
		Timers:    &api.Timers{Config: &api.TimersConfig{HoldTime: 90, KeepaliveInterval: 30}},
	}}); err != nil {
		t.Fatalf("AddPeer: %v", err)
	}

	// the remote speaker proposes a hold time of 3 seconds: negotiated = min(90, 3) = 3
	const peerHold = 3
	open, _ := bgp.NewBGPOpenMessage(65002, peerHold, netip.MustParseAddr("2.2.2.2"),
		[]bgp.OptionParameterInterface{bgp.NewOptionParameterCapability(
			[]bgp.ParameterCapabilityInterface{bgp.NewCapFourOctetASNumber(65002)})})
	openBytes, _ := open.Serialize()

	// connect until the FSM is in Active and answers with its OPEN
	var conn net.Conn
	deadline := time.Now().Add(15 * time.Second)
	for conn == nil {
		if time.Now().After(deadline) {
			t.Fatal("could not get an OPEN from the server")
		}
		c, err := net.DialTimeout("tcp", "127.0.0.1:10179", time.Second)
		if err != nil {
			time.Sleep(100 * time.Millisecond)
			continue
		}
		if _, err := c.Write(openBytes); err != nil {
			c.Close()
			continue
		}
		m, err := fndReadMsg(c, time.Now().Add(2*time.Second))
		if err != nil || m.Header.Type != bgp.BGP_MSG_OPEN {
			c.Close()
			time.Sleep(100 * time.Millisecond)
			continue
		}
		conn = c
	}
	defer conn.Close()

	// the server acknowledges our OPEN with a KEEPALIVE and is now in OpenConfirm
	m, err := fndReadMsg(conn, time.Now().Add(5*time.Second))
	if err != nil || m.Header.Type != bgp.BGP_MSG_KEEPALIVE {
		t.Fatalf("expected the KEEPALIVE that acknowledges our OPEN, got %v / %v", m, err)
	}
	start := time.Now()

	// stay silent: never send the KEEPALIVE. The negotiated hold time is 3s,
	// so within 3s (we allow 9s) a NOTIFICATION(Hold Timer Expired) is due.
	limit := start.Add(3 * peerHold * time.Second)
	for {
		m, err := fndReadMsg(conn, limit)
		if err != nil {
			t.Fatalf("no NOTIFICATION(Hold Timer Expired) within %v of silence in OpenConfirm "+
				"(negotiated hold time %ds): read: %v; reported session state is still %v",
				time.Since(start).Round(time.Millisecond), peerHold, err, fndSessionState(t, s))
		}
		if m.Header.Type == bgp.BGP_MSG_KEEPALIVE {
			continue // the KeepaliveTimer is allowed to fire
		}
		if m.Header.Type != bgp.BGP_MSG_NOTIFICATION {
			t.Fatalf("unexpected message type %d in OpenConfirm", m.Header.Type)
		}
		n := m.Body.(*bgp.BGPNotification)
		if n.ErrorCode != bgp.BGP_ERROR_HOLD_TIMER_EXPIRED {
			t.Fatalf("expected NOTIFICATION code %d (Hold Timer Expired), got %d/%d",
				bgp.BGP_ERROR_HOLD_TIMER_EXPIRED, n.ErrorCode, n.ErrorSubcode)
		}
		break
	}
}
