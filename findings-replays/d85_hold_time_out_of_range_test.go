package server

import (
	"context"
	"net/netip"
	"testing"

	"github.com/osrg/gobgp/v4/api"
	"github.com/osrg/gobgp/v4/pkg/packet/bgp"
)

// C08: the session runs with hold time min(local, remote) and the OPEN sent
// reflects the configuration.
//
// The hold time of a neighbour is accepted from the API as a 64-bit number and
// kept as a float64, and it is put into the 16-bit OPEN field by a plain
// conversion. With a configured hold time of 65546 seconds the OPEN announces
// something else (10 on amd64), so the peer computes min(10, its own), while
// the local side computes min(65546, remote): both ends run different hold
// timers on the same session, and neither is the minimum of the two announced
// values.
func TestD85HoldTimeOutOfRange(t *testing.T) {
	ctx := context.Background()
	s := NewBgpServer()
	go s.Serve()
	if err := s.StartBgp(ctx, &api.StartBgpRequest{Global: &api.Global{Asn: 65000, RouterId: "1.1.1.1", ListenPort: -1}}); err != nil {
		t.Fatal(err)
	}
	defer s.StopBgp(ctx, &api.StopBgpRequest{})

	const configured = 65546
	err := s.AddPeer(ctx, &api.AddPeerRequest{Peer: &api.Peer{
		Conf:      &api.PeerConf{NeighborAddress: "192.0.2.2", PeerAsn: 65001},
		Transport: &api.Transport{PassiveMode: true},
		Timers:    &api.Timers{Config: &api.TimersConfig{HoldTime: configured}},
	}})
	if err != nil {
		// rejecting the value would be fine
		t.Skipf("configuration refused: %v", err)
	}

	var sent *bgp.BGPOpen
	var negotiated, keepalive float64
	const remoteHold = 90
	_ = s.mgmtOperation(func() error {
		p := s.neighborMap[netip.MustParseAddr("192.0.2.2")]
		p.fsm.lock.Lock()
		defer p.fsm.lock.Unlock()
		conf := p.fsm.pConf.ReadCopy()
		// the OPEN the FSM sends for this neighbour
		sent = buildopen(p.fsm.gConf, &conf).Body.(*bgp.BGPOpen)
		// the OPEN received from the peer
		remote, _ := bgp.NewBGPOpenMessage(65001, remoteHold, netip.MustParseAddr("2.2.2.2"), nil)
		// what the FSM does on OPENCONFIRM / ESTABLISHED
		negotiateTimers(&conf, remote.Body.(*bgp.BGPOpen))
		negotiated = conf.Timers.State.NegotiatedHoldTime
		keepalive = conf.Timers.State.KeepaliveInterval
		return nil
	}, false)

	t.Logf("configured hold time %d, announced in OPEN %d, remote announced %d, local side runs hold %v keepalive %v",
		configured, sent.HoldTime, remoteHold, negotiated, keepalive)

	if uint64(sent.HoldTime) != configured {
		t.Errorf("OPEN announces hold time %d for a neighbour configured with %d", sent.HoldTime, configured)
	}
	want := float64(min(sent.HoldTime, remoteHold)) // what the peer computes from the two OPENs
	if negotiated != want {
		t.Errorf("session hold time is %v, but min(announced %d, received %d) = %v", negotiated, sent.HoldTime, remoteHold, want)
	}
	if want != 0 && keepalive > want/3 {
		t.Errorf("keepalive interval %v exceeds a third of the hold time the peer applies (%v)", keepalive, want)
	}
}
