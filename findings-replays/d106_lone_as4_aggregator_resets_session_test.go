package server

import (
	"context"
	"encoding/binary"
	"sync"
	"testing"
	"time"

	"github.com/osrg/gobgp/v4/pkg/packet/bgp"
)

// C06: with revised error handling enabled a malformed AGGREGATOR calls for
// attribute discard (RFC 7606 7.7) and nothing in the UPDATE below calls for
// more. A 2-octet-AS speaker that aggregates with a 4-octet AS sends
// AGGREGATOR(AS_TRANS) together with AS4_AGGREGATOR (RFC 6793), so the pair is
// the normal case. Discarding the AGGREGATOR must not turn into a session reset.
func TestD106LoneAs4AggregatorResetsSession(t *testing.T) {
	attr := func(flags, typ byte, val []byte) []byte {
		return append([]byte{flags, typ, byte(len(val))}, val...)
	}
	attrs := []byte{}
	attrs = append(attrs, attr(0x40, 1, []byte{0})...)                               // ORIGIN
	attrs = append(attrs, attr(0x40, 2, []byte{2, 1, 0xfd, 0xe8})...)               // AS_PATH 65000 (2-octet)
	attrs = append(attrs, attr(0x40, 3, []byte{10, 0, 0, 2})...)                    // NEXT_HOP
	attrs = append(attrs, attr(0xc0, 7, []byte{0x5b, 0xa0, 10, 0, 0})...)           // FAULT: AGGREGATOR, length 5
	attrs = append(attrs, attr(0xc0, 18, []byte{0, 1, 0x11, 0x70, 10, 0, 0, 9})...) // AS4_AGGREGATOR 70000 10.0.0.9
	body := []byte{0, 0, 0, 0}
	binary.BigEndian.PutUint16(body[2:], uint16(len(attrs)))
	body = append(body, attrs...)
	body = append(body, 24, 10, 1, 1) // NLRI 10.1.1.0/24
	hdr := &bgp.BGPHeader{Type: bgp.BGP_MSG_UPDATE, Len: uint16(bgp.BGP_HEADER_LENGTH + len(body))}
	hb, _ := hdr.Serialize()
	raw := append(hb, body...)

	m := NewMockConnection()
	_, h := makePeerAndHandler(m)
	t.Cleanup(func() {
		h.outgoing.Close()
		h.fsm.outgoingCh.Close()
		h.fsm.conn.Close()
	})
	h.fsm.isTreatAsWithdraw = true // revised error handling
	h.fsm.twoByteAsTrans = true    // the peer did not advertise the 4-octet AS capability
	h.fsm.isEBGP = true
	h.fsm.familyMap.Store(map[bgp.Family]bgp.BGPAddPathMode{bgp.RF_IPv4_UC: bgp.BGP_ADD_PATH_NONE})

	got := make(chan *fsmMsg, 1)
	h.callback = func(f *fsmMsg) { got <- f }

	ctx, cancel := context.WithCancel(context.Background())
	wg := &sync.WaitGroup{}
	wg.Add(1)
	go h.recvMessageloop(ctx, m.Conn, make(chan struct{}, 2), make(chan fsmStateReason, 2), wg)
	go m.remote.Write(raw)
	defer func() {
		cancel()
		m.Conn.SetReadDeadline(time.Now())
		wg.Wait()
	}()

	select {
	case f := <-got:
		if f.handling != bgp.ERROR_HANDLING_ATTRIBUTE_DISCARD {
			t.Fatalf("expected attribute discard, got handling %d", f.handling)
		}
		for _, a := range f.MsgData.(*bgp.BGPMessage).Body.(*bgp.BGPUpdate).PathAttributes {
			if a.GetType() == bgp.BGP_ATTR_TYPE_AGGREGATOR {
				t.Fatalf("malformed AGGREGATOR was not discarded")
			}
		}
	case n := <-h.fsm.notification:
		b := n.Body.(*bgp.BGPNotification)
		t.Fatalf("UPDATE whose only fault calls for attribute discard (malformed AGGREGATOR) reset the session: NOTIFICATION %d/%d", b.ErrorCode, b.ErrorSubcode)
	case <-time.After(5 * time.Second):
		t.Fatalf("no reaction")
	}
}
