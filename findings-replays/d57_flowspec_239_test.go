package bgp

import (
	"bytes"
	"net/netip"
	"testing"
)

// A FlowSpec NLRI whose components add up to exactly 239 octets sits on the
// boundary between the 1-octet and the 2-octet NLRI length encodings (RFC 8955
// 4.1: "smaller than 240" -> one octet). FlowSpecNLRI.Len() picks the 1-octet
// form (239+1 = 240), FlowSpecNLRI.Serialize() compares that 240 against 0xf0,
// falls into the 2-octet branch and writes 0xf000|(240-2): a 2-octet header
// announcing 238 octets in front of 239 octets of components.
func TestD57FlowSpec239(t *testing.T) {
	// one "port" component: type(1) + 119 * (op(1) + value(1)) = 239 octets
	items := make([]*FlowSpecComponentItem, 0, 119)
	for i := 0; i < 119; i++ {
		items = append(items, NewFlowSpecComponentItem(DEC_NUM_OP_EQ, uint64(i+1)))
	}
	port := NewFlowSpecComponent(FLOW_SPEC_TYPE_PORT, items)
	if port.Len() != 239 {
		t.Fatalf("test setup: component is %d octets, want 239", port.Len())
	}
	fs, err := NewFlowSpecUnicast(RF_FS_IPv4_UC, []FlowSpecComponentInterface{port})
	if err != nil {
		t.Fatal(err)
	}

	buf, err := fs.Serialize()
	if err != nil {
		t.Fatal(err)
	}
	if fs.Len() != len(buf) {
		t.Errorf("FlowSpecNLRI.Len() = %d, but Serialize() emitted %d octets (header % x)", fs.Len(), len(buf), buf[:2])
	}

	// the same NLRI followed by a second one in an MP_REACH_NLRI: the first
	// NLRI is one octet longer than its header says, so the second is mis-framed
	dst, _ := NewIPAddrPrefix(netip.MustParsePrefix("192.0.2.0/24"))
	second, _ := NewFlowSpecUnicast(RF_FS_IPv4_UC, []FlowSpecComponentInterface{NewFlowSpecDestinationPrefix(dst)})
	reach, _ := NewPathAttributeMpReachNLRI(RF_FS_IPv4_UC, []PathNLRI{{NLRI: fs}, {NLRI: second}})
	msg := NewBGPUpdateMessage(nil, []PathAttributeInterface{
		NewPathAttributeOrigin(BGP_ORIGIN_ATTR_TYPE_IGP),
		NewPathAttributeAsPath(nil),
		reach,
	}, nil)
	wire, err := msg.Serialize()
	if err != nil {
		t.Fatal(err)
	}
	parsed, err := ParseBGPMessage(wire)
	if err != nil {
		t.Fatalf("the UPDATE the library serialised does not parse back: %v", err)
	}
	var got *PathAttributeMpReachNLRI
	for _, a := range parsed.Body.(*BGPUpdate).PathAttributes {
		if r, ok := a.(*PathAttributeMpReachNLRI); ok {
			got = r
		}
	}
	if got == nil || len(got.Value) != 2 {
		t.Fatalf("MP_REACH_NLRI with 2 FlowSpec NLRI parsed back to %v", got)
	}
	for i, want := range []NLRI{fs, second} {
		wb, _ := want.Serialize()
		gb, _ := got.Value[i].NLRI.Serialize()
		if want.String() != got.Value[i].NLRI.String() || !bytes.Equal(wb, gb) {
			t.Errorf("NLRI %d did not survive the round trip:\n sent %s\n got  %s", i, want, got.Value[i].NLRI)
		}
	}
}
