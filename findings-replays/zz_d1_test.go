package table

import (
	"net/netip"
	"testing"
	"time"

	"github.com/osrg/gobgp/v4/pkg/packet/bgp"
)

func TestD1(t *testing.T) {
	pi := &PeerInfo{AS: 65001, ID: netip.MustParseAddr("1.1.1.1"), Address: netip.MustParseAddr("10.0.0.1")}
	nlri, _ := bgp.NewIPAddrPrefix(netip.MustParsePrefix("10.0.0.0/24"))
	nh, _ := bgp.NewPathAttributeNextHop(netip.MustParseAddr("1.1.1.1"))
	attrs := []bgp.PathAttributeInterface{
		bgp.NewPathAttributeOrigin(0),
		bgp.NewPathAttributeAsPath([]bgp.AsPathParamInterface{bgp.NewAs4PathParam(2, []uint32{65001})}),
		nh,
		bgp.NewPathAttributeUnknown(bgp.BGP_ATTR_FLAG_OPTIONAL|bgp.BGP_ATTR_FLAG_TRANSITIVE, 200, make([]byte, 4090)),
	}
	p := NewPath(bgp.RF_IPv4_UC, pi, bgp.PathNLRI{NLRI: nlri}, false, attrs, time.Unix(100, 0), false)
	defer func() {
		if r := recover(); r != nil {
			t.Fatalf("VERIF-REPLAY: panic %v", r)
		}
	}()
	msgs := CreateUpdateMsgFromPaths([]*Path{p})
	t.Logf("VERIF-REPLAY: %d message(s), no panic", len(msgs))
}
