package server

import (
	"context"
	"io"
	"net"
	"net/netip"
	"strconv"
	"testing"
	"time"

	"github.com/osrg/gobgp/v4/api"
	"github.com/osrg/gobgp/v4/pkg/packet/rtr"
)

// A cache server that was added with AddRpki(address, port) cannot be removed
// with DeleteRpki(address, port): the records it announced stay in the ROA
// table and the cache stays configured.
func TestD64DeleteRpkiKey(t *testing.T) {
	// a minimal RTR cache: answers the Reset Query with one IPv4 record
	ln, err := net.Listen("tcp", "127.0.0.1:0")
	if err != nil {
		t.Fatal(err)
	}
	defer ln.Close()
	go func() {
		for {
			conn, err := ln.Accept()
			if err != nil {
				return
			}
			go func(c net.Conn) {
				defer c.Close()
				q := make([]byte, rtr.RTR_RESET_QUERY_LEN)
				if _, err := io.ReadFull(c, q); err != nil {
					return
				}
				for _, m := range []rtr.RTRMessage{
					rtr.NewRTRCacheResponse(7),
					rtr.NewRTRIPPrefix(netip.MustParseAddr("192.0.2.0"), 24, 24, 65001, rtr.ANNOUNCEMENT),
					rtr.NewRTREndOfData(7, 1),
				} {
					b, _ := m.Serialize()
					if _, err := c.Write(b); err != nil {
						return
					}
				}
				// keep the session up
				io.Copy(io.Discard, c)
			}(conn)
		}
	}()
	_, portStr, _ := net.SplitHostPort(ln.Addr().String())
	port, _ := strconv.Atoi(portStr)

	s := NewBgpServer()
	go s.Serve()
	ctx := context.Background()
	if err := s.StartBgp(ctx, &api.StartBgpRequest{Global: &api.Global{Asn: 65000, RouterId: "1.1.1.1", ListenPort: -1}}); err != nil {
		t.Fatal(err)
	}
	defer s.StopBgp(ctx, &api.StopBgpRequest{})

	if err := s.AddRpki(ctx, &api.AddRpkiRequest{Address: "127.0.0.1", Port: uint32(port)}); err != nil {
		t.Fatal(err)
	}

	countROAs := func() int {
		n := 0
		if err := s.ListRpkiTable(ctx, &api.ListRpkiTableRequest{}, func(*api.Roa) { n++ }); err != nil {
			t.Fatal(err)
		}
		return n
	}
	countServers := func() int {
		n := 0
		if err := s.ListRpki(ctx, &api.ListRpkiRequest{}, func(*api.Rpki) { n++ }); err != nil {
			t.Fatal(err)
		}
		return n
	}

	deadline := time.Now().Add(10 * time.Second)
	for countROAs() != 1 {
		if time.Now().After(deadline) {
			t.Fatal("the ROA announced by the cache never arrived")
		}
		time.Sleep(50 * time.Millisecond)
	}

	// remove the cache server with the same address and port it was added with
	err = s.DeleteRpki(ctx, &api.DeleteRpkiRequest{Address: "127.0.0.1", Port: uint32(port)})
	if err != nil {
		t.Errorf("DeleteRpki(127.0.0.1, %d) failed: %v", port, err)
	}
	if n := countServers(); n != 0 {
		t.Errorf("%d cache server(s) still configured after DeleteRpki", n)
	}
	if n := countROAs(); n != 0 {
		t.Errorf("%d ROA(s) of the removed cache server are still in the ROA table", n)
	}
}
