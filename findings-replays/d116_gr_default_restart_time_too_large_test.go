package server

import (
	"net/netip"
	"testing"

	"github.com/osrg/gobgp/v4/pkg/config/oc"
	"github.com/osrg/gobgp/v4/pkg/packet/bgp"
)

// A neighbour with a hold time above 4095 seconds (valid: 3..65535) and
// graceful restart enabled, restart-time left to its default. The default
// restart time is taken from the hold time, which does not fit the 12-bit
// field of the capability: the OPEN cannot be built and the session never
// comes up.
func TestD116GrDefaultRestartTimeTooLarge(t *testing.T) {
	g := &oc.Global{Config: oc.GlobalConfig{As: 65000, RouterId: netip.MustParseAddr("1.1.1.1")}}
	n := &oc.Neighbor{
		Config:          oc.NeighborConfig{NeighborAddress: netip.MustParseAddr("10.0.0.2"), PeerAs: 65001},
		Timers:          oc.Timers{Config: oc.TimersConfig{HoldTime: 5000}},
		GracefulRestart: oc.GracefulRestart{Config: oc.GracefulRestartConfig{Enabled: true}},
	}
	if err := oc.SetDefaultNeighborConfigValues(n, nil, g); err != nil {
		// refusing the configuration would be a correct outcome too
		t.Logf("configuration refused: %v", err)
		return
	}
	t.Logf("hold-time %v, graceful restart time %d", n.Timers.Config.HoldTime, n.GracefulRestart.Config.RestartTime)

	open := buildopen(g, n)
	buf, err := open.Serialize()
	if err != nil {
		t.Fatalf("the accepted configuration (hold-time 5000, graceful-restart enabled) yields no OPEN: %v", err)
	}
	m, err := bgp.ParseBGPMessage(buf)
	if err != nil {
		t.Fatal(err)
	}
	body := m.Body.(*bgp.BGPOpen)
	if body.HoldTime != 5000 {
		t.Fatalf("hold time in OPEN %d, configured 5000", body.HoldTime)
	}
	for _, p := range body.OptParams {
		if c, ok := p.(*bgp.OptionParameterCapability); ok {
			for _, cc := range c.Capability {
				if gr, ok := cc.(*bgp.CapGracefulRestart); ok {
					if gr.Time > 4095 || gr.Time == 0 {
						t.Fatalf("restart time %d", gr.Time)
					}
					return
				}
			}
		}
	}
	t.Fatal("graceful restart is configured but the OPEN carries no such capability")
}
