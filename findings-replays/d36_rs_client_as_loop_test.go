package server

import (
	"context"
	"net/netip"
	"testing"
	"time"

	"github.com/osrg/gobgp/v4/api"
	"github.com/osrg/gobgp/v4/internal/pkg/table"
	"github.com/osrg/gobgp/v4/pkg/config/oc"
	"github.com/osrg/gobgp/v4/pkg/packet/bgp"
)

// Route server with four clients. c1 (AS 65001) announces a route whose
// AS_PATH already contains AS 65002, 65003 and 65004.
//   - c3 (AS 65003, plain RS client) correctly does not get it: the per-client
//     best path filter (rsFilter) drops routes containing the client's AS.
//   - c2 (AS 65002, RS client with secondary-route enabled) gets the route,
//   - c4 (AS 65004, RS client with add-path send enabled) gets the route,
//     although their own AS is in the AS_PATH: both code paths hand paths to
//     filterpath without going through rsFilter, and filterpath skips the
//     AS-loop check for route-server clients.
func TestD36RsClientAsLoop(t *testing.T) {
	s := NewBgpServer()
	go s.Serve()
	defer s.Stop()
	if err := s.StartBgp(context.Background(), &api.StartBgpRequest{Global: &api.Global{
		Asn: 65000, RouterId: "1.1.1.1", ListenPort: -1,
	}}); err != nil {
		t.Fatal(err)
	}

	mkClient := func(address string, as uint32, secondary, addPathSend bool) *peer {
		addr := netip.MustParseAddr(address)
		nConf := &oc.Neighbor{
			Config: oc.NeighborConfig{PeerAs: as, NeighborAddress: addr},
			State:  oc.NeighborState{PeerAs: as, NeighborAddress: addr, RemoteRouterId: addr},
			RouteServer: oc.RouteServer{Config: oc.RouteServerConfig{
				RouteServerClient: true,
				SecondaryRoute:    secondary,
			}},
		}
		if addPathSend {
			nConf.AddPaths.Config.SendMax = 4
		}
		if err := oc.SetDefaultNeighborConfigValues(nConf, nil, &s.bgpConfig.Global); err != nil {
			t.Fatal(err)
		}
		p := newPeer(&s.bgpConfig.Global, nConf, bgp.BGP_FSM_ESTABLISHED, s.rsRib, s.policy, logger)
		if err := s.policy.SetPeerPolicy(p.ID(), nConf.ApplyPolicy); err != nil {
			t.Fatal(err)
		}
		mode := bgp.BGP_ADD_PATH_NONE
		if addPathSend {
			mode = bgp.BGP_ADD_PATH_SEND
		}
		p.fsm.familyMap.Store(map[bgp.Family]bgp.BGPAddPathMode{bgp.RF_IPv4_UC: mode})
		p.peerInfo.Store(table.NewPeerInfo(&s.bgpConfig.Global, nConf, as, 65000, addr,
			netip.MustParseAddr("1.1.1.1"), addr, netip.MustParseAddr("192.168.0.254")))
		return p
	}

	var c1, c2, c3, c4 *peer
	if err := s.mgmtOperation(func() error {
		c1 = mkClient("192.168.0.1", 65001, false, false)
		c2 = mkClient("192.168.0.2", 65002, true, false)
		c3 = mkClient("192.168.0.3", 65003, false, false)
		c4 = mkClient("192.168.0.4", 65004, false, true)
		for _, p := range []*peer{c1, c2, c3, c4} {
			s.neighborMap[netip.MustParseAddr(p.ID())] = p
		}
		return nil
	}, false); err != nil {
		t.Fatal(err)
	}
	// the hand-made peers have no running FSM; take them out again before Stop()
	defer func() {
		_ = s.mgmtOperation(func() error {
			for _, p := range []*peer{c1, c2, c3, c4} {
				delete(s.neighborMap, netip.MustParseAddr(p.ID()))
			}
			return nil
		}, false)
	}()
	if c4.getAddPathSendMax(bgp.RF_IPv4_UC) == 0 || !c4.isAddPathSendEnabled(bgp.RF_IPv4_UC) {
		t.Fatal("setup: add-path send not enabled for c4")
	}

	nlri, _ := bgp.NewIPAddrPrefix(netip.MustParsePrefix("10.10.10.0/24"))
	nh, _ := bgp.NewPathAttributeNextHop(netip.MustParseAddr("192.168.0.1"))
	attrs := []bgp.PathAttributeInterface{
		bgp.NewPathAttributeOrigin(0),
		bgp.NewPathAttributeAsPath([]bgp.AsPathParamInterface{
			bgp.NewAs4PathParam(bgp.BGP_ASPATH_ATTR_TYPE_SEQ, []uint32{65001, 65002, 65003, 65004, 65009}),
		}),
		nh,
	}
	path := table.NewPath(bgp.RF_IPv4_UC, c1.peerInfo.Load(), bgp.PathNLRI{NLRI: nlri}, false, attrs, time.Now(), false)

	if err := s.mgmtOperation(func() error {
		s.propagateUpdate(c1, []*table.Path{path})
		return nil
	}, false); err != nil {
		t.Fatal(err)
	}

	sent := func(p *peer) []*table.Path {
		select {
		case m := <-p.fsm.outgoingCh.Out():
			return m.(*fsmOutgoingMsg).Paths
		case <-time.After(300 * time.Millisecond):
			return nil
		}
	}

	if l := sent(c3); len(l) != 0 {
		t.Fatalf("control: plain RS client AS 65003 was sent %v", l)
	}
	for name, c := range map[string]*peer{"secondary-route": c2, "add-path send": c4} {
		for _, p := range sent(c) {
			if !p.IsWithdraw {
				t.Errorf("route %s with AS_PATH %v was advertised to route-server client %s (%s) whose AS %d is already in the AS_PATH",
					p.GetPrefix(), p.GetAsList(), c.ID(), name, c.AS())
			}
		}
	}
}
