package mrt

import (
	"bufio"
	"bytes"
	"testing"
)

// SplitMrt computes the record length as int(hdr.Len + MRT_COMMON_HEADER_LEN).
// The addition is done in uint32, so a length field close to 2^32 wraps
// around. With Len = 0xFFFFFFF4 the sum is 0: SplitMrt returns advance 0 with
// a non-nil empty token, which makes bufio.Scanner hand out empty tokens
// forever (no progress, no error). With Len = 0xFFFFFFF8 it returns the first
// 4 octets of the header as a complete "record".
func TestD28SplitMrtWrap(t *testing.T) {
	hdr := func(l uint32) []byte {
		b := make([]byte, MRT_COMMON_HEADER_LEN)
		b[5] = byte(TABLE_DUMPv2)
		b[7] = byte(PEER_INDEX_TABLE)
		b[8], b[9], b[10], b[11] = byte(l>>24), byte(l>>16), byte(l>>8), byte(l)
		return b
	}

	// direct call: a 12 octet buffer announcing a ~4GiB body can never hold a
	// complete record, so no token may be produced from it.
	for _, l := range []uint32{0xFFFFFFF4, 0xFFFFFFF8, 0xFFFFFFFF} {
		data := hdr(l)
		advance, token, err := SplitMrt(data, false)
		if err == nil && token != nil {
			t.Errorf("Len=%#x: SplitMrt returned advance=%d and a %d octet token from a bare %d octet header; the record it announces is %d octets long",
				l, advance, len(token), len(data), uint64(l)+MRT_COMMON_HEADER_LEN)
		}
	}

	// through bufio.Scanner, the documented way to use SplitMrt.
	sc := bufio.NewScanner(bytes.NewReader(hdr(0xFFFFFFF4)))
	sc.Split(SplitMrt)
	n := 0
	for sc.Scan() {
		n++
		if n > 10000 {
			t.Fatalf("bufio.Scanner with SplitMrt does not terminate: %d empty tokens returned without consuming any input", n)
		}
	}
}
