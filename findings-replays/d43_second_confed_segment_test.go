package table

import (
	"testing"

	"github.com/osrg/gobgp/v4/pkg/packet/bgp"
)

// C14: a path with a leading confederation run of two segments
// (AS_CONFED_SEQUENCE followed by AS_CONFED_SET, all members 2-octet) and a
// 4-octet AS in the following AS_SEQUENCE is sent to a 2-octet-AS peer and
// reconstructed by a 4-octet speaker. Nothing may be lost.
func TestD43SecondConfedSegment(t *testing.T) {
	orig := []bgp.AsPathParamInterface{
		bgp.NewAs4PathParam(bgp.BGP_ASPATH_ATTR_TYPE_CONFED_SEQ, []uint32{65001, 65002}),
		bgp.NewAs4PathParam(bgp.BGP_ASPATH_ATTR_TYPE_CONFED_SET, []uint32{65003, 65004}),
		bgp.NewAs4PathParam(bgp.BGP_ASPATH_ATTR_TYPE_SEQ, []uint32{70000, 100}),
	}
	want := bgp.AsPathString(bgp.NewPathAttributeAsPath(orig))

	msg := bgp.NewBGPUpdateMessage(nil, []bgp.PathAttributeInterface{
		bgp.NewPathAttributeOrigin(0),
		bgp.NewPathAttributeAsPath(orig),
	}, nil)

	// what sendMessageloop does for a 2-octet-AS peer
	UpdatePathAttrs2ByteAs(msg.Body.(*bgp.BGPUpdate))
	wire, err := msg.Serialize()
	if err != nil {
		t.Fatal(err)
	}

	// what the receiving 4-octet speaker does with an UPDATE from an OLD peer
	rcv, err := bgp.ParseBGPMessage(wire, &bgp.MarshallingOption{Use2ByteAS: true})
	if err != nil {
		t.Fatal(err)
	}
	body := rcv.Body.(*bgp.BGPUpdate)
	UpdatePathAttrs4ByteAs(logger, body)

	var got string
	for _, a := range body.PathAttributes {
		if p, ok := a.(*bgp.PathAttributeAsPath); ok {
			got = bgp.AsPathString(p)
		}
	}
	if got != want {
		t.Fatalf("AS_PATH changed by the 2-octet/4-octet round trip:\n sent          %q\n reconstructed %q", want, got)
	}
}
