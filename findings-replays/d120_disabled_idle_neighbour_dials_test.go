package server

import (
	"context"
	"io"
	"net"
	"net/netip"
	"strconv"
	"testing"
	"time"

	"github.com/osrg/gobgp/v4/api"
	"github.com/osrg/gobgp/v4/pkg/packet/bgp"
)

// A neighbour that is administratively disabled while its FSM sits in Idle
// keeps dialling the peer: the goroutine that makes the outgoing connections
// (started in Active) survives every transition to Idle that is not itself
// caused by "admin down", and disabling the neighbour in Idle does not stop
// it. The disabled, Idle neighbour then completes a TCP connection to the
// peer and sends it an OPEN.
func TestD120DisabledIdleNeighbourDials(t *testing.T) {
	freePort := func() int {
		l, err := net.Listen("tcp4", "127.0.0.1:0")
		if err != nil {
			t.Fatal(err)
		}
		p := l.Addr().(*net.TCPAddr).Port
		l.Close()
		return p
	}
	gPort := freePort() // where the speaker under test listens
	pPort := freePort() // where the (test-driven) peer will listen later; closed for now

	s := NewBgpServer()
	go s.Serve()
	if err := s.StartBgp(context.Background(), &api.StartBgpRequest{
		Global: &api.Global{
			Asn:             65001,
			RouterId:        "1.1.1.1",
			ListenPort:      int32(gPort),
			ListenAddresses: []string{"127.0.0.1"},
		},
	}); err != nil {
		t.Fatal(err)
	}
	defer s.StopBgp(context.Background(), &api.StopBgpRequest{})

	if err := s.AddPeer(context.Background(), &api.AddPeerRequest{Peer: &api.Peer{
		Conf:      &api.PeerConf{NeighborAddress: "127.0.0.1", PeerAsn: 65002},
		Transport: &api.Transport{RemotePort: uint32(pPort)},
		Timers:    &api.Timers{Config: &api.TimersConfig{ConnectRetry: 2}},
	}}); err != nil {
		t.Fatal(err)
	}

	peerState := func() (api.PeerState_SessionState, api.PeerState_AdminState) {
		var ss api.PeerState_SessionState
		var as api.PeerState_AdminState
		if err := s.ListPeer(context.Background(), &api.ListPeerRequest{Address: "127.0.0.1"}, func(p *api.Peer) {
			ss, as = p.State.SessionState, p.State.AdminState
		}); err != nil {
			t.Fatal(err)
		}
		return ss, as
	}
	waitState := func(want api.PeerState_SessionState) {
		t.Helper()
		deadline := time.Now().Add(10 * time.Second)
		for time.Now().Before(deadline) {
			if ss, _ := peerState(); ss == want {
				return
			}
			time.Sleep(20 * time.Millisecond)
		}
		ss, _ := peerState()
		t.Fatalf("session state %s, want %s", ss, want)
	}

	// the neighbour starts (Idle -> Active) and begins to dial pPort, in vain
	waitState(api.PeerState_SESSION_STATE_ACTIVE)

	// the peer connects, and answers the speaker's OPEN with an OPEN of the
	// wrong AS: the speaker sends Bad Peer AS and goes to Idle
	in, err := net.Dial("tcp4", net.JoinHostPort("127.0.0.1", strconv.Itoa(gPort)))
	if err != nil {
		t.Fatal(err)
	}
	defer in.Close()
	readMsg := func(c net.Conn) (*bgp.BGPMessage, error) {
		_ = c.SetReadDeadline(time.Now().Add(5 * time.Second))
		hdr := make([]byte, bgp.BGP_HEADER_LENGTH)
		if _, err := io.ReadFull(c, hdr); err != nil {
			return nil, err
		}
		bh := &bgp.BGPHeader{}
		if err := bh.DecodeFromBytes(hdr); err != nil {
			return nil, err
		}
		body := make([]byte, int(bh.Len)-bgp.BGP_HEADER_LENGTH)
		if _, err := io.ReadFull(c, body); err != nil {
			return nil, err
		}
		return bgp.ParseBGPBody(bh, body)
	}
	if m, err := readMsg(in); err != nil || m.Header.Type != bgp.BGP_MSG_OPEN {
		t.Fatalf("expected the speaker's OPEN on the incoming connection: %v %v", m, err)
	}
	badOpen, _ := bgp.NewBGPOpenMessage(65099, 90, netip.MustParseAddr("2.2.2.2"), []bgp.OptionParameterInterface{
		bgp.NewOptionParameterCapability([]bgp.ParameterCapabilityInterface{bgp.NewCapFourOctetASNumber(65099)}),
	})
	b, _ := badOpen.Serialize()
	if _, err := in.Write(b); err != nil {
		t.Fatal(err)
	}
	if m, err := readMsg(in); err != nil || m.Header.Type != bgp.BGP_MSG_NOTIFICATION {
		t.Fatalf("expected a NOTIFICATION for the bad peer AS: %v %v", m, err)
	}
	waitState(api.PeerState_SESSION_STATE_IDLE)

	// the operator disables the neighbour while it is Idle (the idle hold
	// time is 5 seconds, so it has not left Idle on its own)
	if err := s.DisablePeer(context.Background(), &api.DisablePeerRequest{Address: "127.0.0.1"}); err != nil {
		t.Fatal(err)
	}
	deadline := time.Now().Add(3 * time.Second)
	for {
		ss, as := peerState()
		if ss == api.PeerState_SESSION_STATE_IDLE && as == api.PeerState_ADMIN_STATE_DOWN {
			break
		}
		if time.Now().After(deadline) {
			t.Fatalf("after DisablePeer: session state %s admin state %s, want idle / down", ss, as)
		}
		time.Sleep(20 * time.Millisecond)
	}

	// from now on the disabled neighbour must leave the peer alone. The peer
	// opens its listening port and watches it for a few connect-retry rounds.
	l, err := net.Listen("tcp4", net.JoinHostPort("127.0.0.1", strconv.Itoa(pPort)))
	if err != nil {
		t.Fatal(err)
	}
	defer l.Close()
	_ = l.(*net.TCPListener).SetDeadline(time.Now().Add(7 * time.Second))
	c, err := l.Accept()
	if err != nil {
		// nobody connected: that is the correct behaviour
		ss, as := peerState()
		t.Logf("no connection from the disabled neighbour (state %s / %s)", ss, as)
		return
	}
	defer c.Close()
	ss, as := peerState()
	m, err := readMsg(c)
	if err == nil && m.Header.Type == bgp.BGP_MSG_OPEN {
		t.Fatalf("the neighbour is reported %s / %s, yet it connected to the peer and sent an OPEN (AS %d, id %s)",
			ss, as, m.Body.(*bgp.BGPOpen).MyAS, m.Body.(*bgp.BGPOpen).ID)
	}
	t.Fatalf("the neighbour is reported %s / %s, yet it opened a TCP connection to the peer (then: %v %v)", ss, as, m, err)
}
