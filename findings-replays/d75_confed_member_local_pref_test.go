package server

import (
	"context"
	"net/netip"
	"testing"
	"time"

	"github.com/osrg/gobgp/v4/api"
	"github.com/osrg/gobgp/v4/internal/pkg/table"
	"github.com/osrg/gobgp/v4/pkg/config/oc"
	"github.com/osrg/gobgp/v4/pkg/packet/bgp"
)

// C03: a route received from a confederation member (RFC 5065: to be treated
// by route selection like a route received inside the AS, LOCAL_PREF included)
// carries LOCAL_PREF 200, a route for the same prefix received over iBGP carries
// LOCAL_PREF 150. The documented decision process (highest LOCAL_PREF before
// everything but LLGR_STALE and next-hop reachability) prefers the former.
func TestD75ConfedMemberLocalPref(t *testing.T) {
	ctx := context.Background()
	s := NewBgpServer()
	go s.Serve()

	if err := s.StartBgp(ctx, &api.StartBgpRequest{
		Global: &api.Global{
			Asn:        65001, // our member AS
			RouterId:   "1.1.1.1",
			ListenPort: -1,
			Confederation: &api.Confederation{
				Enabled:      true,
				Identifier:   100,
				MemberAsList: []uint32{65002},
			},
		},
	}); err != nil {
		t.Fatal(err)
	}
	defer s.StopBgp(ctx, &api.StopBgpRequest{}) //nolint:errcheck

	gConf := &s.bgpConfig.Global
	mkPeer := func(address string, as uint32) *peer {
		addr := netip.MustParseAddr(address)
		nConf := &oc.Neighbor{
			Config: oc.NeighborConfig{PeerAs: as, NeighborAddress: addr},
			State:  oc.NeighborState{PeerAs: as, NeighborAddress: addr, RemoteRouterId: addr},
		}
		if err := oc.SetDefaultNeighborConfigValues(nConf, nil, gConf); err != nil {
			t.Fatal(err)
		}
		p := newPeer(gConf, nConf, bgp.BGP_FSM_ESTABLISHED, s.globalRib, s.policy, logger)
		p.fsm.familyMap.Store(map[bgp.Family]bgp.BGPAddPathMode{bgp.RF_IPv4_UC: bgp.BGP_ADD_PATH_NONE})
		// as handleFSMMessage does when the session reaches ESTABLISHED
		p.peerInfo.Store(table.NewPeerInfo(gConf, nConf, as, nConf.Config.LocalAs, addr, gConf.Config.RouterId, addr, netip.MustParseAddr("10.0.0.1")))
		return p
	}

	confedPeer := mkPeer("10.0.0.2", 65002) // other member AS of our confederation
	ibgpPeer := mkPeer("10.0.0.3", 65001)   // our own member AS

	if !confedPeer.peerInfo.Load().Confederation {
		t.Fatal("test setup: 65002 is not taken for a confederation member")
	}
	if !ibgpPeer.isIBGPPeer() {
		t.Fatal("test setup: 65001 is not taken for an iBGP peer")
	}

	nlri, _ := bgp.NewIPAddrPrefix(netip.MustParsePrefix("192.0.2.0/24"))
	mkPath := func(src *peer, aspath []bgp.AsPathParamInterface, localPref uint32) *table.Path {
		nh, _ := bgp.NewPathAttributeNextHop(src.peerInfo.Load().Address)
		msg := bgp.NewBGPUpdateMessage(nil, []bgp.PathAttributeInterface{
			bgp.NewPathAttributeOrigin(bgp.BGP_ORIGIN_ATTR_TYPE_IGP),
			bgp.NewPathAttributeAsPath(aspath),
			nh,
			bgp.NewPathAttributeLocalPref(localPref),
		}, []bgp.PathNLRI{{NLRI: nlri}})
		// the paths of a received UPDATE, as peer.handleUpdate makes them
		l := table.ProcessMessage(msg, src.peerInfo.Load(), time.Now(), false)
		if len(l) != 1 {
			t.Fatalf("ProcessMessage: %d paths", len(l))
		}
		return l[0]
	}

	// both AS_PATHs have length 0 (AS_CONFED_SEQUENCE does not count), same
	// ORIGIN, no MED: nothing but LOCAL_PREF tells the two routes apart before
	// the eBGP/iBGP step, which sees both as internal.
	fromConfed := mkPath(confedPeer, []bgp.AsPathParamInterface{
		bgp.NewAs4PathParam(bgp.BGP_ASPATH_ATTR_TYPE_CONFED_SEQ, []uint32{65002}),
	}, 200)
	fromIBGP := mkPath(ibgpPeer, []bgp.AsPathParamInterface{}, 150)

	for _, order := range [][2]int{{0, 1}, {1, 0}} {
		paths := []*table.Path{fromConfed, fromIBGP}
		peers := []*peer{confedPeer, ibgpPeer}
		for _, i := range order {
			s.propagateUpdate(peers[i], []*table.Path{paths[i]})
		}

		best := s.globalRib.GetBestPathList(table.GLOBAL_RIB_NAME, 0, []bgp.Family{bgp.RF_IPv4_UC})
		if len(best) != 1 {
			t.Fatalf("order %v: %d best paths", order, len(best))
		}
		lp, _ := best[0].GetLocalPref()
		if got := best[0].GetSource().Address; got != confedPeer.peerInfo.Load().Address {
			for _, p := range s.globalRib.GetPathList(table.GLOBAL_RIB_NAME, 0, []bgp.Family{bgp.RF_IPv4_UC}) {
				l, _ := p.GetLocalPref()
				t.Logf("candidate from %s: LOCAL_PREF used by route selection %d", p.GetSource().Address, l)
			}
			t.Errorf("order %v: best path is from %s (LOCAL_PREF %d); the confederation member's route was received with LOCAL_PREF 200 and must win over the iBGP route with LOCAL_PREF 150", order, got, lp)
		}
	}
}
