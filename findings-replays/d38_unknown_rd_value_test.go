package bgp

import (
	"bytes"
	"net/netip"
	"testing"
)

// C04: a Route Distinguisher whose type is not 0, 1 or 2 is carried as
// RouteDistinguisherUnknown; its six value octets must survive decode/encode.
func TestD38UnknownRDValue(t *testing.T) {
	// (1) bytes the parser accepts, VPNv4: label 100, RD type 5 value 01..06, 10.0.0.0/24
	in := []byte{
		24 + 64 + 24,     // bit length: label + RD + prefix
		0x00, 0x06, 0x41, // label 100, bottom of stack
		0x00, 0x05, 1, 2, 3, 4, 5, 6, // RD
		10, 0, 0,
	}
	n, err := NLRIFromSlice(RF_IPv4_VPN, in)
	if err != nil {
		t.Fatalf("parser rejected the input: %v", err)
	}
	if n.Len() != len(in) {
		t.Fatalf("consumed %d of %d octets", n.Len(), len(in))
	}
	out, err := n.Serialize()
	if err != nil {
		t.Fatal(err)
	}
	if !bytes.Equal(in, out) {
		t.Errorf("decode/encode changed the NLRI:\n in  % x\n out % x", in, out)
	}

	// two distinct routes must not collapse into the same key
	in2 := bytes.Clone(in)
	in2[11] = 7 // RD type 5 value 01 02 03 04 05 07
	n2, err := NLRIFromSlice(RF_IPv4_VPN, in2)
	if err != nil {
		t.Fatal(err)
	}
	if n.String() == n2.String() {
		t.Errorf("two different RDs decode to the same NLRI %q", n.String())
	}

	// (2) constructed message: encode then decode must give back an equal RD
	rd := &RouteDistinguisherUnknown{
		DefaultRouteDistinguisher: DefaultRouteDistinguisher{Type: 5},
		Value:                     []byte{1, 2, 3, 4, 5, 6},
	}
	c, err := NewLabeledVPNIPAddrPrefix(netip.MustParsePrefix("10.0.0.0/24"), *NewMPLSLabelStack(100), rd)
	if err != nil {
		t.Fatal(err)
	}
	wire, err := c.Serialize()
	if err != nil {
		t.Fatal(err)
	}
	d, err := NLRIFromSlice(RF_IPv4_VPN, wire)
	if err != nil {
		t.Fatal(err)
	}
	got, ok := d.(*LabeledVPNIPAddrPrefix).RD.(*RouteDistinguisherUnknown)
	if !ok {
		t.Fatalf("decoded RD has type %T", d.(*LabeledVPNIPAddrPrefix).RD)
	}
	if got.Type != rd.Type || !bytes.Equal(got.Value, rd.Value) {
		t.Errorf("RD round trip: got type %d value % x, want type %d value % x", got.Type, got.Value, rd.Type, rd.Value)
	}
}
