package bgp

import (
	"net/netip"
	"testing"
)

// PathAttribute.Len() is what the UPDATE packers use to decide how many NLRI
// still fit into a 4096 octet message. For a Tunnel Encapsulation attribute
// built with the library's constructors it is too small:
// NewPathAttributeTunnelEncap adds up TunnelEncapSubTLV.Len(), which is
// header + the stored Length field, and the constructors of the Encapsulation,
// Protocol, Color, Egress Endpoint, UDP Destination Port and unknown sub-TLVs
// leave that field 0 (it is only filled in as a side effect of Serialize, and
// the attribute's own Length is never updated).
func TestD59TunnelEncapSubTlvLen(t *testing.T) {
	egress, err := NewTunnelEncapSubTLVEgressEndpoint(netip.MustParseAddr("2001:db8::1"))
	if err != nil {
		t.Fatal(err)
	}
	cases := map[string]TunnelEncapSubTLVInterface{
		"encapsulation":  NewTunnelEncapSubTLVEncapsulation(100, []byte{1, 2, 3, 4, 5, 6, 7, 8}),
		"protocol":       NewTunnelEncapSubTLVProtocol(0x0800),
		"color":          NewTunnelEncapSubTLVColor(100),
		"egress":         egress,
		"udp-dest-port":  NewTunnelEncapSubTLVUDPDestPort(4789),
		"unknown(200)":   NewTunnelEncapSubTLVUnknown(200, []byte{1, 2, 3, 4, 5, 6, 7, 8, 9, 10}),
		"sr-preference*": NewTunnelEncapSubTLVSRPreference(0, 10), // control: this constructor sets Length
	}
	for name, sub := range cases {
		t.Run(name, func(t *testing.T) {
			attr := NewPathAttributeTunnelEncap([]*TunnelEncapTLV{
				NewTunnelEncapTLV(TUNNEL_TYPE_VXLAN, []TunnelEncapSubTLVInterface{sub}),
			})
			reported := attr.Len()
			wire, err := attr.Serialize()
			if err != nil {
				t.Fatal(err)
			}
			if reported != len(wire) {
				t.Errorf("attribute reports Len() = %d octets, Serialize() emits %d", reported, len(wire))
			}
			// what a receiver decodes reports the real size
			decoded := &PathAttributeTunnelEncap{}
			if err := decoded.DecodeFromBytes(wire); err != nil {
				t.Fatal(err)
			}
			if decoded.Len() != len(wire) {
				t.Errorf("decoded attribute reports %d for %d octets", decoded.Len(), len(wire))
			}
			if decoded.Len() != attr.Len() {
				t.Errorf("the same attribute reports %d octets when constructed and %d when parsed", attr.Len(), decoded.Len())
			}
		})
	}
}
