package server

import (
	"log/slog"
	"net/netip"
	"os"
	"testing"
	"time"

	"github.com/osrg/gobgp/v4/internal/pkg/table"
	"github.com/osrg/gobgp/v4/pkg/packet/bgp"
	"github.com/osrg/gobgp/v4/pkg/packet/rtr"
)

// A cache goes away and comes back before the record lifetime is over. The
// lifetime timer fires while the server loop has not yet handled the
// End-of-Data PDU of the reload (the timer goroutine is already queued on the
// event channel, so timer.Stop() in the End-of-Data handler comes too late).
// The queued roaLifetimeout event is then handled AFTER End-of-Data; the
// session id is unchanged, so it is not recognised as obsolete and wipes the
// table that has just been reloaded. The cache is up, has announced the
// record and never withdrew it, yet the ROA table stays empty.
func TestD104LifetimeTimeoutAfterEndOfData(t *testing.T) {
	logger := slog.New(slog.NewTextHandler(os.Stderr, &slog.HandlerOptions{Level: slog.LevelError}))
	tbl := table.NewROATable(logger)
	m := newROAManager(tbl, logger)

	const host = "127.0.0.1:1" // nothing listens there; the PDUs are fed in below
	if err := m.AddServer(host, 1 /* record lifetime: 1 second */); err != nil {
		t.Fatal(err)
	}

	feed := func(msg rtr.RTRMessage) {
		data, err := msg.Serialize()
		if err != nil {
			t.Fatal(err)
		}
		m.HandleROAEvent(&roaEvent{EventType: roaRTR, Src: host, Data: data})
	}
	count := func() int {
		l, _ := tbl.List(bgp.RF_IPv4_UC)
		return len(l)
	}
	prefix := rtr.NewRTRIPPrefix(netip.MustParseAddr("10.0.0.0"), 8, 24, 65001, rtr.ANNOUNCEMENT)

	// initial load, session 7 serial 1
	feed(rtr.NewRTRCacheResponse(7))
	feed(prefix)
	feed(rtr.NewRTREndOfData(7, 1))
	if count() != 1 {
		t.Fatalf("initial load: %d records", count())
	}

	// the connection is lost: the lifetime timer (1s) is armed
	m.HandleROAEvent(&roaEvent{EventType: roaDisconnected, Src: host})

	// the cache is back (same session) and sends its data again
	feed(rtr.NewRTRCacheResponse(7))
	feed(prefix)

	// the lifetime timer fires now; its goroutine is waiting to hand the
	// roaLifetimeout event to the server loop
	time.Sleep(1500 * time.Millisecond)

	// the server loop handles End-of-Data first (it was queued first) ...
	feed(rtr.NewRTREndOfData(7, 1))
	if count() != 1 {
		t.Fatalf("after reload: %d records", count())
	}

	// ... and then the event the timer goroutine has been waiting to deliver
	select {
	case ev := <-m.ReceiveROA():
		if ev.EventType != roaLifetimeout {
			t.Fatalf("unexpected event %v", ev.EventType)
		}
		m.HandleROAEvent(ev)
	case <-time.After(5 * time.Second):
		t.Fatal("no lifetime event")
	}

	if n := count(); n != 1 {
		t.Fatalf("the cache is up, session unchanged, 10.0.0.0/8-24 AS65001 announced and not withdrawn, but the ROA table holds %d records", n)
	}
}
