package server

import (
	"fmt"
	"io"
	"log/slog"
	"net"
	"net/netip"
	"sort"
	"strings"
	"testing"
	"time"

	"github.com/osrg/gobgp/v4/internal/pkg/table"
	"github.com/osrg/gobgp/v4/pkg/packet/bgp"
	"github.com/osrg/gobgp/v4/pkg/packet/rtr"
)

// Every roaDisconnected event arms a new "lifetime" timer and stores it in
// client.timer WITHOUT stopping the one that is already there.  End-of-Data
// only stops the timer that is currently stored.  If the transport flaps twice
// before an End-of-Data arrives, the first timer is leaked; it fires later,
// while the session is up and fully synchronised, and because the session id
// did not change the handler wipes every ROA of that cache.  From then on the
// ROA table is empty although the connected cache announces records.
func TestD42RoaTimerLeak(t *testing.T) {
	lg := slog.Default()
	ser := func(m rtr.RTRMessage) []byte { b, _ := m.Serialize(); return b }
	const sid = 42
	roaA := ser(rtr.NewRTRIPPrefix(netip.MustParseAddr("10.1.0.0"), 16, 16, 65001, rtr.ANNOUNCEMENT))

	ln, err := net.Listen("tcp", "127.0.0.1:0")
	if err != nil {
		t.Fatal(err)
	}
	defer ln.Close()
	step := make(chan struct{})
	cacheErr := make(chan error, 1)
	serveFull := func(c net.Conn, serial uint32) error {
		q := make([]byte, rtr.RTR_RESET_QUERY_LEN)
		if _, err := io.ReadFull(c, q); err != nil {
			return err
		}
		if q[1] != rtr.RTR_RESET_QUERY {
			return fmt.Errorf("expected a Reset Query, got pdu type %d", q[1])
		}
		c.Write(ser(rtr.NewRTRCacheResponse(sid)))
		c.Write(roaA)
		c.Write(ser(rtr.NewRTREndOfData(sid, serial)))
		return nil
	}
	go func() {
		cacheErr <- func() error {
			// connection 1: full load {A}
			c1, err := ln.Accept()
			if err != nil {
				return err
			}
			if err := serveFull(c1, 1); err != nil {
				return err
			}
			<-step
			// flap #1
			c1.Close()
			// connection 2: dies before any End-of-Data (flap #2)
			c2, err := ln.Accept()
			if err != nil {
				return err
			}
			c2.Close()
			// connection 3: full load {A} again, then the session stays up
			c3, err := ln.Accept()
			if err != nil {
				return err
			}
			if err := serveFull(c3, 1); err != nil {
				return err
			}
			<-step
			c3.Close()
			return nil
		}()
	}()

	host := ln.Addr().String()
	m := newROAManager(table.NewROATable(lg), lg)
	if err := m.AddServer(host, 1 /* lifetime: one second */); err != nil {
		t.Fatal(err)
	}
	client := m.clientMap[host]

	eods, disconnects, timeouts := 0, 0, 0
	handle := func(ev *roaEvent) {
		switch {
		case ev.EventType == roaRTR && len(ev.Data) > 1 && ev.Data[1] == rtr.RTR_END_OF_DATA:
			eods++
		case ev.EventType == roaDisconnected:
			disconnects++
		case ev.EventType == roaLifetimeout:
			timeouts++
		}
		m.HandleROAEvent(ev) // exactly what BgpServer.Serve does
	}
	pumpUntilEOD := func(n int) {
		t.Helper()
		to := time.After(10 * time.Second)
		for eods < n {
			select {
			case ev := <-m.ReceiveROA():
				handle(ev)
			case err := <-cacheErr:
				t.Fatalf("cache script ended early: %v", err)
			case <-to:
				t.Fatalf("timed out waiting for End-of-Data #%d", n)
			}
		}
	}
	dump := func() string {
		l, _ := m.table.List(bgp.Family(0))
		s := make([]string, 0, len(l))
		for _, r := range l {
			s = append(s, fmt.Sprintf("%s-%d AS%d", r.Network, r.MaxLen, r.AS))
		}
		sort.Strings(s)
		return strings.Join(s, ", ")
	}
	const want = "10.1.0.0/16-16 AS65001"

	pumpUntilEOD(1)
	if got := dump(); got != want {
		t.Fatalf("after the initial load: ROA table = [%s], want [%s]", got, want)
	}
	step <- struct{}{}

	start := time.Now()
	pumpUntilEOD(2)
	if disconnects != 2 {
		t.Fatalf("test set-up: expected two disconnects before the second End-of-Data, saw %d", disconnects)
	}
	if time.Since(start) > 700*time.Millisecond {
		t.Skipf("host too slow for this timing-based scenario")
	}
	if got := dump(); got != want {
		t.Fatalf("after re-synchronisation: ROA table = [%s], want [%s]", got, want)
	}
	if client.conn == nil || !client.endOfData {
		t.Fatalf("test set-up: session should be up and synchronised")
	}

	// the session is now up and in sync; nothing else arrives from the cache.
	// Keep serving events for a bit more than the lifetime.
	to := time.After(2500 * time.Millisecond)
loop:
	for {
		select {
		case ev := <-m.ReceiveROA():
			handle(ev)
		case <-to:
			break loop
		}
	}
	if disconnects != 2 || client.conn == nil {
		t.Fatalf("test set-up: the session was supposed to stay up")
	}
	if got := dump(); got != want {
		t.Errorf("session up and synchronised (%d End-of-Data, %d lifetime events handled): ROA table = [%s], want [%s]", eods, timeouts, got, want)
	}

	go func() {
		for range m.ReceiveROA() {
		}
	}()
	m.DeleteServer(host)
	close(step)
}
