package server

import (
	"context"
	"io"
	"log/slog"
	"net/netip"
	"os"
	"path/filepath"
	"testing"

	"github.com/osrg/gobgp/v4/api"
	"github.com/osrg/gobgp/v4/pkg/config/oc"
	"github.com/osrg/gobgp/v4/pkg/packet/bgp"
)

// The configuration file gives a peer group ADD-PATH (receive, send-max 2)
// for its IPv4 unicast family; the neighbour is a plain member of the group.
// The configuration is applied the way gobgpd applies it (pkg/config
// addPeerGroups / addNeighbors: the structures read from the file go through
// oc.NewPeerGroupFromConfigStruct / oc.NewPeerFromConfigStruct into
// AddPeerGroup / AddPeer). The OPEN built for the member has to carry the
// ADD-PATH capability for IPv4 unicast.
func TestD117PeerGroupFamilyAddPath(t *testing.T) {
	conf := `
[global.config]
  as = 65000
  router-id = "1.1.1.1"
  port = -1

[[peer-groups]]
  [peer-groups.config]
    peer-group-name = "pg"
    peer-as = 65001
  [[peer-groups.afi-safis]]
    [peer-groups.afi-safis.config]
      afi-safi-name = "ipv4-unicast"
    [peer-groups.afi-safis.add-paths.config]
      receive = true
      send-max = 2

[[neighbors]]
  [neighbors.config]
    neighbor-address = "10.0.0.2"
    peer-group = "pg"
  [neighbors.transport.config]
    passive-mode = true
`
	path := filepath.Join(t.TempDir(), "gobgpd.toml")
	if err := os.WriteFile(path, []byte(conf), 0o600); err != nil {
		t.Fatal(err)
	}
	c, err := oc.ReadConfigfile(path, "toml")
	if err != nil {
		t.Fatal(err)
	}
	if a := c.PeerGroups[0].AfiSafis[0].AddPaths.Config; !a.Receive || a.SendMax != 2 {
		t.Fatalf("the file was not read as intended: %+v", a)
	}

	ctx := context.Background()
	s := NewBgpServer(LoggerOption(slog.New(slog.NewTextHandler(io.Discard, nil)), &slog.LevelVar{}))
	go s.Serve()
	if err := s.StartBgp(ctx, &api.StartBgpRequest{Global: oc.NewGlobalFromConfigStruct(&c.Global)}); err != nil {
		t.Fatal(err)
	}
	defer s.StopBgp(ctx, &api.StopBgpRequest{}) //nolint:errcheck
	for _, pg := range c.PeerGroups {
		if err := s.AddPeerGroup(ctx, &api.AddPeerGroupRequest{PeerGroup: oc.NewPeerGroupFromConfigStruct(&pg)}); err != nil {
			t.Fatal(err)
		}
	}
	for _, n := range c.Neighbors {
		if err := s.AddPeer(ctx, &api.AddPeerRequest{Peer: oc.NewPeerFromConfigStruct(&n)}); err != nil {
			t.Fatal(err)
		}
	}

	var open *bgp.BGPMessage
	var afs []oc.AfiSafi
	err = s.mgmtOperation(func() error {
		p := s.neighborMap[netip.MustParseAddr("10.0.0.2")]
		p.fsm.lock.Lock()
		defer p.fsm.lock.Unlock()
		pc := p.fsm.pConf.ReadCopy()
		afs = pc.AfiSafis
		open = buildopen(p.fsm.gConf, &pc)
		return nil
	}, false)
	if err != nil {
		t.Fatal(err)
	}
	for _, p := range open.Body.(*bgp.BGPOpen).OptParams {
		for _, cp := range p.(*bgp.OptionParameterCapability).Capability {
			if ap, ok := cp.(*bgp.CapAddPath); ok {
				for _, tu := range ap.Tuples {
					if tu.Family == bgp.RF_IPv4_UC && tu.Mode == bgp.BGP_ADD_PATH_BOTH {
						return
					}
				}
				t.Fatalf("ADD-PATH capability announced with %v", ap.Tuples)
			}
		}
	}
	t.Fatalf("the peer group configures ADD-PATH receive / send-max 2 for ipv4-unicast, the OPEN for its member carries no ADD-PATH capability (member add-paths: config %+v state %+v)",
		afs[0].AddPaths.Config, afs[0].AddPaths.State)
}
