package server

import (
	"context"
	"net/netip"
	"testing"
	"time"

	"github.com/osrg/gobgp/v4/api"
	"github.com/osrg/gobgp/v4/internal/pkg/table"
	"github.com/osrg/gobgp/v4/pkg/config/oc"
	"github.com/osrg/gobgp/v4/pkg/packet/bgp"
)

// The local router is a route reflector (cluster-id 1.1.1.1, the default
// taken from the router-id). One of its clients sends a route whose
// CLUSTER_LIST already contains 1.1.1.1, i.e. the route has already been
// reflected by this cluster and looped back. The route must not be used, but
// it is selected as best and exported to an eBGP peer.
func TestD37ClusterListReceive(t *testing.T) {
	const localAS = 65000

	s := NewBgpServer()
	go s.Serve()
	defer s.Stop()
	if err := s.StartBgp(context.Background(), &api.StartBgpRequest{Global: &api.Global{
		Asn: localAS, RouterId: "1.1.1.1", ListenPort: -1,
	}}); err != nil {
		t.Fatal(err)
	}

	mkPeer := func(address string, as uint32, rrClient bool) *peer {
		addr := netip.MustParseAddr(address)
		nConf := &oc.Neighbor{
			Config:         oc.NeighborConfig{PeerAs: as, NeighborAddress: addr},
			State:          oc.NeighborState{PeerAs: as, NeighborAddress: addr, RemoteRouterId: addr},
			RouteReflector: oc.RouteReflector{Config: oc.RouteReflectorConfig{RouteReflectorClient: rrClient}},
		}
		if err := oc.SetDefaultNeighborConfigValues(nConf, nil, &s.bgpConfig.Global); err != nil {
			t.Fatal(err)
		}
		p := newPeer(&s.bgpConfig.Global, nConf, bgp.BGP_FSM_ESTABLISHED, s.globalRib, s.policy, logger)
		p.fsm.familyMap.Store(map[bgp.Family]bgp.BGPAddPathMode{bgp.RF_IPv4_UC: bgp.BGP_ADD_PATH_NONE})
		p.peerInfo.Store(table.NewPeerInfo(&s.bgpConfig.Global, nConf, as, localAS, addr,
			netip.MustParseAddr("1.1.1.1"), addr, netip.MustParseAddr("192.168.0.254")))
		return p
	}
	client := mkPeer("192.168.0.1", localAS, true)
	ebgp := mkPeer("192.168.0.2", 65001, false)

	clusterID := client.fsm.pConf.ReadOnly().RouteReflector.State.RouteReflectorClusterId
	if clusterID != netip.MustParseAddr("1.1.1.1") {
		t.Fatalf("setup: unexpected local cluster-id %s", clusterID)
	}

	nlri, _ := bgp.NewIPAddrPrefix(netip.MustParsePrefix("10.10.10.0/24"))
	nh, _ := bgp.NewPathAttributeNextHop(netip.MustParseAddr("192.168.0.7"))
	oid, _ := bgp.NewPathAttributeOriginatorId(netip.MustParseAddr("192.168.0.7"))
	cl, _ := bgp.NewPathAttributeClusterList([]netip.Addr{netip.MustParseAddr("2.2.2.2"), clusterID})
	attrs := []bgp.PathAttributeInterface{
		bgp.NewPathAttributeOrigin(0),
		bgp.NewPathAttributeAsPath([]bgp.AsPathParamInterface{}),
		nh,
		bgp.NewPathAttributeLocalPref(100),
		oid,
		cl,
	}
	e := &fsmMsg{
		MsgType:   fsmMsgBGPMessage,
		MsgData:   bgp.NewBGPUpdateMessage(nil, attrs, []bgp.PathNLRI{{NLRI: nlri}}),
		timestamp: time.Now(),
	}

	var accepted []*table.Path
	if err := s.mgmtOperation(func() error {
		accepted, _, _ = client.handleUpdate(e)
		if len(accepted) > 0 {
			s.propagateUpdate(client, accepted)
		}
		return nil
	}, false); err != nil {
		t.Fatal(err)
	}

	best := s.globalRib.GetBestPathList(table.GLOBAL_RIB_NAME, 0, []bgp.Family{bgp.RF_IPv4_UC})
	if len(best) != 0 {
		out := s.filterpath(ebgp, best[0], nil)
		t.Fatalf("route %s with CLUSTER_LIST %v (local cluster-id %s) received from RR client %s was not ignored: "+
			"it is the best path in the Loc-RIB; export to eBGP peer %s yields %v",
			best[0].GetPrefix(), best[0].GetClusterList(), clusterID, client.ID(), ebgp.ID(), out)
	}
}
