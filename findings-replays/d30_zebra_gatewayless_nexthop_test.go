package server

import (
	"io"
	"log/slog"
	"net"
	"testing"

	"github.com/osrg/gobgp/v4/pkg/zebra"
)

// A ZAPI v4 (FRR3, also v2/v3 Quagga) REDISTRIBUTE_IPV4_ADD whose message
// flags carry IFINDEX but not NEXTHOP is accepted by the zapi decoder
// (IPRouteBody.decodeFromBytes): it appends a Nexthop{Type: IFIndex,
// Ifindex: n} whose Gate is the zero netip.Addr. The zebra client loop hands
// every decoded IPRouteBody to newPathFromIPRouteMessage, which does
// netip.MustParseAddr(body.Nexthops[0].Gate.String()) == MustParseAddr("invalid IP")
// and panics, taking the whole daemon down on bytes read from the zebra socket.
// (The ZAPI v5 path has the same hole: EVPN_ROUTE flag set and no NEXTHOP
// flag appends a zero-Gate nexthop as well.)
func TestD30ZebraGatewaylessNexthop(t *testing.T) {
	logger := slog.New(slog.NewTextHandler(io.Discard, nil))
	const version = 4
	software := zebra.NewSoftware(version, "")

	body := []byte{
		2,    // type: ZEBRA_ROUTE_CONNECT
		0, 0, // instance
		0, 0, 0, 0, // flags
		0x02,     // message: ZAPI_MESSAGE_IFINDEX only (no ZAPI_MESSAGE_NEXTHOP)
		24,       // prefix length
		10, 0, 0, // prefix 10.0.0.0/24
		1,          // number of ifindexes
		0, 0, 0, 3, // ifindex 3
	}
	hdr := []byte{
		0, 0, // length, filled in below
		254,     // FRR header marker
		version, // ZAPI version
		0, 0,    // vrf id
		0, 32, // command: ZEBRA_REDISTRIBUTE_IPV4_ADD (zapi4)
	}
	l := len(hdr) + len(body)
	hdr[0], hdr[1] = byte(l>>8), byte(l)

	// decode with the real receive path used by zebra.Client
	c1, c2 := net.Pipe()
	go func() {
		_, _ = c1.Write(append(hdr, body...))
		c1.Close()
	}()
	m, err := zebra.ReceiveSingleMsg(logger, c2, version, software, "test")
	if err != nil || m == nil {
		t.Fatalf("the zapi decoder did not accept the message: msg=%v err=%v", m, err)
	}
	if _, ok := m.Body.(*zebra.IPRouteBody); !ok {
		t.Fatalf("unexpected body type %T", m.Body)
	}

	// what zebraClient.loop does with every *zebra.IPRouteBody it receives
	defer func() {
		if r := recover(); r != nil {
			t.Fatalf("newPathFromIPRouteMessage panicked on a message the zapi decoder accepted: %v", r)
		}
	}()
	path := newPathFromIPRouteMessage(logger, m, version, software)
	if path != nil && !path.GetNexthop().IsValid() {
		t.Fatalf("path created with an invalid nexthop: %v", path)
	}
}
