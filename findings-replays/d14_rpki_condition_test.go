package table

import (
	"log/slog"
	"net/netip"
	"testing"
	"time"

	"github.com/osrg/gobgp/v4/pkg/config/oc"
	"github.com/osrg/gobgp/v4/pkg/packet/bgp"
)

// A routing policy whose statement carries an RPKI validation-result condition
// is applied (exactly the way pkg/server does it: PolicyOptions.Validate =
// ROATable.Validate) to a route of an address family that has no ROA tree
// (here VPNv4; the same holds for EVPN, labelled unicast, flowspec, ...).
// ROATable.Validate returns nil for such a path and
// RpkiValidationCondition.Evaluate dereferences the nil *Validation.
func TestD14RpkiConditionOtherFamily(t *testing.T) {
	lg := slog.Default()

	// policy: "if rpki validation result is invalid then reject", default accept
	rp := &oc.RoutingPolicy{
		PolicyDefinitions: []oc.PolicyDefinition{{
			Name: "rpki-pol",
			Statements: []oc.Statement{{
				Name: "drop-invalid",
				Conditions: oc.Conditions{
					BgpConditions: oc.BgpConditions{
						RpkiValidationResult: oc.RPKI_VALIDATION_RESULT_TYPE_INVALID,
					},
				},
				Actions: oc.Actions{RouteDisposition: oc.ROUTE_DISPOSITION_REJECT_ROUTE},
			}},
		}},
	}
	r := NewRoutingPolicy(lg)
	if err := r.Reset(rp, map[string]oc.ApplyPolicy{
		GLOBAL_RIB_NAME: {Config: oc.ApplyPolicyConfig{
			ImportPolicyList:    []string{"rpki-pol"},
			DefaultImportPolicy: oc.DEFAULT_POLICY_TYPE_ACCEPT_ROUTE,
		}},
	}); err != nil {
		t.Fatal(err)
	}

	rt := NewROATable(lg)
	rt.Add(NewROA(bgp.AFI_IP, netip.MustParseAddr("10.0.0.0").AsSlice(), 8, 24, 65001, "192.0.2.1:323"))
	opts := &PolicyOptions{Validate: rt.Validate}

	peer := &PeerInfo{AS: 65001, LocalAS: 65000, Address: netip.MustParseAddr("10.0.0.1")}
	attrs := func() []bgp.PathAttributeInterface {
		return []bgp.PathAttributeInterface{
			bgp.NewPathAttributeOrigin(0),
			bgp.NewPathAttributeAsPath([]bgp.AsPathParamInterface{bgp.NewAs4PathParam(bgp.BGP_ASPATH_ATTR_TYPE_SEQ, []uint32{65001})}),
		}
	}

	// sanity: a plain IPv4 route goes through the very same policy fine
	v4nlri, _ := bgp.NewIPAddrPrefix(netip.MustParsePrefix("10.1.0.0/16"))
	v4 := NewPath(bgp.RF_IPv4_UC, peer, bgp.PathNLRI{NLRI: v4nlri}, false, attrs(), time.Now(), false)
	if got := r.ApplyPolicy(GLOBAL_RIB_NAME, POLICY_DIRECTION_IMPORT, v4, opts); got == nil {
		t.Fatalf("valid IPv4 route was rejected")
	}

	// the VPNv4 route: no RPKI verdict exists for it, so the "invalid"
	// condition must simply not match and the route must be accepted.
	rd := bgp.NewRouteDistinguisherTwoOctetAS(65000, 1)
	vpnNlri, err := bgp.NewLabeledVPNIPAddrPrefix(netip.MustParsePrefix("10.1.0.0/16"), *bgp.NewMPLSLabelStack(100), rd)
	if err != nil {
		t.Fatal(err)
	}
	vpn := NewPath(bgp.RF_IPv4_VPN, peer, bgp.PathNLRI{NLRI: vpnNlri}, false, attrs(), time.Now(), false)

	var got *Path
	func() {
		defer func() {
			if e := recover(); e != nil {
				t.Fatalf("applying a policy with an rpki condition to a %s route panicked: %v", vpn.GetFamily(), e)
			}
		}()
		got = r.ApplyPolicy(GLOBAL_RIB_NAME, POLICY_DIRECTION_IMPORT, vpn, opts)
	}()
	if got == nil {
		t.Fatalf("VPNv4 route rejected by an rpki 'invalid' condition although it has no validation state")
	}
}
