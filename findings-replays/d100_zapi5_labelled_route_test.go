package zebra

import (
	"net/netip"
	"reflect"
	"syscall"
	"testing"
)

// A labelled route (what zclient builds for a VPN path leaked between VRFs)
// on ZAPI 5: Client.SetLabelFlag marks it with MessageLabel. The serialised
// ROUTE_ADD must parse back to the same next hops, labels and metric.
func TestD100Zapi5LabelledRoute(t *testing.T) {
	const version = 5
	for _, name := range []string{"frr4", "frr5"} {
		software := NewSoftware(version, name)
		c := Client{Version: version, Software: software}

		nh := Nexthop{
			Type:       nexthopTypeIPv4,
			Gate:       netip.MustParseAddr("192.168.1.1"),
			LabelNum:   1,
			MplsLabels: []uint32{100},
		}
		msgFlags := MessageNexthop | MessageMetric
		c.SetLabelFlag(&msgFlags, &nh)
		if msgFlags&MessageLabel == 0 {
			t.Fatalf("%s: SetLabelFlag did not set MessageLabel", name)
		}

		body := &IPRouteBody{
			Type:    RouteBGP,
			Safi:    SafiUnicast,
			Message: msgFlags,
			Prefix: Prefix{
				Family:    syscall.AF_INET,
				PrefixLen: 24,
				Prefix:    netip.MustParseAddr("10.0.0.0"),
			},
			Nexthops: []Nexthop{nh},
			Metric:   100,
		}
		m := &Message{
			Header: Header{
				Marker:  HeaderMarker(version),
				Version: version,
				Command: RouteAdd.ToEach(version, software),
			},
			Body: body,
		}
		buf, err := m.Serialize(software)
		if err != nil {
			t.Fatalf("%s: serialize: %v", name, err)
		}
		hdr := &Header{}
		if err := hdr.decodeFromBytes(buf); err != nil {
			t.Fatalf("%s: header: %v", name, err)
		}
		back, err := parseMessage(hdr, buf[HeaderSize(version):], software)
		if err != nil {
			t.Errorf("%s: the serialised labelled route does not parse back: %v (bytes % x)", name, err, buf)
			continue
		}
		got := back.Body.(*IPRouteBody)
		if !reflect.DeepEqual(got.Nexthops, body.Nexthops) || got.Metric != body.Metric || len(got.backupNexthops) != 0 {
			t.Errorf("%s: parsed back differently: nexthops %+v backup %+v metric %d", name, got.Nexthops, got.backupNexthops, got.Metric)
		}
	}
}
