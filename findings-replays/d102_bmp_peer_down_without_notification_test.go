package server

import (
	"context"
	"testing"
	"time"

	"github.com/stretchr/testify/require"

	"github.com/osrg/gobgp/v4/api"
	"github.com/osrg/gobgp/v4/pkg/apiutil"
	"github.com/osrg/gobgp/v4/pkg/packet/bgp"
	"github.com/osrg/gobgp/v4/pkg/packet/bmp"
)

// A session with graceful restart negotiated loses its TCP connection. The
// Peer Down Notification the BMP client builds for that event (bmpPeerDown is
// what bmpClient.loop writes to the station) must parse back.
func TestD102BmpPeerDownWithoutNotification(t *testing.T) {
	afiSafis := []*api.AfiSafi{{
		Config: &api.AfiSafiConfig{
			Family:  apiutil.ToApiFamily(bgp.AFI_IP, bgp.SAFI_UNICAST),
			Enabled: true,
		},
		MpGracefulRestart: &api.MpGracefulRestart{
			Config: &api.MpGracefulRestartConfig{Enabled: true},
		},
	}}

	s1 := NewBgpServer()
	go s1.Serve()
	require.NoError(t, s1.StartBgp(context.Background(), &api.StartBgpRequest{
		Global: &api.Global{Asn: 1, RouterId: "1.1.1.1", ListenPort: 10179},
	}))
	defer s1.StopBgp(context.Background(), &api.StopBgpRequest{})

	// the same subscription the BMP client uses for Peer Up / Peer Down
	w, err := s1.watch(WatchPeer())
	require.NoError(t, err)
	defer w.Stop()

	require.NoError(t, s1.AddPeer(context.Background(), &api.AddPeerRequest{Peer: &api.Peer{
		Conf:            &api.PeerConf{NeighborAddress: "127.0.0.1", PeerAsn: 2},
		Transport:       &api.Transport{PassiveMode: true},
		GracefulRestart: &api.GracefulRestart{Enabled: true, RestartTime: 30},
		AfiSafis:        afiSafis,
	}}))

	s2 := NewBgpServer()
	go s2.Serve()
	require.NoError(t, s2.StartBgp(context.Background(), &api.StartBgpRequest{
		Global: &api.Global{Asn: 2, RouterId: "2.2.2.2", ListenPort: -1},
	}))
	require.NoError(t, s2.AddPeer(context.Background(), &api.AddPeerRequest{Peer: &api.Peer{
		Conf:            &api.PeerConf{NeighborAddress: "127.0.0.1", PeerAsn: 1},
		Transport:       &api.Transport{RemotePort: 10179},
		GracefulRestart: &api.GracefulRestart{Enabled: true, RestartTime: 30},
		AfiSafis:        afiSafis,
		Timers: &api.Timers{Config: &api.TimersConfig{
			ConnectRetry:           1,
			IdleHoldTimeAfterReset: 1,
		}},
	}}))

	next := func(what string, match func(*watchEventPeer) bool) *watchEventPeer {
		timeout := time.After(30 * time.Second)
		for {
			select {
			case ev := <-w.Event():
				if pe, ok := ev.(*watchEventPeer); ok && match(pe) {
					return pe
				}
			case <-timeout:
				t.Fatalf("timed out waiting for %s", what)
			}
		}
	}

	next("the session to establish", func(e *watchEventPeer) bool {
		return e.Type == apiutil.PEER_EVENT_STATE && e.State == bgp.BGP_FSM_ESTABLISHED
	})

	// the peer goes away without a NOTIFICATION: s1 only sees the TCP
	// connection fail and enters graceful restart
	for _, n := range s2.neighborMap {
		n.fsm.conn.Close()
	}
	require.NoError(t, s2.StopBgp(context.Background(), &api.StopBgpRequest{}))

	down := next("the session to go down", func(e *watchEventPeer) bool {
		return e.Type == apiutil.PEER_EVENT_STATE && e.OldState == bgp.BGP_FSM_ESTABLISHED && e.State != bgp.BGP_FSM_ESTABLISHED
	})
	t.Logf("state reason of the down event: %s (notification: %v)", down.StateReason.String(), down.StateReason.BGPNotification)

	// exactly what bmpClient.loop does with this event
	msg := bmpPeerDown(down, bmp.BMP_PEER_TYPE_GLOBAL, false, 0)
	buf, err := msg.Serialize()
	require.NoError(t, err)

	parsed, err := bmp.ParseBMPMessage(buf)
	require.NoError(t, err, "the Peer Down Notification emitted for the lost session does not parse back (body % x)", buf[bmp.BMP_HEADER_SIZE+bmp.BMP_PEER_HEADER_SIZE:])
	body := parsed.Body.(*bmp.BMPPeerDownNotification)
	if body.Reason == bmp.BMP_PEER_DOWN_REASON_LOCAL_BGP_NOTIFICATION || body.Reason == bmp.BMP_PEER_DOWN_REASON_REMOTE_BGP_NOTIFICATION {
		require.NotNil(t, body.BGPNotification, "reason %d announces a NOTIFICATION PDU", body.Reason)
	}
}
