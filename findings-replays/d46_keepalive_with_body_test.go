package server

import (
	"context"
	"io"
	"net"
	"net/netip"
	"testing"
	"time"

	"github.com/osrg/gobgp/v4/api"
	"github.com/osrg/gobgp/v4/pkg/packet/bgp"
)

// C07: RFC 4271 4.4 "A KEEPALIVE message consists of only the message header
// and has a length of 19 octets", 6.1: "if the Length field of a KEEPALIVE
// message is not equal to 19 ... then the Error Subcode MUST be set to Bad
// Message Length" (NOTIFICATION 1/2, next state Idle).
//
// gobgp checks only 19 <= Length <= 4096 in the header and
// BGPKeepAlive.DecodeFromBytes ignores its input, so a KEEPALIVE that carries
// a body is taken for a valid one: in OpenConfirm it even completes the
// handshake and the session becomes Established on a malformed message.

func fndReadMsg(conn net.Conn, deadline time.Time) (*bgp.BGPMessage, error) {
	_ = conn.SetReadDeadline(deadline)
	hdr := make([]byte, bgp.BGP_HEADER_LENGTH)
	if _, err := io.ReadFull(conn, hdr); err != nil {
		return nil, err
	}
	h := &bgp.BGPHeader{}
	if err := h.DecodeFromBytes(hdr); err != nil {
		return nil, err
	}
	body := make([]byte, int(h.Len)-bgp.BGP_HEADER_LENGTH)
	if _, err := io.ReadFull(conn, body); err != nil {
		return nil, err
	}
	return bgp.ParseBGPBody(h, body)
}

func fndSessionState(t *testing.T, s *BgpServer) api.PeerState_SessionState {
	t.Helper()
	st := api.PeerState_SESSION_STATE_UNSPECIFIED
	err := s.ListPeer(context.Background(), &api.ListPeerRequest{}, func(p *api.Peer) {
		st = p.State.SessionState
	})
	if err != nil {
		t.Fatalf("ListPeer: %v", err)
	}
	return st
}

func TestD46KeepaliveWithBody(t *testing.T) {
	s := NewBgpServer()
	go s.Serve()
	if err := s.StartBgp(context.Background(), &api.StartBgpRequest{
		Global: &api.Global{Asn: 65001, RouterId: "1.1.1.1", ListenPort: 10179, ListenAddresses: []string{"127.0.0.1"}},
	}); err != nil {
		t.Fatalf("StartBgp: %v", err)
	}
	defer s.StopBgp(context.Background(), &api.StopBgpRequest{})

	if err := s.AddPeer(context.Background(), &api.AddPeerRequest{Peer: &api.Peer{
		Conf:      &api.PeerConf{NeighborAddress: "127.0.0.1", PeerAsn: 65002},
		Transport: &api.Transport{PassiveMode: true},
		Timers:    &api.Timers{Config: &api.TimersConfig{HoldTime: 90, KeepaliveInterval: 30}},
	}}); err != nil {
		t.Fatalf("AddPeer: %v", err)
	}

	open, _ := bgp.NewBGPOpenMessage(65002, 90, netip.MustParseAddr("2.2.2.2"),
		[]bgp.OptionParameterInterface{bgp.NewOptionParameterCapability(
			[]bgp.ParameterCapabilityInterface{bgp.NewCapFourOctetASNumber(65002)})})
	openBytes, _ := open.Serialize()

	var conn net.Conn
	deadline := time.Now().Add(15 * time.Second)
	for conn == nil {
		if time.Now().After(deadline) {
			t.Fatal("could not get an OPEN from the server")
		}
		c, err := net.DialTimeout("tcp", "127.0.0.1:10179", time.Second)
		if err != nil {
			time.Sleep(100 * time.Millisecond)
			continue
		}
		if _, err := c.Write(openBytes); err != nil {
			c.Close()
			continue
		}
		m, err := fndReadMsg(c, time.Now().Add(2*time.Second))
		if err != nil || m.Header.Type != bgp.BGP_MSG_OPEN {
			c.Close()
			time.Sleep(100 * time.Millisecond)
			continue
		}
		conn = c
	}
	defer conn.Close()
	if m, err := fndReadMsg(conn, time.Now().Add(5*time.Second)); err != nil || m.Header.Type != bgp.BGP_MSG_KEEPALIVE {
		t.Fatalf("expected KEEPALIVE, got %v / %v", m, err)
	}
	// gobgp is in OpenConfirm now and waits for our KEEPALIVE.

	// a KEEPALIVE whose Length field says 20 and that carries one body octet
	bad := make([]byte, 20)
	for i := 0; i < 16; i++ {
		bad[i] = 0xff
	}
	bad[16], bad[17] = 0, 20
	bad[18] = bgp.BGP_MSG_KEEPALIVE
	bad[19] = 0xaa
	if _, err := conn.Write(bad); err != nil {
		t.Fatalf("write: %v", err)
	}

	// RFC 4271 6.1: NOTIFICATION Message Header Error / Bad Message Length, -> Idle
	limit := time.Now().Add(3 * time.Second)
	for {
		m, err := fndReadMsg(conn, limit)
		if err != nil {
			t.Fatalf("no NOTIFICATION for a 20-octet KEEPALIVE (read: %v); reported session state: %v",
				err, fndSessionState(t, s))
		}
		if m.Header.Type != bgp.BGP_MSG_NOTIFICATION {
			continue
		}
		n := m.Body.(*bgp.BGPNotification)
		if n.ErrorCode != bgp.BGP_ERROR_MESSAGE_HEADER_ERROR || n.ErrorSubcode != bgp.BGP_ERROR_SUB_BAD_MESSAGE_LENGTH {
			t.Fatalf("expected NOTIFICATION 1/2 (Bad Message Length), got %d/%d", n.ErrorCode, n.ErrorSubcode)
		}
		break
	}
	if st := fndSessionState(t, s); st == api.PeerState_SESSION_STATE_ESTABLISHED {
		t.Fatalf("session Established on a malformed KEEPALIVE")
	}
}
