package table

import (
	"log/slog"
	"net/netip"
	"os"
	"testing"
	"time"

	"github.com/osrg/gobgp/v4/pkg/packet/bgp"
)

// AddPolicy with refer=true (API: AddPolicyRequest.refer_existing_statements)
// names a statement that is not defined. The request must fail and leave the
// configuration as it was. Instead
//   - the first call reports "not found statement" but registers policy p1
//     with the request's placeholder statement, and
//   - a second such call for the now existing policy reports success and
//     appends another placeholder,
// so that p1, once assigned, rejects every route through statements that
// GetStatement does not know.
func TestD94AddPolicyUndefinedStatement(t *testing.T) {
	logger := slog.New(slog.NewTextHandler(os.Stderr, &slog.HandlerOptions{Level: slog.LevelError}))
	r := NewRoutingPolicy(logger)
	if err := r.Initialize(); err != nil {
		t.Fatal(err)
	}
	// what newPolicyFromApiStruct builds for
	// Policy{Name: "p1", Statements: [{Name: "nosuch", Actions: {RouteAction: REJECT}}]}
	stub := func(name string) *Policy {
		return &Policy{Name: "p1", Statements: []*Statement{{Name: name, RouteAction: &RoutingAction{AcceptRoute: false}}}}
	}

	err1 := r.AddPolicy(stub("nosuch"), true)
	if err1 == nil {
		t.Fatalf("AddPolicy referring to the undefined statement %q succeeded", "nosuch")
	}
	if n := len(r.GetPolicy("p1")); n != 0 {
		t.Errorf("AddPolicy failed (%v) but policy p1 is registered (%d entries, %d statements); GetStatement(nosuch) has %d entries",
			err1, n, len(r.GetPolicy("p1")[0].Statements), len(r.GetStatement("nosuch")))
	}

	err2 := r.AddPolicy(stub("nosuch2"), true)
	if err2 == nil {
		t.Errorf("AddPolicy referring to the undefined statement %q reported success", "nosuch2")
	}

	// consequence for the verdict
	if len(r.GetPolicy("p1")) != 0 {
		if err := r.SetPolicyAssignment(GLOBAL_RIB_NAME, POLICY_DIRECTION_IMPORT, r.GetPolicy("p1"), ROUTE_TYPE_ACCEPT); err != nil {
			t.Fatal(err)
		}
		peer := &PeerInfo{AS: 65001, LocalAS: 65000, Address: netip.MustParseAddr("10.0.0.1")}
		nh, _ := bgp.NewPathAttributeNextHop(netip.MustParseAddr("10.0.0.1"))
		attrs := []bgp.PathAttributeInterface{
			bgp.NewPathAttributeOrigin(0),
			bgp.NewPathAttributeAsPath([]bgp.AsPathParamInterface{bgp.NewAs4PathParam(bgp.BGP_ASPATH_ATTR_TYPE_SEQ, []uint32{65001})}),
			nh,
		}
		nlri, _ := bgp.NewIPAddrPrefix(netip.MustParsePrefix("10.10.1.0/24"))
		path := NewPath(bgp.RF_IPv4_UC, peer, bgp.PathNLRI{NLRI: nlri}, false, attrs, time.Now(), false)
		if r.ApplyPolicy(GLOBAL_RIB_NAME, POLICY_DIRECTION_IMPORT, path, nil) == nil {
			t.Errorf("policy p1, whose only additions were refused or refer to undefined statements, rejects 10.10.1.0/24")
		}
	}
}
