package table

import (
	"net/netip"
	"testing"
	"time"

	"github.com/osrg/gobgp/v4/pkg/config/oc"
	"github.com/osrg/gobgp/v4/pkg/packet/bgp"
)

// C10: evaluation must follow the configured policy, and what is read back
// must be what is evaluated. AddDefinedSet(set, replace=true) (the gRPC
// AddDefinedSet RPC with Replace set) only swaps the entry in definedSetMap;
// every condition that already references the set keeps its pointer to the
// OLD set object. After the replace, GetDefinedSet shows the new contents but
// policy evaluation still uses the old ones.
func TestD19DefinedSetReplace(t *testing.T) {
	mkPath := func(pfx string) *Path {
		nlri, _ := bgp.NewIPAddrPrefix(netip.MustParsePrefix(pfx))
		nh, _ := bgp.NewPathAttributeNextHop(netip.MustParseAddr("10.0.0.1"))
		attrs := []bgp.PathAttributeInterface{
			bgp.NewPathAttributeOrigin(0),
			bgp.NewPathAttributeAsPath([]bgp.AsPathParamInterface{bgp.NewAs4PathParam(bgp.BGP_ASPATH_ATTR_TYPE_SEQ, []uint32{65001})}),
			nh,
		}
		peer := &PeerInfo{AS: 65001, Address: netip.MustParseAddr("10.0.0.1")}
		return NewPath(bgp.RF_IPv4_UC, peer, bgp.PathNLRI{NLRI: nlri}, false, attrs, time.Now(), false)
	}
	mkSet := func(pfx, rng string) oc.PrefixSet {
		return oc.PrefixSet{PrefixSetName: "ps1", PrefixList: []oc.Prefix{{IpPrefix: netip.MustParsePrefix(pfx), MasklengthRange: rng}}}
	}

	// policy: reject everything in prefix-set ps1, accept the rest
	stmt := oc.Statement{Name: "s1"}
	stmt.Conditions.MatchPrefixSet = oc.MatchPrefixSet{PrefixSet: "ps1", MatchSetOptions: oc.MATCH_SET_OPTIONS_RESTRICTED_TYPE_ANY}
	stmt.Actions.RouteDisposition = oc.ROUTE_DISPOSITION_REJECT_ROUTE
	r := NewRoutingPolicy(logger)
	if err := r.reload(oc.RoutingPolicy{
		DefinedSets:       oc.DefinedSets{PrefixSets: []oc.PrefixSet{mkSet("10.0.0.0/8", "8..32")}},
		PolicyDefinitions: []oc.PolicyDefinition{{Name: "p1", Statements: []oc.Statement{stmt}}},
	}); err != nil {
		t.Fatal(err)
	}
	if err := r.SetPolicyAssignment(GLOBAL_RIB_NAME, POLICY_DIRECTION_IMPORT, []*oc.PolicyDefinition{{Name: "p1"}}, ROUTE_TYPE_ACCEPT); err != nil {
		t.Fatal(err)
	}
	in10, in192 := mkPath("10.1.0.0/16"), mkPath("192.168.1.0/24")
	if r.ApplyPolicy(GLOBAL_RIB_NAME, POLICY_DIRECTION_IMPORT, in10, nil) != nil {
		t.Fatal("precondition: 10.1.0.0/16 must be rejected by the initial ps1")
	}
	if r.ApplyPolicy(GLOBAL_RIB_NAME, POLICY_DIRECTION_IMPORT, in192, nil) == nil {
		t.Fatal("precondition: 192.168.1.0/24 must be accepted by the initial ps1")
	}

	// replace ps1 with 192.168.0.0/16 16..32
	newSet, err := NewPrefixSet(mkSet("192.168.0.0/16", "16..32"))
	if err != nil {
		t.Fatal(err)
	}
	if err := r.AddDefinedSet(newSet, true); err != nil {
		t.Fatal(err)
	}

	// read back: ps1 is now 192.168.0.0/16 16..32
	ds, err := r.GetDefinedSet(DEFINED_TYPE_PREFIX, "ps1")
	if err != nil || len(ds.PrefixSets) != 1 || len(ds.PrefixSets[0].PrefixList) != 1 ||
		ds.PrefixSets[0].PrefixList[0].IpPrefix != netip.MustParsePrefix("192.168.0.0/16") {
		t.Fatalf("read back of ps1 after replace: %+v, %v", ds, err)
	}

	// evaluation must follow the set that is configured (and read back)
	if r.ApplyPolicy(GLOBAL_RIB_NAME, POLICY_DIRECTION_IMPORT, in192, nil) != nil {
		t.Errorf("192.168.1.0/24 is in the replaced ps1 (192.168.0.0/16 16..32) and must be rejected, but was accepted")
	}
	if r.ApplyPolicy(GLOBAL_RIB_NAME, POLICY_DIRECTION_IMPORT, in10, nil) == nil {
		t.Errorf("10.1.0.0/16 is no longer in ps1 and must be accepted, but was rejected (stale set still evaluated)")
	}
}
