package server

import (
	"context"
	"net"
	"net/netip"
	"slices"
	"testing"
	"time"

	"github.com/stretchr/testify/require"

	"github.com/osrg/gobgp/v4/api"
	"github.com/osrg/gobgp/v4/internal/pkg/table"
	"github.com/osrg/gobgp/v4/pkg/config/oc"
	"github.com/osrg/gobgp/v4/pkg/packet/bgp"
)

// C12: with long-lived GR the *stale* routes are kept until the per-family
// long-lived timer expires; after re-establishment re-announced routes are
// fresh and only routes that were not re-announced are withdrawn.
//
// The per-family LLGR timer started when the restart timer expired keeps
// running after the session is re-established (it is only stopped once
// End-of-RIB has been received for every GR family).  When it fires it calls
// dropAdjRIBIn(peer, family), which deletes EVERY route of that family from
// the peer - including routes the peer has freshly re-announced on the new
// session.  The peer will not send them again, so they are lost for good.
//
// The test drives the real FSM bookkeeping (fsm.stateChange) and the real
// server event handler (handleFSMMessage) exactly like fsmHandler.loop does.
func TestD51LlgrTimerWipesFreshRoutes(t *testing.T) {
	ctx := context.Background()
	s := NewBgpServer()
	go s.Serve()
	require.NoError(t, s.StartBgp(ctx, &api.StartBgpRequest{
		Global: &api.Global{Asn: 65001, RouterId: "1.1.1.1", ListenPort: -1},
	}))

	peerAddr := netip.MustParseAddr("10.0.0.2")
	nConf := &oc.Neighbor{
		Config: oc.NeighborConfig{PeerAs: 65002, NeighborAddress: peerAddr},
		State:  oc.NeighborState{NeighborAddress: peerAddr},
		GracefulRestart: oc.GracefulRestart{Config: oc.GracefulRestartConfig{
			Enabled: true, RestartTime: 120, LongLivedEnabled: true,
		}},
		AfiSafis: []oc.AfiSafi{{
			Config:                   oc.AfiSafiConfig{AfiSafiName: oc.AFI_SAFI_TYPE_IPV4_UNICAST, Enabled: true},
			MpGracefulRestart:        oc.MpGracefulRestart{Config: oc.MpGracefulRestartConfig{Enabled: true}},
			LongLivedGracefulRestart: oc.LongLivedGracefulRestart{Config: oc.LongLivedGracefulRestartConfig{Enabled: true, RestartTime: 100}},
		}},
	}
	require.NoError(t, oc.SetDefaultNeighborConfigValues(nConf, nil, &s.bgpConfig.Global))
	p := newPeer(&s.bgpConfig.Global, nConf, bgp.BGP_FSM_IDLE, s.globalRib, s.policy, s.logger)
	require.NoError(t, s.mgmtOperation(func() error {
		s.neighborMap[peerAddr] = p
		return nil
	}, true))
	t.Cleanup(func() {
		_ = s.mgmtOperation(func() error {
			p.stopPeerRestarting()
			delete(s.neighborMap, peerAddr)
			return nil
		}, false)
		cleanInfiniteChannel(p.fsm.outgoingCh)
		_ = s.StopBgp(ctx, &api.StopBgpRequest{})
	})

	// fsm.stateChange(ESTABLISHED) wants a TCP connection to read the addresses from.
	ln, err := net.Listen("tcp", "127.0.0.1:0")
	require.NoError(t, err)
	defer ln.Close()
	c1, err := net.Dial("tcp", ln.Addr().String())
	require.NoError(t, err)
	defer c1.Close()
	c2, err := ln.Accept()
	require.NoError(t, err)
	defer c2.Close()
	p.fsm.conn = c1

	// OPEN of the peer: GR (restart time 120s) and LLGR (long-lived stale time 2s) for ipv4-unicast.
	peerOpen := func(restarting bool) *bgp.BGPMessage {
		caps := []bgp.ParameterCapabilityInterface{
			bgp.NewCapMultiProtocol(bgp.RF_IPv4_UC),
			bgp.NewCapFourOctetASNumber(65002),
			bgp.NewCapGracefulRestart(restarting, false, 120, []*bgp.CapGracefulRestartTuple{
				bgp.NewCapGracefulRestartTuple(bgp.RF_IPv4_UC, true),
			}),
			bgp.NewCapLongLivedGracefulRestart([]*bgp.CapLongLivedGracefulRestartTuple{
				bgp.NewCapLongLivedGracefulRestartTuple(bgp.RF_IPv4_UC, true, 2),
			}),
		}
		m, err := bgp.NewBGPOpenMessage(bgp.AS_TRANS, 90, netip.MustParseAddr("2.2.2.2"),
			[]bgp.OptionParameterInterface{bgp.NewOptionParameterCapability(caps)})
		require.NoError(t, err)
		return m
	}
	// what fsmHandler.loop does on every state transition
	transition := func(next bgp.FSMState, typ fsmStateReasonType) {
		reason := newfsmStateReason(typ, nil, nil)
		p.fsm.stateChange(next, reason)
		s.handleFSMMessage(p, &fsmMsg{MsgType: fsmMsgStateChange, MsgData: next, StateReason: reason})
		p.fsm.state.Store(next)
	}
	// what fsmHandler.recvMessageloop does for every received UPDATE
	recv := func(m *bgp.BGPMessage) {
		s.handleFSMMessage(p, &fsmMsg{MsgType: fsmMsgBGPMessage, MsgData: m, timestamp: time.Now()})
	}
	establish := func(restarting bool) {
		p.fsm.recvOpen = peerOpen(restarting)
		transition(bgp.BGP_FSM_ACTIVE, fsmIdleTimerExpired)
		transition(bgp.BGP_FSM_OPENSENT, fsmNewConnection)
		transition(bgp.BGP_FSM_OPENCONFIRM, fsmOpenMsgReceived)
		transition(bgp.BGP_FSM_ESTABLISHED, fsmOpenMsgNegotiated)
	}
	update := func(prefix string) *bgp.BGPMessage {
		nlri, err := bgp.NewIPAddrPrefix(netip.MustParsePrefix(prefix))
		require.NoError(t, err)
		nh, err := bgp.NewPathAttributeNextHop(netip.MustParseAddr("10.0.0.2"))
		require.NoError(t, err)
		return bgp.NewBGPUpdateMessage(nil, []bgp.PathAttributeInterface{
			bgp.NewPathAttributeOrigin(0),
			bgp.NewPathAttributeAsPath([]bgp.AsPathParamInterface{bgp.NewAs4PathParam(2, []uint32{65002})}),
			nh,
		}, []bgp.PathNLRI{{NLRI: nlri}})
	}
	adjIn := func() []*table.Path {
		return p.adjRibIn.PathList([]bgp.Family{bgp.RF_IPv4_UC}, false)
	}
	inGlobal := func() []string {
		l := []string{}
		for _, path := range s.globalRib.GetBestPathList(table.GLOBAL_RIB_NAME, 0, []bgp.Family{bgp.RF_IPv4_UC}) {
			l = append(l, path.GetPrefix())
		}
		slices.Sort(l)
		return l
	}

	// session 1: the peer announces two routes and End-of-RIB
	establish(false)
	recv(update("10.10.0.0/24"))
	recv(update("10.20.0.0/24"))
	recv(bgp.NewEndOfRib(bgp.RF_IPv4_UC))
	require.Len(t, adjIn(), 2)
	require.Equal(t, []string{"10.10.0.0/24", "10.20.0.0/24"}, inGlobal())
	require.True(t, p.fsm.pConf.ReadOnly().GracefulRestart.State.LongLivedEnabled)

	// transport failure -> GR: routes stale
	transition(bgp.BGP_FSM_IDLE, fsmGracefulRestart)
	require.Len(t, adjIn(), 2)
	for _, path := range adjIn() {
		require.True(t, path.IsStale())
	}
	// restart timer expires -> LLGR phase, LLGR timer (2s) starts
	transition(bgp.BGP_FSM_IDLE, fsmRestartTimerExpired)
	llgrStart := time.Now()
	require.Len(t, adjIn(), 2)
	for _, path := range adjIn() {
		require.True(t, path.IsLLGRStale())
	}

	// the peer comes back well inside the long-lived stale time and re-announces
	// 10.10.0.0/24 only; it has not sent End-of-RIB yet.
	establish(true)
	recv(update("10.10.0.0/24"))
	require.Less(t, time.Since(llgrStart), 1500*time.Millisecond, "test too slow")
	fresh := 0
	for _, path := range adjIn() {
		if path.GetPrefix() == "10.10.0.0/24" {
			require.False(t, path.IsStale())
			require.False(t, path.IsLLGRStale())
			fresh++
		}
	}
	require.Equal(t, 1, fresh)

	// the long-lived stale timer of session 1 fires now
	time.Sleep(time.Until(llgrStart.Add(3 * time.Second)))

	// The stale 10.20.0.0/24 may go, the fresh 10.10.0.0/24 must stay.
	prefixes := []string{}
	for _, path := range adjIn() {
		prefixes = append(prefixes, path.GetPrefix())
	}
	if !slices.Contains(prefixes, "10.10.0.0/24") || !slices.Contains(inGlobal(), "10.10.0.0/24") {
		t.Fatalf("the LLGR timer of the previous session removed the freshly re-announced route: "+
			"state=%s adj-in=%v global=%v", p.State(), prefixes, inGlobal())
	}

	// End-of-RIB: now the not re-announced stale route has to go, the fresh one stays
	recv(bgp.NewEndOfRib(bgp.RF_IPv4_UC))
	require.Equal(t, []string{"10.10.0.0/24"}, inGlobal())
}
