package bgp

import (
	"bytes"
	"net/netip"
	"testing"
)

// The SRv6 Binding SID sub-TLV of an SR Policy tunnel encapsulation attribute,
// built exactly as pkg/apiutil.UnmarshalSRBSID builds it, must carry the whole
// 16-octet SID on the wire and parse back to the same SID.
func TestD90Srv6BsidTruncated(t *testing.T) {
	sid := netip.MustParseAddr("2001:db8:1:2:3:4:5:6").AsSlice()
	b, err := NewBSID(sid)
	if err != nil {
		t.Fatal(err)
	}
	sub := &TunnelEncapSubTLVSRv6BSID{
		TunnelEncapSubTLV: TunnelEncapSubTLV{
			Type:   ENCAP_SUBTLV_TYPE_SRBINDING_SID,
			Length: uint16(2 + b.Len()),
		},
		Flags: 0,
		BSID:  b,
	}
	attr := NewPathAttributeTunnelEncap([]*TunnelEncapTLV{
		NewTunnelEncapTLV(TUNNEL_TYPE_SR_POLICY, []TunnelEncapSubTLVInterface{sub}),
	})

	wire, err := attr.Serialize()
	if err != nil {
		t.Fatalf("serialize: %v", err)
	}
	if !bytes.Contains(wire, sid) {
		t.Errorf("the 16-octet SID % x is not on the wire: % x", sid, wire)
	}

	got := &PathAttributeTunnelEncap{}
	if err := got.DecodeFromBytes(wire); err != nil {
		t.Fatalf("parse: %v", err)
	}
	if len(got.Value) != 1 || len(got.Value[0].Value) != 1 {
		t.Fatalf("unexpected shape after parse: %v", got)
	}
	parsed, ok := got.Value[0].Value[0].(*TunnelEncapSubTLVSRBSID)
	if !ok {
		t.Fatalf("unexpected sub-TLV type %T", got.Value[0].Value[0])
	}
	if !bytes.Equal(parsed.BSID.Value, sid) {
		t.Fatalf("binding SID changed in serialise -> parse: sent % x, got % x", sid, parsed.BSID.Value)
	}
}
