package server

import (
	"context"
	"io"
	"net"
	"net/netip"
	"sync"
	"testing"
	"time"

	"github.com/osrg/gobgp/v4/api"
	"github.com/osrg/gobgp/v4/pkg/apiutil"
	"github.com/osrg/gobgp/v4/pkg/config/oc"
	"github.com/osrg/gobgp/v4/pkg/packet/bgp"
)

// C07: once a peer is deleted its session is gone; an UPDATE of that peer must
// not change a RIB any more.
//
// deleteNeighbor() withdraws the peer's routes and cancels the FSM, but the
// peer's reported FSM state is never changed (the FSM loop leaves without a
// state-change callback), so it stays Established for ever. An UPDATE that the
// receive goroutine has already read - it waits for the server lock, which the
// delete operation holds - is processed right after the delete: state is
// "Established", so the route is installed in the global RIB. Nothing ever
// withdraws it: the peer no longer exists.
//
// The test makes the interleaving deterministic by doing, inside one
// management operation (= under the server lock, exactly like DeletePeer),
// "the UPDATE arrives" and then the very call DeletePeer makes.
func TestD86DeletedPeerUpdate(t *testing.T) {
	s, p := c07f3Server(t, c07f3Neighbor())
	rem := c07f3Establish(t, s, p, c07f3Open())

	err := s.mgmtOperation(func() error {
		// the UPDATE arrives while the delete is being carried out
		rem.send(t, c07f3Update("10.9.0.0/24"))
		time.Sleep(300 * time.Millisecond)
		c := &oc.Neighbor{Config: oc.NeighborConfig{NeighborAddress: c07f3Addr}}
		return s.deleteNeighbor(c, bgp.BGP_ERROR_CEASE, bgp.BGP_ERROR_SUB_PEER_DECONFIGURED, true)
	}, true)
	if err != nil {
		t.Fatal(err)
	}

	// the peer is told it was de-configured
	if !c07f3Eventually(3*time.Second, func() bool { return len(rem.notifications()) > 0 }) {
		t.Fatal("no NOTIFICATION sent on delete")
	}
	time.Sleep(300 * time.Millisecond)

	if st := p.State(); st == bgp.BGP_FSM_ESTABLISHED {
		t.Errorf("deleted peer still reports state %s", st)
	}
	if n := c07f3RibCount(t, s); n != 0 {
		t.Fatalf("%d path(s) of the deleted peer in the global RIB: an UPDATE was processed after the peer had been deleted", n)
	}
}

// ---- test harness (no code under test is replaced: a real BgpServer and the
// real FSM goroutines run; only the TCP connection is an in-memory pipe that
// is handed to the peer the same way an accepted connection is) ----

type c07f3Conn struct{ net.Conn }

func (c *c07f3Conn) RemoteAddr() net.Addr {
	return &net.TCPAddr{IP: net.ParseIP("127.0.0.1").To4(), Port: 10179}
}

func (c *c07f3Conn) LocalAddr() net.Addr {
	return &net.TCPAddr{IP: net.ParseIP("127.0.0.201").To4(), Port: 179}
}

// c07f3Remote is the BGP speaker at the other end of the pipe.
type c07f3Remote struct {
	conn net.Conn
	mu   sync.Mutex
	msgs []*bgp.BGPMessage
}

func (r *c07f3Remote) run() {
	for {
		hb := make([]byte, bgp.BGP_HEADER_LENGTH)
		if _, err := io.ReadFull(r.conn, hb); err != nil {
			return
		}
		h := &bgp.BGPHeader{}
		if err := h.DecodeFromBytes(hb); err != nil {
			return
		}
		body := make([]byte, int(h.Len)-bgp.BGP_HEADER_LENGTH)
		if _, err := io.ReadFull(r.conn, body); err != nil {
			return
		}
		if m, err := bgp.ParseBGPBody(h, body); err == nil {
			r.mu.Lock()
			r.msgs = append(r.msgs, m)
			r.mu.Unlock()
		}
	}
}

func (r *c07f3Remote) send(t *testing.T, m *bgp.BGPMessage) {
	t.Helper()
	b, err := m.Serialize()
	if err != nil {
		t.Fatal(err)
	}
	_ = r.conn.SetWriteDeadline(time.Now().Add(2 * time.Second))
	_, _ = r.conn.Write(b)
}

func (r *c07f3Remote) notifications() []*bgp.BGPNotification {
	r.mu.Lock()
	defer r.mu.Unlock()
	var l []*bgp.BGPNotification
	for _, m := range r.msgs {
		if m.Header.Type == bgp.BGP_MSG_NOTIFICATION {
			l = append(l, m.Body.(*bgp.BGPNotification))
		}
	}
	return l
}

func c07f3Eventually(d time.Duration, f func() bool) bool {
	deadline := time.Now().Add(d)
	for time.Now().Before(deadline) {
		if f() {
			return true
		}
		time.Sleep(10 * time.Millisecond)
	}
	return f()
}

var c07f3Addr = netip.MustParseAddr("127.0.0.1")

func c07f3State(s *BgpServer) bgp.FSMState {
	st := bgp.FSMState(-1)
	_ = s.mgmtOperation(func() error {
		if p, ok := s.neighborMap[c07f3Addr]; ok {
			st = p.State()
		}
		return nil
	}, false)
	return st
}

// c07f3Server starts a server (AS 65001, no listener) with one passive iBGP
// neighbour 127.0.0.1 and waits until that neighbour is Active.
func c07f3Server(t *testing.T, n *oc.Neighbor) (*BgpServer, *peer) {
	t.Helper()
	s := NewBgpServer()
	go s.Serve()
	err := s.StartBgp(context.Background(), &api.StartBgpRequest{
		Global: &api.Global{Asn: 65001, RouterId: "1.1.1.1", ListenPort: -1},
	})
	if err != nil {
		t.Fatal(err)
	}
	t.Cleanup(func() { _ = s.StopBgp(context.Background(), &api.StopBgpRequest{}) })
	if err := s.AddPeer(context.Background(), &api.AddPeerRequest{Peer: oc.NewPeerFromConfigStruct(n)}); err != nil {
		t.Fatal(err)
	}
	if !c07f3Eventually(5*time.Second, func() bool { return c07f3State(s) == bgp.BGP_FSM_ACTIVE }) {
		t.Fatal("neighbour did not become Active")
	}
	var p *peer
	_ = s.mgmtOperation(func() error { p = s.neighborMap[c07f3Addr]; return nil }, false)
	return s, p
}

// c07f3Establish hands the neighbour a connection and completes the handshake
// (OPEN, KEEPALIVE) from the remote side.
func c07f3Establish(t *testing.T, s *BgpServer, p *peer, open *bgp.BGPMessage) *c07f3Remote {
	t.Helper()
	l, r := net.Pipe()
	rem := &c07f3Remote{conn: r}
	go rem.run()
	t.Cleanup(func() { r.Close(); l.Close() })
	p.PassConn(&c07f3Conn{l})
	rem.send(t, open)
	rem.send(t, bgp.NewBGPKeepAliveMessage())
	if !c07f3Eventually(5*time.Second, func() bool { return c07f3State(s) == bgp.BGP_FSM_ESTABLISHED }) {
		t.Fatal("session did not become Established")
	}
	return rem
}

func c07f3Neighbor() *oc.Neighbor {
	return &oc.Neighbor{
		Config: oc.NeighborConfig{
			NeighborAddress: c07f3Addr,
			PeerAs:          65001,
		},
		Transport: oc.Transport{Config: oc.TransportConfig{PassiveMode: true}},
		Timers:    oc.Timers{Config: oc.TimersConfig{HoldTime: 90, KeepaliveInterval: 30}},
		AfiSafis: []oc.AfiSafi{{
			Config: oc.AfiSafiConfig{AfiSafiName: oc.AFI_SAFI_TYPE_IPV4_UNICAST, Enabled: true},
		}},
	}
}

func c07f3Open(extra ...bgp.ParameterCapabilityInterface) *bgp.BGPMessage {
	caps := []bgp.ParameterCapabilityInterface{
		bgp.NewCapRouteRefresh(),
		bgp.NewCapMultiProtocol(bgp.RF_IPv4_UC),
		bgp.NewCapFourOctetASNumber(65001),
	}
	caps = append(caps, extra...)
	m, _ := bgp.NewBGPOpenMessage(65001, 90, netip.MustParseAddr("2.2.2.2"),
		[]bgp.OptionParameterInterface{bgp.NewOptionParameterCapability(caps)})
	return m
}

func c07f3Update(prefixes ...string) *bgp.BGPMessage {
	nh, _ := bgp.NewPathAttributeNextHop(netip.MustParseAddr("127.0.0.1"))
	attrs := []bgp.PathAttributeInterface{
		bgp.NewPathAttributeOrigin(0),
		bgp.NewPathAttributeAsPath([]bgp.AsPathParamInterface{bgp.NewAs4PathParam(2, []uint32{65010})}),
		nh,
	}
	var nlri []bgp.PathNLRI
	for _, p := range prefixes {
		n, _ := bgp.NewIPAddrPrefix(netip.MustParsePrefix(p))
		nlri = append(nlri, bgp.PathNLRI{NLRI: n})
	}
	return bgp.NewBGPUpdateMessage(nil, attrs, nlri)
}

func c07f3RibCount(t *testing.T, s *BgpServer) int {
	t.Helper()
	n := 0
	err := s.ListPath(apiutil.ListPathRequest{TableType: api.TableType_TABLE_TYPE_GLOBAL, Family: bgp.RF_IPv4_UC},
		func(_ bgp.NLRI, paths []*apiutil.Path) { n += len(paths) })
	if err != nil {
		t.Fatal(err)
	}
	return n
}
