package mrt

import (
	"net/netip"
	"reflect"
	"testing"
	"time"

	"github.com/osrg/gobgp/v4/pkg/packet/bgp"
)

// A TABLE_DUMPv2 RIB_IPV6_UNICAST record built with the package's own
// constructors must parse back to the same prefix and entries.
//
// Rib.Serialize has its family switch inverted: it writes the AFI/SAFI
// triplet (which only RIB_GENERIC records carry, RFC 6396 4.3.3) for
// IPv4-multicast, IPv6-unicast and IPv6-multicast, and omits it for every
// other family. parseRib expects exactly the opposite, so the three extra
// octets are read as prefix length + prefix and the record is garbage.
func TestD27MrtRibFamily(t *testing.T) {
	attrs := []bgp.PathAttributeInterface{
		bgp.NewPathAttributeOrigin(0),
		bgp.NewPathAttributeAsPath([]bgp.AsPathParamInterface{
			bgp.NewAs4PathParam(2, []uint32{65001}),
		}),
	}
	entry := NewRibEntry(0, 1000, 0, attrs, false)
	nlri, err := bgp.NewIPAddrPrefix(netip.MustParsePrefix("2001:db8::/32"))
	if err != nil {
		t.Fatal(err)
	}
	rib := NewRib(7, bgp.RF_IPv6_UC, nlri, []*RibEntry{entry})

	// the same way pkg/server/mrt.go (dumpTable) builds the record
	msg, err := NewMRTMessage(time.Unix(1000, 0), TABLE_DUMPv2, RIB_IPV6_UNICAST, rib)
	if err != nil {
		t.Fatal(err)
	}
	buf, err := msg.Serialize()
	if err != nil {
		t.Fatal(err)
	}

	hdr, err := ParseHeader(buf)
	if err != nil {
		t.Fatal(err)
	}
	parsed, err := ParseBody(buf[MRT_COMMON_HEADER_LEN:], hdr)
	if err != nil {
		t.Fatalf("RIB_IPV6_UNICAST record produced by Rib.Serialize does not parse back: %v", err)
	}
	got := parsed.Body.(*Rib)
	if got.Prefix.String() != "2001:db8::/32" {
		t.Fatalf("prefix changed in round trip: got %s, want 2001:db8::/32", got.Prefix)
	}
	if !reflect.DeepEqual(rib, got) {
		t.Fatalf("round trip mismatch:\n sent %v\n got  %v", rib, got)
	}
}
