package server

import (
	"context"
	"io"
	"log/slog"
	"net"
	"net/netip"
	"sync"
	"testing"
	"time"

	"github.com/eapache/channels"
	"github.com/osrg/gobgp/v4/internal/pkg/table"
	"github.com/osrg/gobgp/v4/pkg/config/oc"
	"github.com/osrg/gobgp/v4/pkg/packet/bgp"
)

// TestFinding: with revised error handling enabled, an UPDATE with two faults -
// a MED with a bad length (treat-as-withdraw) and an unrecognized well-known
// attribute (session reset, NOTIFICATION 3/2) - must get the strongest of the
// two reactions. recvMessageloop runs ValidateUpdateMsg only when decoding
// ended with NONE or ATTRIBUTE_DISCARD, so after a treat-as-withdraw decoding
// error every session-reset class error found by validation is lost.
func TestD34ValidationSkippedUnderTAW(t *testing.T) {
	const localAS, peerAS = 65000, 65001
	lg := slog.New(slog.NewTextHandler(io.Discard, nil))

	// a real eBGP peer with revised error handling (treat-as-withdraw) enabled
	families := []bgp.Family{bgp.RF_IPv4_UC}
	rib := table.NewTableManager(lg, families)
	peerAddr := netip.MustParseAddr("192.168.0.1")
	nConf := &oc.Neighbor{
		Config: oc.NeighborConfig{PeerAs: peerAS, NeighborAddress: peerAddr},
		State:  oc.NeighborState{PeerAs: peerAS, NeighborAddress: peerAddr, RemoteRouterId: peerAddr},
	}
	gConf := &oc.Global{Config: oc.GlobalConfig{As: localAS}}
	if err := oc.SetDefaultNeighborConfigValues(nConf, nil, gConf); err != nil {
		t.Fatal(err)
	}
	policy := table.NewRoutingPolicy(lg)
	if err := policy.Reset(&oc.RoutingPolicy{}, nil); err != nil {
		t.Fatal(err)
	}
	p := newPeer(gConf, nConf, bgp.BGP_FSM_ESTABLISHED, rib, policy, lg)
	rfmap := map[bgp.Family]bgp.BGPAddPathMode{bgp.RF_IPv4_UC: bgp.BGP_ADD_PATH_NONE}
	p.fsm.familyMap.Store(rfmap)
	localAddr := netip.MustParseAddr("192.168.0.2")
	p.peerInfo.Store(table.NewPeerInfo(gConf, nConf, peerAS, localAS, peerAddr, localAddr, peerAddr, localAddr))
	p.fsm.isEBGP = true
	p.fsm.isConfed = false
	p.fsm.isTreatAsWithdraw = true

	local, remote := net.Pipe()
	defer remote.Close()
	defer local.Close()
	p.fsm.conn = local
	h := &fsmHandler{
		fsm:      p.fsm,
		outgoing: channels.NewInfiniteChannel(),
		callback: func(e *fsmMsg) {
			if m, ok := e.MsgData.(*bgp.BGPMessage); ok && m.Header.Type == bgp.BGP_MSG_UPDATE {
				p.handleUpdate(e)
			}
		},
	}
	p.fsm.h = h

	wrap := func(body []byte) []byte {
		msg := make([]byte, 19, 19+len(body))
		for i := 0; i < 16; i++ {
			msg[i] = 0xff
		}
		l := 19 + len(body)
		msg[16], msg[17], msg[18] = byte(l>>8), byte(l), bgp.BGP_MSG_UPDATE
		return append(msg, body...)
	}
	update := func(attrs []byte, nlri []byte) []byte {
		body := []byte{0, 0, byte(len(attrs) >> 8), byte(len(attrs))}
		body = append(body, attrs...)
		return wrap(append(body, nlri...))
	}

	origin := []byte{0x40, 0x01, 0x01, 0x00}
	asPath := []byte{0x40, 0x02, 0x06, 0x02, 0x01, 0x00, 0x00, 0xfd, 0xe9} // SEQ(65001)
	nextHop := []byte{0x40, 0x03, 0x04, 192, 168, 0, 1}
	med := []byte{0x80, 0x04, 0x04, 0, 0, 0, 10}
	medBadLen := []byte{0x80, 0x04, 0x03, 0, 0, 10} // fault 1: MED of length 3 -> treat-as-withdraw
	unknownWellKnown := []byte{0x40, 0x63, 0x00}    // fault 2: well-known (not optional) attribute type 99 -> session reset 3/2
	nlri := []byte{24, 10, 0, 0}                    // 10.0.0.0/24

	cat := func(bs ...[]byte) []byte {
		var r []byte
		for _, b := range bs {
			r = append(r, b...)
		}
		return r
	}
	good := update(cat(origin, asPath, nextHop, med), nlri)
	onlyUnknown := update(cat(origin, asPath, nextHop, med, unknownWellKnown), nlri)
	bad := update(cat(origin, asPath, nextHop, medBadLen, unknownWellKnown), nlri)

	// reference: the unrecognized well-known attribute alone is answered with a session reset
	{
		m, err := bgp.ParseBGPMessage(onlyUnknown)
		if err != nil {
			t.Fatal(err)
		}
		_, err = bgp.ValidateUpdateMsg(m.Body.(*bgp.BGPUpdate), rfmap, true, false, false)
		me, _ := err.(*bgp.MessageError)
		if me == nil || me.ErrorHandling != bgp.ERROR_HANDLING_SESSION_RESET || me.SubTypeCode != bgp.BGP_ERROR_SUB_UNRECOGNIZED_WELL_KNOWN_ATTRIBUTE {
			t.Fatalf("reference: unrecognized well-known attribute alone: %v", err)
		}
	}

	ctx, cancel := context.WithCancel(context.Background())
	defer cancel()
	wg := &sync.WaitGroup{}
	wg.Add(1)
	go h.recvMessageloop(ctx, local, make(chan struct{}, 2), make(chan fsmStateReason, 4), wg)

	write := func(b []byte) {
		remote.SetWriteDeadline(time.Now().Add(5 * time.Second))
		remote.Write(b) // the write fails when the loop has already ended (session reset)
	}
	keepalive := wrap(nil)
	keepalive[18] = bgp.BGP_MSG_KEEPALIVE

	write(good)
	write(keepalive) // returns when the loop is done with the previous message
	if n := p.adjRibIn.Count(families); n != 1 {
		t.Fatalf("the well-formed UPDATE was not installed: %d routes in the Adj-RIB-In", n)
	}

	write(bad)
	write(keepalive)
	remote.Close()
	wg.Wait()

	var notif *bgp.BGPNotification
	select {
	case m := <-p.fsm.notification:
		notif = m.Body.(*bgp.BGPNotification)
	default:
	}
	if notif == nil {
		t.Fatalf("UPDATE with a bad-length MED and an unrecognized well-known attribute was only treated as withdraw; " +
			"the session reset (NOTIFICATION 3/2) the second fault calls for did not happen")
	}
	if notif.ErrorCode != bgp.BGP_ERROR_UPDATE_MESSAGE_ERROR || notif.ErrorSubcode != bgp.BGP_ERROR_SUB_UNRECOGNIZED_WELL_KNOWN_ATTRIBUTE {
		t.Fatalf("unexpected NOTIFICATION %d/%d", notif.ErrorCode, notif.ErrorSubcode)
	}
}
