package server

import (
	"context"
	"testing"

	"github.com/osrg/gobgp/v4/api"
)

// A statement whose condition is "origin == IGP" is configured through the API
// and read back through ListPolicy and ListStatement. Both must report the
// origin condition that was configured.
func TestD95OriginConditionReadback(t *testing.T) {
	s := NewBgpServer()
	go s.Serve()
	ctx := context.Background()
	if err := s.StartBgp(ctx, &api.StartBgpRequest{Global: &api.Global{Asn: 65000, RouterId: "1.1.1.1", ListenPort: -1}}); err != nil {
		t.Fatal(err)
	}
	defer s.StopBgp(ctx, &api.StopBgpRequest{})

	// p1/s1: match origin IGP, no origin action
	// p2/s2: match origin IGP, set origin EGP
	for _, p := range []*api.Policy{
		{Name: "p1", Statements: []*api.Statement{{
			Name:       "s1",
			Conditions: &api.Conditions{Origin: api.OriginType_ORIGIN_TYPE_IGP},
			Actions:    &api.Actions{RouteAction: api.RouteAction_ROUTE_ACTION_REJECT},
		}}},
		{Name: "p2", Statements: []*api.Statement{{
			Name:       "s2",
			Conditions: &api.Conditions{Origin: api.OriginType_ORIGIN_TYPE_IGP},
			Actions: &api.Actions{
				RouteAction:  api.RouteAction_ROUTE_ACTION_ACCEPT,
				OriginAction: &api.OriginAction{Origin: api.OriginType_ORIGIN_TYPE_EGP},
			},
		}}},
	} {
		if err := s.AddPolicy(ctx, &api.AddPolicyRequest{Policy: p}); err != nil {
			t.Fatal(err)
		}
	}

	for _, name := range []string{"p1", "p2"} {
		var got []*api.Policy
		if err := s.ListPolicy(ctx, &api.ListPolicyRequest{Name: name}, func(p *api.Policy) { got = append(got, p) }); err != nil {
			t.Fatal(err)
		}
		if len(got) != 1 || len(got[0].Statements) != 1 {
			t.Fatalf("ListPolicy(%s): unexpected result %v", name, got)
		}
		if o := got[0].Statements[0].Conditions.GetOrigin(); o != api.OriginType_ORIGIN_TYPE_IGP {
			t.Errorf("ListPolicy(%s): origin condition read back as %v, configured %v", name, o, api.OriginType_ORIGIN_TYPE_IGP)
		}
	}
	for _, name := range []string{"s1", "s2"} {
		var got []*api.Statement
		if err := s.ListStatement(ctx, &api.ListStatementRequest{Name: name}, func(st *api.Statement) { got = append(got, st) }); err != nil {
			t.Fatal(err)
		}
		if len(got) != 1 {
			t.Fatalf("ListStatement(%s): unexpected result %v", name, got)
		}
		if o := got[0].Conditions.GetOrigin(); o != api.OriginType_ORIGIN_TYPE_IGP {
			t.Errorf("ListStatement(%s): origin condition read back as %v, configured %v", name, o, api.OriginType_ORIGIN_TYPE_IGP)
		}
	}
}
