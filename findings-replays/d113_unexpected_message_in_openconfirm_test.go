package server

import (
	"context"
	"io"
	"log/slog"
	"net"
	"net/netip"
	"testing"
	"time"

	"github.com/eapache/channels"
	"github.com/osrg/gobgp/v4/pkg/config/oc"
	"github.com/osrg/gobgp/v4/pkg/packet/bgp"
)

// In OpenConfirm the peer sends an UPDATE instead of the KEEPALIVE that would
// complete the handshake. RFC 4271 8.2.2 (OpenConfirm, "any other event",
// which includes Event 27 UpdateMsg) prescribes a NOTIFICATION with the Finite
// State Machine Error code (RFC 6608: subcode 2, unexpected message in
// OpenConfirm) before the connection is dropped. The connection is closed
// without any NOTIFICATION.
func TestD113UnexpectedMessageInOpenconfirm(t *testing.T) {
	local, remote := net.Pipe()
	defer remote.Close()

	f := newFSM(&oc.Global{}, &oc.Neighbor{}, bgp.BGP_FSM_OPENCONFIRM, slog.Default())
	f.conn = local
	h := &fsmHandler{
		fsm:      f,
		outgoing: channels.NewInfiniteChannel(),
		callback: func(*fsmMsg) {},
	}
	f.h = h
	defer h.outgoing.Close()

	ctx, cancel := context.WithCancel(context.Background())
	defer cancel()

	type result struct {
		state  bgp.FSMState
		reason *fsmStateReason
	}
	done := make(chan result, 1)
	go func() {
		s, r := h.openconfirm(ctx)
		done <- result{s, r}
	}()

	nlri, err := bgp.NewIPAddrPrefix(netip.MustParsePrefix("10.0.0.0/24"))
	if err != nil {
		t.Fatal(err)
	}
	nh, err := bgp.NewPathAttributeNextHop(netip.MustParseAddr("192.0.2.1"))
	if err != nil {
		t.Fatal(err)
	}
	update := bgp.NewBGPUpdateMessage(nil, []bgp.PathAttributeInterface{
		bgp.NewPathAttributeOrigin(0),
		bgp.NewPathAttributeAsPath([]bgp.AsPathParamInterface{bgp.NewAs4PathParam(bgp.BGP_ASPATH_ATTR_TYPE_SEQ, []uint32{65001})}),
		nh,
	}, []bgp.PathNLRI{{NLRI: nlri}})
	buf, err := update.Serialize()
	if err != nil {
		t.Fatal(err)
	}
	go func() { _, _ = remote.Write(buf) }()

	// read what the speaker answers: a whole message, or the error
	_ = remote.SetReadDeadline(time.Now().Add(5 * time.Second))
	var msgType, code, subcode uint8
	hdr := make([]byte, bgp.BGP_HEADER_LENGTH)
	_, rerr := io.ReadFull(remote, hdr)
	if rerr == nil {
		bh := &bgp.BGPHeader{}
		if err := bh.DecodeFromBytes(hdr); err != nil {
			t.Fatal(err)
		}
		body := make([]byte, int(bh.Len)-bgp.BGP_HEADER_LENGTH)
		if _, err := io.ReadFull(remote, body); err != nil {
			t.Fatal(err)
		}
		msgType = bh.Type
		if msgType == bgp.BGP_MSG_NOTIFICATION {
			code, subcode = body[0], body[1]
		}
	}

	select {
	case r := <-done:
		if r.state != bgp.BGP_FSM_IDLE {
			t.Errorf("next state %s, want idle", r.state)
		}
	case <-time.After(5 * time.Second):
		t.Fatal("the FSM did not leave OpenConfirm")
	}

	if rerr != nil {
		t.Fatalf("UPDATE received in OpenConfirm: the connection was dropped without a NOTIFICATION (read: %v); RFC 4271 8.2.2 / RFC 6608 prescribe FSM Error (5), subcode 2", rerr)
	}
	if msgType != bgp.BGP_MSG_NOTIFICATION {
		t.Fatalf("expected a NOTIFICATION, got message type %d", msgType)
	}
	if code != bgp.BGP_ERROR_FSM_ERROR {
		t.Fatalf("NOTIFICATION %d/%d, want FSM Error (5), subcode 2", code, subcode)
	}
	t.Logf("NOTIFICATION %d/%d", code, subcode)
}
