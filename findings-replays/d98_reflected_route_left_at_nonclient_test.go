package server

import (
	"log/slog"
	"net/netip"
	"testing"
	"time"

	"github.com/osrg/gobgp/v4/internal/pkg/table"
	"github.com/osrg/gobgp/v4/pkg/config/oc"
	"github.com/osrg/gobgp/v4/pkg/packet/bgp"
)

// The rule "not from a non-client iBGP peer to a non-client iBGP peer" in
// filterpath withdraws the route the peer was sent before only if that one was
// local or learned over eBGP. A route learned from a route reflector client
// was reflected to the non-client as well; when a route from another
// non-client becomes the best, nothing is sent and the non-client keeps the
// reflected route this router no longer uses.
func TestD98ReflectedRouteLeftAtNonclient(t *testing.T) {
	const myAS = uint32(65000)
	lg := slog.Default()
	rib := table.NewTableManager(lg, []bgp.Family{bgp.RF_IPv4_UC})
	g := &oc.Global{Config: oc.GlobalConfig{As: myAS, RouterId: netip.MustParseAddr("1.1.1.1")}}

	mk := func(address string, client bool) *peer {
		addr := netip.MustParseAddr(address)
		n := &oc.Neighbor{
			Config: oc.NeighborConfig{PeerAs: myAS, NeighborAddress: addr},
			State:  oc.NeighborState{NeighborAddress: addr, RemoteRouterId: addr},
		}
		n.RouteReflector.Config.RouteReflectorClient = client
		if err := oc.SetDefaultNeighborConfigValues(n, nil, g); err != nil {
			t.Fatal(err)
		}
		pol := table.NewRoutingPolicy(lg)
		if err := pol.Reset(&oc.RoutingPolicy{}, nil); err != nil {
			t.Fatal(err)
		}
		p := newPeer(g, n, bgp.BGP_FSM_ESTABLISHED, rib, pol, lg)
		p.fsm.familyMap.Store(map[bgp.Family]bgp.BGPAddPathMode{bgp.RF_IPv4_UC: bgp.BGP_ADD_PATH_NONE})
		local := netip.MustParseAddr("192.168.0.100")
		p.peerInfo.Store(table.NewPeerInfo(g, n, myAS, myAS, addr, g.Config.RouterId, addr, local))
		return p
	}
	update := func(p *table.Path) (best, old *table.Path) {
		dsts := rib.Update(p)
		if len(dsts) != 1 {
			t.Fatalf("expected one changed destination, got %d", len(dsts))
		}
		best, old, _ = dsts[0].GetChanges(table.GLOBAL_RIB_NAME, 0, false)
		return best, old
	}

	client := mk("192.168.0.1", true)
	nonClientA := mk("192.168.0.2", false)
	nonClientB := mk("192.168.0.3", false)
	s := NewBgpServer()

	nlri, _ := bgp.NewIPAddrPrefix(netip.MustParsePrefix("10.10.10.0/24"))
	mkpath := func(src *peer, localPref uint32) *table.Path {
		nh, _ := bgp.NewPathAttributeNextHop(netip.MustParseAddr(src.ID()))
		attrs := []bgp.PathAttributeInterface{
			bgp.NewPathAttributeOrigin(0),
			bgp.NewPathAttributeAsPath([]bgp.AsPathParamInterface{bgp.NewAs4PathParam(bgp.BGP_ASPATH_ATTR_TYPE_SEQ, []uint32{65010})}),
			nh,
			bgp.NewPathAttributeLocalPref(localPref),
		}
		return table.NewPath(bgp.RF_IPv4_UC, src.peerInfo.Load(), bgp.PathNLRI{NLRI: nlri}, false, attrs, time.Now(), false)
	}

	// the client's route is reflected to non-client B
	fromClient := mkpath(client, 100)
	best, old := update(fromClient)
	sent := s.filterpath(nonClientB, best, old)
	if sent == nil || sent.IsWithdraw {
		t.Fatalf("the client's route must be reflected to the non-client, got %v", sent)
	}

	// a better route for the prefix arrives from non-client A
	fromA := mkpath(nonClientA, 200)
	best, old = update(fromA)
	if best != fromA || old != fromClient {
		t.Fatalf("unexpected best/old: %v %v", best, old)
	}
	out := s.filterpath(nonClientB, best, old)
	if out != nil && !out.IsWithdraw {
		t.Fatalf("a route of a non-client must not be sent to a non-client, got %v", out)
	}
	if out == nil {
		t.Fatalf("non-client B was sent the client's route; it is no longer the best and the new best cannot be sent to B: a withdrawal is expected, nothing is sent and B keeps the stale route")
	}
}
