package server

import (
	"io"
	"log/slog"
	"net"
	"testing"

	"github.com/osrg/gobgp/v4/internal/pkg/table"
	"github.com/osrg/gobgp/v4/pkg/packet/bgp"
)

// D65 (C16): disabling (hard-resetting) a cache flushes the records that cache announced. The records carry the
// cache's "address:port"; roaManager.Disable asked the table to drop the records of the bare address.
func TestD65RpkiDisableFlush(t *testing.T) {
	logger := slog.New(slog.NewTextHandler(io.Discard, nil))
	tbl := table.NewROATable(logger)
	m := newROAManager(tbl, logger)
	host := net.JoinHostPort("192.0.2.10", "323")
	m.clientMap[host] = newRoaClient("192.0.2.10", "323", m.eventCh, 3600)
	tbl.Add(table.NewROA(bgp.AFI_IP, net.ParseIP("10.0.0.0").To4(), 8, 8, 65001, host))
	if l, _ := tbl.List(bgp.RF_IPv4_UC); len(l) != 1 {
		n := len(l)
		t.Fatalf("setup: %d records", n)
	}
	if err := m.Disable("192.0.2.10"); err != nil {
		t.Fatal(err)
	}
	if l, _ := tbl.List(bgp.RF_IPv4_UC); len(l) != 0 {
		n := len(l)
		t.Fatalf("the cache was disabled but %d of its records are still in the table", n)
	}
}
