package server

import (
	"io"
	"log/slog"
	"net/netip"
	"testing"
	"time"

	"github.com/osrg/gobgp/v4/internal/pkg/table"
	"github.com/osrg/gobgp/v4/pkg/config/oc"
	"github.com/osrg/gobgp/v4/pkg/packet/bgp"
)

// A dynamic neighbour (created from a peer group when a connection comes in) has no configured
// neighbour address: the address it is known by lives in its state only. When such a neighbour is
// administratively down and its FSM reports a state change, the server clears its operational
// state - and with it the address: the neighbour then reports "invalid IP" as its identity, and the
// next stopNeighbor (StopBgp, DeleteDynamicNeighbor, session teardown) panics in MustParseAddr.
func TestD87DisableDynamicNeighbour(t *testing.T) {
	logger := slog.New(slog.NewTextHandler(io.Discard, nil))
	s := &BgpServer{
		shared:      newSharedData(),
		neighborMap: make(map[netip.Addr]*peer),
		logger:      logger,
	}
	s.globalRib = table.NewTableManager(logger, []bgp.Family{bgp.RF_IPv4_UC})
	s.rsRib = table.NewTableManager(logger, []bgp.Family{bgp.RF_IPv4_UC})
	s.policy = table.NewRoutingPolicy(logger)
	s.bgpConfig.Global.Config.As = 65000
	s.bgpConfig.Global.Config.RouterId = netip.MustParseAddr("192.0.2.254")

	gConf := &oc.Global{Config: oc.GlobalConfig{As: 65000, RouterId: netip.MustParseAddr("192.0.2.254")}}
	pg := &oc.PeerGroup{Config: oc.PeerGroupConfig{PeerGroupName: "dyn", PeerAs: 65001}}
	p := newDynamicPeer(gConf, "10.0.0.9", pg, s.globalRib, s.policy, logger)
	if p == nil {
		t.Fatal("test setup: dynamic peer not created")
	}
	addr := netip.MustParseAddr("10.0.0.9")
	s.neighborMap[addr] = p
	if p.ID() != "10.0.0.9" {
		t.Fatalf("test setup: dynamic peer is known as %q", p.ID())
	}

	// the operator disables the neighbour; its FSM falls back to IDLE
	p.fsm.adminState.Store(adminStateDown)
	reason := newfsmStateReason(fsmAdminDown, nil, nil)
	s.handleFSMMessage(p, &fsmMsg{
		MsgType:     fsmMsgStateChange,
		MsgData:     bgp.BGP_FSM_IDLE,
		StateReason: reason,
		timestamp:   time.Now(),
	})

	if got := p.ID(); got != "10.0.0.9" {
		t.Fatalf("after the state change of the disabled dynamic neighbour its identity is %q, want 10.0.0.9", got)
	}
	// stopNeighbor (StopBgp, DeleteDynamicNeighbor, session teardown) parses it
	if _, err := netip.ParseAddr(p.ID()); err != nil {
		t.Fatalf("the neighbour's identity no longer parses: %v", err)
	}
}
