package table

import (
	"fmt"
	"log/slog"
	"net/netip"
	"os"
	"testing"
	"time"

	"github.com/osrg/gobgp/v4/pkg/config/oc"
	"github.com/osrg/gobgp/v4/pkg/packet/bgp"
)

// Routes learned from a peer without the 4-octet AS capability and
// re-advertised to an iBGP peer: the receive path (UpdatePathAttrs4ByteAs)
// widens the AS_PATH segments to 4-octet ASNs IN PLACE without refreshing the
// attribute's Length, so PathAttribute.Len() - which the packers use as the
// attribute budget - is 2 octets per ASN too small. The packer then fills
// UPDATEs beyond 4096 octets, the sender cannot serialize them and drops the
// whole message, i.e. hundreds of routes that fit easily on their own.
func TestD21AsPathLenAfterWidening(t *testing.T) {
	logger := slog.New(slog.NewTextHandler(os.Stderr, &slog.HandlerOptions{Level: slog.LevelError}))

	// --- what the 2-octet AS eBGP peer puts on the wire ----------------------
	asns := make([]uint16, 20)
	for i := range asns {
		asns[i] = uint16(64600 + i)
	}
	nexthop, _ := bgp.NewPathAttributeNextHop(netip.MustParseAddr("192.0.2.1"))
	const perUpdate, updates = 500, 2
	from2ByteASPeer := &PeerInfo{AS: 64600, LocalAS: 65000, ID: netip.MustParseAddr("192.0.2.1"), Address: netip.MustParseAddr("192.0.2.1")}

	var learned []*Path
	for u := 0; u < updates; u++ {
		nlris := make([]bgp.PathNLRI, 0, perUpdate)
		for i := 0; i < perUpdate; i++ {
			n, _ := bgp.NewIPAddrPrefix(netip.MustParsePrefix(fmt.Sprintf("10.%d.%d.%d/32", u, i/256, i%256)))
			nlris = append(nlris, bgp.PathNLRI{NLRI: n})
		}
		wire, err := bgp.NewBGPUpdateMessage(nil, []bgp.PathAttributeInterface{
			bgp.NewPathAttributeOrigin(0),
			bgp.NewPathAttributeAsPath([]bgp.AsPathParamInterface{bgp.NewAsPathParam(bgp.BGP_ASPATH_ATTR_TYPE_SEQ, asns)}),
			nexthop,
		}, nlris).Serialize()
		if err != nil {
			t.Fatal(err)
		}
		if len(wire) > bgp.BGP_MAX_MESSAGE_LENGTH {
			t.Fatalf("test bug: received update is %d octets", len(wire))
		}

		// --- the receive path of pkg/server (recvMessageWithError/recvMessageloop/peer.handleUpdate)
		m, err := bgp.ParseBGPMessage(wire, &bgp.MarshallingOption{Use2ByteAS: true})
		if err != nil {
			t.Fatal(err)
		}
		body := m.Body.(*bgp.BGPUpdate)
		UpdatePathAttrs4ByteAs(logger, body)
		if err := UpdatePathAggregator4ByteAs(body); err != nil {
			t.Fatal(err)
		}
		learned = append(learned, ProcessMessage(m, from2ByteASPeer, time.Now(), false)...)
	}
	if len(learned) != perUpdate*updates {
		t.Fatalf("learned %d paths", len(learned))
	}

	// --- the send path towards an ordinary iBGP peer (4-octet AS, no extended message)
	global := &oc.Global{Config: oc.GlobalConfig{As: 65000, RouterId: netip.MustParseAddr("10.255.0.1")}}
	ibgp := &PeerInfo{AS: 65000, LocalAS: 65000, PeerType: oc.PEER_TYPE_INTERNAL,
		ID: netip.MustParseAddr("10.255.0.2"), Address: netip.MustParseAddr("10.255.0.2"), LocalAddress: netip.MustParseAddr("10.255.0.1")}
	out := make([]*Path, 0, len(learned))
	for _, p := range learned {
		out = append(out, UpdatePathAttrs(logger, global, ibgp, p))
	}

	// every route fits a 4096-octet UPDATE on its own
	for _, m := range CreateUpdateMsgFromPaths(out[:1]) {
		b, err := m.Serialize()
		if err != nil {
			t.Fatalf("a single route must fit: %v", err)
		}
		t.Logf("a single-route UPDATE is %d octets", len(b))
	}

	delivered := 0
	for _, m := range CreateUpdateMsgFromPaths(out) {
		// exactly what fsmHandler.sendMessageloop's send() does
		b, err := m.Serialize(&bgp.MarshallingOption{})
		n := len(m.Body.(*bgp.BGPUpdate).NLRI)
		if err != nil {
			t.Errorf("UPDATE with %d routes cannot be sent and is dropped by the sender: %v", n, err)
			continue
		}
		if len(b) > bgp.BGP_MAX_MESSAGE_LENGTH {
			t.Errorf("UPDATE is %d octets", len(b))
		}
		delivered += n
	}
	if delivered != len(out) {
		t.Fatalf("only %d of %d routes reach the iBGP peer", delivered, len(out))
	}
}
