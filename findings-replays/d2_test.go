package table

import (
	"testing"

	"github.com/osrg/gobgp/v4/pkg/packet/bgp"
)

func d2Len(msg *bgp.BGPUpdate) (int, int) {
	n, empty := 0, 0
	for _, a := range msg.PathAttributes {
		if p, ok := a.(*bgp.PathAttributeAsPath); ok {
			for _, s := range p.Value {
				n += s.ASLen()
				if len(s.GetAS()) == 0 {
					empty++
				}
			}
		}
	}
	return n, empty
}

// D2a: AS4_PATH (3 hops) longer than AS_PATH (1 hop, confederation segments do not count) must be ignored
func TestD2a(t *testing.T) {
	aspath := bgp.NewPathAttributeAsPath([]bgp.AsPathParamInterface{
		bgp.NewAsPathParam(bgp.BGP_ASPATH_ATTR_TYPE_CONFED_SEQ, []uint16{65001, 65002}),
		bgp.NewAsPathParam(bgp.BGP_ASPATH_ATTR_TYPE_SEQ, []uint16{100}),
	})
	as4path := bgp.NewPathAttributeAs4Path([]*bgp.As4PathParam{bgp.NewAs4PathParam(bgp.BGP_ASPATH_ATTR_TYPE_SEQ, []uint32{70000, 70001, 70002})})
	msg := bgp.NewBGPUpdateMessage(nil, []bgp.PathAttributeInterface{aspath, as4path}, nil).Body.(*bgp.BGPUpdate)
	before, _ := d2Len(msg)
	UpdatePathAttrs4ByteAs(logger, msg)
	after, _ := d2Len(msg)
	if after > before {
		t.Fatalf("path lengthened: %d -> %d: %v", before, after, msg.PathAttributes[0])
	}
}

// D2b: nothing to keep from AS_PATH and AS4_PATH starts with a SET: a leading empty segment is produced
func TestD2b(t *testing.T) {
	aspath := bgp.NewPathAttributeAsPath([]bgp.AsPathParamInterface{
		bgp.NewAsPathParam(bgp.BGP_ASPATH_ATTR_TYPE_SEQ, []uint16{bgp.AS_TRANS, bgp.AS_TRANS}),
	})
	as4path := bgp.NewPathAttributeAs4Path([]*bgp.As4PathParam{
		bgp.NewAs4PathParam(bgp.BGP_ASPATH_ATTR_TYPE_SET, []uint32{70000}),
		bgp.NewAs4PathParam(bgp.BGP_ASPATH_ATTR_TYPE_SEQ, []uint32{70001}),
	})
	msg := bgp.NewBGPUpdateMessage(nil, []bgp.PathAttributeInterface{aspath, as4path}, nil).Body.(*bgp.BGPUpdate)
	UpdatePathAttrs4ByteAs(logger, msg)
	_, empty := d2Len(msg)
	if empty > 0 {
		t.Fatalf("empty segment produced: %v", msg.PathAttributes[0])
	}
}
