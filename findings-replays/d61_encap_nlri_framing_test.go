package table

import (
	"fmt"
	"net/netip"
	"testing"
	"time"

	"github.com/osrg/gobgp/v4/pkg/packet/bgp"
)

// Encapsulation SAFI (RFC 5512) routes that share their attributes are packed
// into one MP_REACH_NLRI (withdrawals into one MP_UNREACH_NLRI), which is what
// the format is for: every NLRI carries its own length. EncapNLRI's decoder
// however takes "the rest of the attribute" as the end point address instead
// of the 4 or 16 octets the length octet announces. With a second NLRI behind
// the first the address is invalid, Len() returns 1, and the next NLRI is
// decoded from the middle of the first: the UPDATE the packer has produced is
// rejected as malformed by the receiving gobgp (a session reset / family
// disable for the peer) instead of installing the routes.
func TestD61EncapNlriFraming(t *testing.T) {
	attrs := []bgp.PathAttributeInterface{
		bgp.NewPathAttributeOrigin(0),
		bgp.NewPathAttributeAsPath([]bgp.AsPathParamInterface{bgp.NewAs4PathParam(bgp.BGP_ASPATH_ATTR_TYPE_SEQ, []uint32{65001})}),
	}
	src := &PeerInfo{AS: 65001, LocalAS: 65000, Address: netip.MustParseAddr("192.0.2.1")}

	for _, tc := range []struct {
		family   bgp.Family
		endpoint string
		nexthop  string
	}{
		{bgp.RF_IPv4_ENCAP, "10.0.0.%d", "192.0.2.1"},
		{bgp.RF_IPv6_ENCAP, "2001:db8::%d", "2001:db8:ffff::1"},
	} {
		for _, withdraw := range []bool{false, true} {
			name := fmt.Sprintf("%s withdraw=%v", tc.family, withdraw)
			const nr = 3
			want := map[string]bool{}
			paths := make([]*Path, 0, nr)
			for i := range nr {
				n, err := bgp.NewEncapNLRI(netip.MustParseAddr(fmt.Sprintf(tc.endpoint, i+1)))
				if err != nil {
					t.Fatal(err)
				}
				mp, _ := bgp.NewPathAttributeMpReachNLRI(tc.family, []bgp.PathNLRI{{NLRI: n}}, netip.MustParseAddr(tc.nexthop))
				a := append(append([]bgp.PathAttributeInterface{}, attrs...), mp)
				paths = append(paths, NewPath(tc.family, src, bgp.PathNLRI{NLRI: n}, withdraw, a, time.Now(), false))
				want[n.String()] = true
			}

			got := map[string]bool{}
			for _, m := range CreateUpdateMsgFromPaths(paths) {
				b, err := m.Serialize()
				if err != nil {
					t.Fatalf("%s: %v", name, err)
				}
				if len(b) > bgp.BGP_MAX_MESSAGE_LENGTH {
					t.Fatalf("%s: %d octets", name, len(b))
				}
				pm, err := bgp.ParseBGPMessage(b)
				if err != nil {
					t.Errorf("%s: the receiver rejects the UPDATE built for %d routes: %v", name, nr, err)
					continue
				}
				for _, p := range ProcessMessage(pm, src, time.Now(), false) {
					if p.IsWithdraw != withdraw {
						t.Errorf("%s: %s arrives with withdraw=%v", name, p.GetNlri(), p.IsWithdraw)
					}
					got[p.GetNlri().String()] = true
				}
			}
			for k := range want {
				if !got[k] {
					t.Errorf("%s: %s does not reach the receiver", name, k)
				}
			}
			for k := range got {
				if !want[k] {
					t.Errorf("%s: the receiver sees %s, which was never sent", name, k)
				}
			}
		}
	}
}
