package table

import (
	"fmt"
	"log/slog"
	"net/netip"
	"testing"
	"time"

	"github.com/osrg/gobgp/v4/pkg/config/oc"
	"github.com/osrg/gobgp/v4/pkg/packet/bgp"
)

// An export policy with an as-path-prepend action is applied after
// UpdatePathAttrs (see BgpServer.filterpath). Path.PrependAsn grows the
// AS_PATH segments after the attribute has been constructed and leaves the
// attribute's Length field as it was, so PathAttribute.Len() - which the
// packers use to size the messages - is too small by 4 octets per prepended
// AS. Every full UPDATE then exceeds 4096 octets, fails to serialise in
// fsm.sendMessageloop and is dropped with all its prefixes, although each of
// those routes fits an UPDATE of its own easily.
func TestD60PrependStaleLength(t *testing.T) {
	global := &oc.Global{Config: oc.GlobalConfig{As: 65000, RouterId: netip.MustParseAddr("10.0.0.1")}}
	peer := &PeerInfo{
		AS:           65200,
		LocalAS:      65000,
		PeerType:     oc.PEER_TYPE_EXTERNAL,
		LocalAddress: netip.MustParseAddr("10.0.0.1"),
		Address:      netip.MustParseAddr("10.0.0.9"),
	}
	src := &PeerInfo{AS: 65100, LocalAS: 65000, Address: netip.MustParseAddr("10.0.0.2")}
	prepend := &AsPathPrependAction{asn: 65000, repeat: 3}

	export := func(p *Path) *Path {
		// the order of BgpServer.filterpath: UpdatePathAttrs, then the export policy
		p = UpdatePathAttrs(slog.Default(), global, peer, p)
		p, err := prepend.Apply(p, &PolicyOptions{Info: peer})
		if err != nil {
			t.Fatal(err)
		}
		return p
	}

	const nr = 3000
	base := []bgp.PathAttributeInterface{
		bgp.NewPathAttributeOrigin(0),
		bgp.NewPathAttributeAsPath([]bgp.AsPathParamInterface{bgp.NewAs4PathParam(bgp.BGP_ASPATH_ATTR_TYPE_SEQ, []uint32{65100})}),
	}

	// IPv4 unicast, host routes
	nh, _ := bgp.NewPathAttributeNextHop(netip.MustParseAddr("10.0.0.2"))
	v4attrs := append(append([]bgp.PathAttributeInterface{}, base...), nh)
	v4 := make([]*Path, 0, nr)
	for i := range nr {
		n, _ := bgp.NewIPAddrPrefix(netip.MustParsePrefix(fmt.Sprintf("20.0.%d.%d/32", i>>8, i&255)))
		v4 = append(v4, export(NewPath(bgp.RF_IPv4_UC, src, bgp.PathNLRI{NLRI: n}, false, v4attrs, time.Now(), false)))
	}

	// IPv6 unicast, /64s
	v6 := make([]*Path, 0, nr)
	for i := range nr {
		n, _ := bgp.NewIPAddrPrefix(netip.MustParsePrefix(fmt.Sprintf("2001:db8:0:%x::/64", i)))
		mp, _ := bgp.NewPathAttributeMpReachNLRI(bgp.RF_IPv6_UC, []bgp.PathNLRI{{NLRI: n}}, netip.MustParseAddr("2001:db8::2"))
		attrs := append(append([]bgp.PathAttributeInterface{}, base...), mp)
		v6 = append(v6, export(NewPath(bgp.RF_IPv6_UC, src, bgp.PathNLRI{NLRI: n}, false, attrs, time.Now(), false)))
	}

	for name, paths := range map[string][]*Path{"ipv4": v4, "ipv6": v6} {
		// every route on its own fits easily
		for _, m := range CreateUpdateMsgFromPaths(paths[:1]) {
			if b, err := m.Serialize(); err != nil || len(b) > 100 {
				t.Fatalf("%s: single route: %d octets, %v", name, len(b), err)
			}
		}
		sent := 0
		for _, m := range CreateUpdateMsgFromPaths(paths) {
			// what fsm.sendMessageloop does with every message
			b, err := m.Serialize(&bgp.MarshallingOption{})
			u := m.Body.(*bgp.BGPUpdate)
			n := len(u.NLRI)
			for _, a := range u.PathAttributes {
				if r, ok := a.(*bgp.PathAttributeMpReachNLRI); ok {
					n += len(r.Value)
				}
			}
			if err != nil {
				t.Errorf("%s: an UPDATE with %d prefixes is dropped by the sender: %v", name, n, err)
				continue
			}
			if len(b) > bgp.BGP_MAX_MESSAGE_LENGTH {
				t.Errorf("%s: UPDATE of %d octets", name, len(b))
			}
			sent += n
		}
		if sent != nr {
			t.Errorf("%s: %d of %d routes reach the peer", name, sent, nr)
		}
	}
}
