package table

import (
	"net/netip"
	"testing"
	"time"

	"github.com/osrg/gobgp/v4/pkg/config/oc"
	"github.com/osrg/gobgp/v4/pkg/packet/bgp"
)

// An ext-community "add" action is configured with values that do not fit the
// field they are parsed into. The action must either be refused or set exactly
// the configured community; instead a different community is attached to the
// route (and read back from the action).
func TestD109ExtCommunityTextOutOfRange(t *testing.T) {
	peer := &PeerInfo{AS: 65001, LocalAS: 65000, Address: netip.MustParseAddr("10.0.0.1")}
	nh, _ := bgp.NewPathAttributeNextHop(netip.MustParseAddr("10.0.0.1"))
	nlri, _ := bgp.NewIPAddrPrefix(netip.MustParsePrefix("10.10.1.0/24"))

	for _, tc := range []struct {
		in string
		ok func(bgp.ExtendedCommunityInterface) bool
	}{
		{
			// 4-octet AS 100000 written as a plain number
			in: "rt:100000:5",
			ok: func(e bgp.ExtendedCommunityInterface) bool {
				v, y := e.(*bgp.FourOctetAsSpecificExtended)
				return y && v.AS == 100000 && v.LocalAdmin == 5
			},
		},
		{
			// the local administrator of an IPv4-address-specific community has 16 bits
			in: "rt:1.2.3.4:70000",
			ok: func(bgp.ExtendedCommunityInterface) bool { return false },
		},
		{
			// the local administrator of a 2-octet-AS-specific community has 32 bits
			in: "soo:65000:4294967296",
			ok: func(bgp.ExtendedCommunityInterface) bool { return false },
		},
	} {
		a, err := NewExtCommunityAction(oc.SetExtCommunity{
			Options:               "add",
			SetExtCommunityMethod: oc.SetExtCommunityMethod{CommunitiesList: []string{tc.in}},
		})
		if err != nil {
			continue // refusing the value is fine
		}
		attrs := []bgp.PathAttributeInterface{
			bgp.NewPathAttributeOrigin(0),
			bgp.NewPathAttributeAsPath([]bgp.AsPathParamInterface{bgp.NewAs4PathParam(bgp.BGP_ASPATH_ATTR_TYPE_SEQ, []uint32{65001})}),
			nh,
		}
		path := NewPath(bgp.RF_IPv4_UC, peer, bgp.PathNLRI{NLRI: nlri}, false, attrs, time.Now(), false)
		st := &Statement{Name: "s", ModActions: []Action{a}, RouteAction: &RoutingAction{AcceptRoute: true}}
		_, after := st.Apply(nil, path, nil)
		got := after.GetExtCommunities()
		if len(got) != 1 || !tc.ok(got[0]) {
			t.Errorf("action configured with %q was accepted, attaches %v to the route and reads back as %v",
				tc.in, got, a.ToConfig().SetExtCommunityMethod.CommunitiesList)
		}
	}
}
