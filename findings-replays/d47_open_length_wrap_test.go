package server

import (
	"net/netip"
	"testing"

	"github.com/osrg/gobgp/v4/pkg/config/oc"
	"github.com/osrg/gobgp/v4/pkg/packet/bgp"
)

// The OPEN that buildopen() produces must announce exactly the configured
// address families (C08: "the OPEN sent reflects the configuration").
//
// buildopen() puts every capability into ONE optional parameter, and both
// OptionParameterCapability.Serialize (ParamLen) and BGPOpen.Serialize
// (OptParamLen) store the length with uint8(len(...)). As soon as the
// capabilities of a neighbour exceed 255 octets the two length octets wrap
// around and the OPEN on the wire is malformed / truncated.
func TestD47OpenLengthWrap(t *testing.T) {
	mk := func(names []oc.AfiSafiType, gr bool) *oc.Neighbor {
		n := &oc.Neighbor{
			Config: oc.NeighborConfig{
				NeighborAddress: netip.MustParseAddr("192.0.2.1"),
				PeerAs:          65001,
			},
		}
		for _, name := range names {
			af := oc.AfiSafi{Config: oc.AfiSafiConfig{AfiSafiName: name, Enabled: true}}
			if gr {
				af.MpGracefulRestart.Config.Enabled = true
				af.LongLivedGracefulRestart.Config.Enabled = true
				af.LongLivedGracefulRestart.Config.RestartTime = 3600
				af.AddPaths.Config.Receive = true
			}
			n.AfiSafis = append(n.AfiSafis, af)
		}
		if gr {
			n.GracefulRestart.Config.Enabled = true
			n.GracefulRestart.Config.LongLivedEnabled = true
		}
		return n
	}

	cases := map[string]*oc.Neighbor{
		// 10 families with graceful restart, LLGR and add-path receive
		"10 families, GR+LLGR+add-path": mk([]oc.AfiSafiType{
			oc.AFI_SAFI_TYPE_IPV4_UNICAST,
			oc.AFI_SAFI_TYPE_IPV6_UNICAST,
			oc.AFI_SAFI_TYPE_IPV4_LABELLED_UNICAST,
			oc.AFI_SAFI_TYPE_IPV6_LABELLED_UNICAST,
			oc.AFI_SAFI_TYPE_L3VPN_IPV4_UNICAST,
			oc.AFI_SAFI_TYPE_L3VPN_IPV6_UNICAST,
			oc.AFI_SAFI_TYPE_L2VPN_EVPN,
			oc.AFI_SAFI_TYPE_RTC,
			oc.AFI_SAFI_TYPE_IPV4_FLOWSPEC,
			oc.AFI_SAFI_TYPE_IPV6_FLOWSPEC,
		}, true),
		// 24 plain families, nothing else enabled
		"24 plain families": mk([]oc.AfiSafiType{
			oc.AFI_SAFI_TYPE_IPV4_UNICAST,
			oc.AFI_SAFI_TYPE_IPV6_UNICAST,
			oc.AFI_SAFI_TYPE_IPV4_LABELLED_UNICAST,
			oc.AFI_SAFI_TYPE_IPV6_LABELLED_UNICAST,
			oc.AFI_SAFI_TYPE_L3VPN_IPV4_UNICAST,
			oc.AFI_SAFI_TYPE_L3VPN_IPV6_UNICAST,
			oc.AFI_SAFI_TYPE_L3VPN_IPV4_MULTICAST,
			oc.AFI_SAFI_TYPE_L3VPN_IPV6_MULTICAST,
			oc.AFI_SAFI_TYPE_L2VPN_VPLS,
			oc.AFI_SAFI_TYPE_L2VPN_EVPN,
			oc.AFI_SAFI_TYPE_IPV4_MULTICAST,
			oc.AFI_SAFI_TYPE_IPV6_MULTICAST,
			oc.AFI_SAFI_TYPE_RTC,
			oc.AFI_SAFI_TYPE_IPV4_ENCAP,
			oc.AFI_SAFI_TYPE_IPV6_ENCAP,
			oc.AFI_SAFI_TYPE_IPV4_FLOWSPEC,
			oc.AFI_SAFI_TYPE_L3VPN_IPV4_FLOWSPEC,
			oc.AFI_SAFI_TYPE_IPV6_FLOWSPEC,
			oc.AFI_SAFI_TYPE_L3VPN_IPV6_FLOWSPEC,
			oc.AFI_SAFI_TYPE_L2VPN_FLOWSPEC,
			oc.AFI_SAFI_TYPE_IPV4_SRPOLICY,
			oc.AFI_SAFI_TYPE_IPV6_SRPOLICY,
			oc.AFI_SAFI_TYPE_LS,
			oc.AFI_SAFI_TYPE_IPV4_MUP,
		}, false),
	}

	for name, n := range cases {
		t.Run(name, func(t *testing.T) {
			g := &oc.Global{Config: oc.GlobalConfig{As: 65000, RouterId: netip.MustParseAddr("10.0.0.1")}}
			if err := oc.SetDefaultNeighborConfigValues(n, nil, g); err != nil {
				t.Fatalf("the configuration is accepted by gobgp, but: %v", err)
			}

			want := map[bgp.Family]bool{}
			for _, af := range n.AfiSafis {
				want[af.State.Family] = true
			}

			wire, err := buildopen(g, n).Serialize()
			if err != nil {
				// refusing to build an OPEN that cannot carry the configuration is fine (RFC 9072 is not
				// implemented); sending one whose length octets wrapped is not
				t.Logf("serialize refused: %v", err)
				return
			}

			// what the peer sees
			m, err := bgp.ParseBGPMessage(wire)
			if err != nil {
				t.Fatalf("the OPEN gobgp sends for this configuration cannot be parsed: %v", err)
			}
			open := m.Body.(*bgp.BGPOpen)

			// the Optional Parameters Length octet must cover the whole rest of the message
			if got, rest := int(open.OptParamLen), len(wire)-bgp.BGP_HEADER_LENGTH-10; got != rest {
				t.Errorf("Opt Parm Len says %d, but %d octets of optional parameters follow", got, rest)
			}

			got := map[bgp.Family]bool{}
			for _, p := range open.OptParams {
				if c, ok := p.(*bgp.OptionParameterCapability); ok {
					for _, cc := range c.Capability {
						if mp, ok := cc.(*bgp.CapMultiProtocol); ok {
							got[mp.CapValue] = true
						}
					}
				}
			}
			for f := range want {
				if !got[f] {
					t.Errorf("family %s is configured but not announced in the OPEN the peer sees", f)
				}
			}
			_, fourOctet := open2CapCodes(open)[bgp.BGP_CAP_FOUR_OCTET_AS_NUMBER]
			if !fourOctet {
				t.Errorf("4-octet AS capability is missing from the OPEN the peer sees")
			}
		})
	}
}

func open2CapCodes(open *bgp.BGPOpen) map[bgp.BGPCapabilityCode]bool {
	r := map[bgp.BGPCapabilityCode]bool{}
	for _, p := range open.OptParams {
		if c, ok := p.(*bgp.OptionParameterCapability); ok {
			for _, cc := range c.Capability {
				r[cc.Code()] = true
			}
		}
	}
	return r
}
