package server

import (
	"context"
	"net/netip"
	"testing"
	"time"

	"github.com/osrg/gobgp/v4/api"
	"github.com/osrg/gobgp/v4/internal/pkg/table"
	"github.com/osrg/gobgp/v4/pkg/packet/bgp"
)

// Two CE neighbours A and B are attached to the same VRF and both announce
// 10.0.0.0/24. A's path is the best one, so it is re-advertised to B as the
// plain route 10.0.0.0/24. When A withdraws, B's own path becomes the best one;
// B must now be told to drop the plain route it learnt (via A). What the server
// queues for B is a withdrawal in the VPN family (RD:10.0.0.0/24), a family the
// VRF neighbour has never negotiated, so the plain route stays at B.
func TestD77VrfNeighbourWithdrawalFamily(t *testing.T) {
	ctx := context.Background()
	s := NewBgpServer()
	go s.Serve()
	if err := s.StartBgp(ctx, &api.StartBgpRequest{
		Global: &api.Global{Asn: 65001, RouterId: "1.1.1.1", ListenPort: -1},
	}); err != nil {
		t.Fatal(err)
	}
	addVrf(t, s, "vrf1", "65001:100", []string{"65001:100"}, []string{"65001:100"}, 1)

	mkPeer := func(as uint32, addr string) *peer {
		p := newPeerandInfo(t, 65001, as, addr, s.globalRib)
		p.policy = s.policy
		p.fsm.state.Store(bgp.BGP_FSM_ESTABLISHED)
		p.fsm.familyMap.Store(map[bgp.Family]bgp.BGPAddPathMode{bgp.RF_IPv4_UC: bgp.BGP_ADD_PATH_NONE})
		p.fsm.lock.Lock()
		conf := p.fsm.pConf.ReadCopy()
		conf.Config.Vrf = "vrf1"
		conf.State.Vrf = "vrf1"
		p.fsm.pConf.Update(&conf)
		p.fsm.lock.Unlock()
		return p
	}
	a := mkPeer(65002, "10.0.0.1")
	b := mkPeer(65003, "10.0.0.2")
	if err := s.mgmtOperation(func() error {
		s.neighborMap[netip.MustParseAddr("10.0.0.1")] = a
		s.neighborMap[netip.MustParseAddr("10.0.0.2")] = b
		return nil
	}, true); err != nil {
		t.Fatal(err)
	}
	t.Cleanup(func() {
		_ = s.mgmtOperation(func() error {
			delete(s.neighborMap, netip.MustParseAddr("10.0.0.1"))
			delete(s.neighborMap, netip.MustParseAddr("10.0.0.2"))
			return nil
		}, false)
		cleanInfiniteChannel(a.fsm.outgoingCh)
		cleanInfiniteChannel(b.fsm.outgoingCh)
		_ = s.StopBgp(ctx, &api.StopBgpRequest{})
	})

	mkPath := func(p *peer, asPath []uint32, withdraw bool) *table.Path {
		nlri, _ := bgp.NewIPAddrPrefix(netip.MustParsePrefix("10.0.0.0/24"))
		nh, _ := bgp.NewPathAttributeNextHop(netip.MustParseAddr(p.ID()))
		return table.NewPath(bgp.RF_IPv4_UC, p.peerInfo.Load(), bgp.PathNLRI{NLRI: nlri}, withdraw, []bgp.PathAttributeInterface{
			bgp.NewPathAttributeOrigin(0),
			bgp.NewPathAttributeAsPath([]bgp.AsPathParamInterface{bgp.NewAs4PathParam(2, asPath)}),
			nh,
		}, time.Now(), false)
	}
	recv := func(p *peer) []*table.Path {
		var got []*table.Path
		for {
			select {
			case o := <-p.fsm.outgoingCh.Out():
				got = append(got, o.(*fsmOutgoingMsg).Paths...)
			case <-time.After(200 * time.Millisecond):
				return got
			}
		}
	}

	// A announces: B receives the plain route.
	if err := s.mgmtOperation(func() error {
		s.propagateUpdate(a, []*table.Path{mkPath(a, []uint32{65002}, false)})
		return nil
	}, true); err != nil {
		t.Fatal(err)
	}
	got := recv(b)
	if len(got) != 1 || got[0].IsWithdraw || got[0].GetFamily() != bgp.RF_IPv4_UC || got[0].GetPrefix() != "10.0.0.0/24" {
		t.Fatalf("setup: B should have received plain 10.0.0.0/24, got %v", got)
	}
	// B announces a worse path for the same prefix: nothing changes for B.
	if err := s.mgmtOperation(func() error {
		s.propagateUpdate(b, []*table.Path{mkPath(b, []uint32{65003, 65010, 65011}, false)})
		return nil
	}, true); err != nil {
		t.Fatal(err)
	}
	if got := recv(b); len(got) != 0 {
		t.Fatalf("setup: nothing expected for B, got %v", got)
	}
	recv(a)

	// A withdraws: B's own path is the best one now, B has to withdraw the
	// plain route it holds.
	if err := s.mgmtOperation(func() error {
		s.propagateUpdate(a, []*table.Path{mkPath(a, []uint32{65002}, true)})
		return nil
	}, true); err != nil {
		t.Fatal(err)
	}
	got = recv(b)
	if len(got) != 1 || !got[0].IsWithdraw {
		t.Fatalf("B should have received exactly one withdrawal, got %v", got)
	}
	if f := got[0].GetFamily(); f != bgp.RF_IPv4_UC {
		t.Fatalf("withdrawal queued for the VRF neighbour is in family %s (nlri %s); the neighbour only speaks %s and holds the plain route 10.0.0.0/24, which is never withdrawn",
			f, got[0].GetNlri(), bgp.RF_IPv4_UC)
	}
	if got[0].GetPrefix() != "10.0.0.0/24" {
		t.Fatalf("withdrawal for wrong prefix %s", got[0].GetPrefix())
	}
}
