package bgp

import (
	"encoding/binary"
	"testing"
)

// A VPLS (AFI 25 / SAFI 65) NLRI whose length field is 12 (the RFC 6074
// BGP-AD form) is accepted by VPLSNLRI.decodeFromBytes without decoding
// anything, so the NLRI is returned with a nil route distinguisher.  When
// more bytes follow it in the MP_REACH_NLRI (so that the fixed Len() of 19
// fits), the whole UPDATE parses WITHOUT error, and the returned message
// panics when it is re-serialised.
func TestD25VplsBgpAd(t *testing.T) {
	// one NLRI: length=12, 12 bytes of BGP-AD body, then 5 more bytes so
	// that the 19 bytes VPLSNLRI.Len() claims are available.
	nlri := []byte{0x00, 0x0c,
		0x00, 0x00, 0xfd, 0xe9, 0x00, 0x00, 0x00, 0x68, // RD 65001:104
		0xc0, 0x00, 0x02, 0x07, // VSI-ID
		0x00, 0x00, 0x00, 0x00, 0x00, // padding / what Len() over-counts
	}
	mp := []byte{0x00, 0x19, 0x41, 0x04, 192, 0, 2, 7, 0x00}
	mp = append(mp, nlri...)
	attrs := []byte{
		0x40, 0x01, 0x01, 0x00, // ORIGIN
		0x40, 0x02, 0x00, // AS_PATH (empty)
		0x40, 0x05, 0x04, 0, 0, 0, 100, // LOCAL_PREF
		0x80, 0x0e, byte(len(mp)), // MP_REACH_NLRI
	}
	attrs = append(attrs, mp...)
	body := []byte{0x00, 0x00, 0x00, 0x00}
	binary.BigEndian.PutUint16(body[2:], uint16(len(attrs)))
	body = append(body, attrs...)
	buf := make([]byte, 19, 19+len(body))
	for i := 0; i < 16; i++ {
		buf[i] = 0xff
	}
	binary.BigEndian.PutUint16(buf[16:], uint16(19+len(body)))
	buf[18] = BGP_MSG_UPDATE
	buf = append(buf, body...)

	msg, err := ParseBGPMessage(buf)
	if err != nil {
		t.Skipf("message rejected (that would be fine): %v", err)
	}
	if ok, verr := ValidateUpdateMsg(msg.Body.(*BGPUpdate), map[Family]BGPAddPathMode{RF_VPLS: BGP_ADD_PATH_NONE}, false, false, false); !ok {
		t.Skipf("message rejected by validation (that would be fine): %v", verr)
	}

	defer func() {
		if r := recover(); r != nil {
			t.Fatalf("C05 violated: a message returned by the parser without error panics when re-serialised: %v", r)
		}
	}()
	reach := msg.Body.(*BGPUpdate).PathAttributes[3].(*PathAttributeMpReachNLRI)
	for _, n := range reach.Value {
		_ = n.NLRI.String()
		if _, err := n.NLRI.MarshalJSON(); err != nil {
			t.Logf("json: %v", err)
		}
		_ = n.NLRI.Len()
		if _, err := n.NLRI.Serialize(); err != nil { // panics: n.rd is nil
			t.Logf("serialize: %v", err)
		}
	}
	msg.Header.Len = 0
	if _, err := msg.Serialize(); err != nil {
		t.Logf("serialize: %v", err)
	}
}
