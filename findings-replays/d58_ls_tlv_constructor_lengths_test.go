package bgp

import (
	"bytes"
	"net/netip"
	"reflect"
	"testing"
)

// NewLsAttributeTLVs is how the library builds a BGP-LS attribute (type 29)
// from an LsAttribute (it is what the gRPC API uses for injected BGP-LS
// routes). Several of the TLV constructors it calls fill in a Length that has
// nothing to do with the value the TLV serialises, so LsTLV.Serialize refuses
// the TLV and the whole UPDATE cannot be serialised; Len() of these TLVs also
// disagrees with the octets they would occupy.
func TestD58LsTlvConstructorLengths(t *testing.T) {
	v6 := netip.MustParseAddr("2001:db8::1")
	opaque := []byte{1, 2, 3}
	sid := uint32(16001)

	cases := map[string]func(a *LsAttribute){
		"node IPv6 local router-id (TLV 1029)":  func(a *LsAttribute) { a.Node.LocalRouterIDv6 = &v6 },
		"link IPv6 remote router-id (TLV 1031)": func(a *LsAttribute) { a.Link.RemoteRouterIDv6 = &v6 },
		"prefix opaque attribute (TLV 1157)":    func(a *LsAttribute) { a.Prefix.Opaque = &opaque },
		"prefix SID (TLV 1158)":                 func(a *LsAttribute) { a.Prefix.SrPrefixSID = &sid },
		"SR capabilities (TLV 1034)": func(a *LsAttribute) {
			a.Node.SrCapabilties = &LsSrCapabilities{IPv4Supported: true, Ranges: []LsSrRange{{Begin: 16000, End: 23999}}}
		},
		"SR local block (TLV 1036)": func(a *LsAttribute) {
			a.Node.SrLocalBlock = &LsSrLocalBlock{Ranges: []LsSrRange{{Begin: 15000, End: 15999}}}
		},
	}

	for name, fill := range cases {
		t.Run(name, func(t *testing.T) {
			in := &LsAttribute{}
			fill(in)
			tlvs := NewLsAttributeTLVs(in)
			if len(tlvs) != 1 {
				t.Fatalf("test setup: %d TLVs", len(tlvs))
			}
			l := 0
			for _, tlv := range tlvs {
				l += tlv.Len()
			}
			attr := &PathAttributeLs{
				PathAttribute: PathAttribute{Flags: PathAttrFlags[BGP_ATTR_TYPE_LS], Type: BGP_ATTR_TYPE_LS, Length: uint16(l)},
				TLVs:          tlvs,
			}
			msg := NewBGPUpdateMessage(nil, []PathAttributeInterface{attr}, nil)
			wire, err := msg.Serialize()
			if err != nil {
				t.Fatalf("an UPDATE with the BGP-LS attribute built by NewLsAttributeTLVs cannot be serialised: %v (TLV %s reports Len()=%d)", err, tlvs[0], tlvs[0].Len())
			}
			if want := BGP_HEADER_LENGTH + 4 + attr.Len(); want != len(wire) {
				t.Errorf("attribute reports %d octets, message is %d octets instead of %d", attr.Len(), len(wire), want)
			}
			parsed, err := ParseBGPMessage(wire)
			if err != nil {
				t.Fatalf("does not parse back: %v", err)
			}
			got := parsed.Body.(*BGPUpdate).PathAttributes[0].(*PathAttributeLs)
			if len(got.TLVs) != 1 || reflect.TypeOf(got.TLVs[0]) != reflect.TypeOf(tlvs[0]) {
				t.Fatalf("parsed back to %v", got.TLVs)
			}
			again, _ := parsed.Serialize()
			if !bytes.Equal(wire, again) {
				t.Errorf("re-serialising is not a fixpoint")
			}
		})
	}
}
