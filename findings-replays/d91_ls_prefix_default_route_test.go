package bgp

import (
	"net/netip"
	"testing"
)

// A BGP-LS IPv4 Topology Prefix NLRI for the default route, built with the
// library's own constructors, must parse back with the library's own decoder.
func TestD91LsPrefixDefaultRoute(t *testing.T) {
	nd := NewLsTLVNodeDescriptor(&LsNodeDescriptor{
		Asn:         65000,
		BGPLsID:     1,
		IGPRouterID: "0000.0000.0001",
	}, LS_TLV_LOCAL_NODE_DESC)

	pd := NewLsPrefixTLVs(&LsPrefixDescriptor{
		IPReachability: []netip.Prefix{netip.MustParsePrefix("0.0.0.0/0")},
	})
	if len(pd) != 1 {
		t.Fatalf("expected one prefix descriptor TLV, got %d", len(pd))
	}

	// the TLV on its own
	tlvWire, err := pd[0].Serialize()
	if err != nil {
		t.Fatalf("serialize TLV: %v", err)
	}
	if err := (&LsTLVIPReachability{}).DecodeFromBytes(tlvWire); err != nil {
		t.Errorf("IP Reachability TLV % x built by NewLsPrefixTLVs is rejected by its decoder: %v", tlvWire, err)
	}

	// the whole NLRI
	n := &LsAddrPrefix{
		Type: LS_NLRI_TYPE_PREFIX_IPV4,
		NLRI: &LsPrefixV4NLRI{
			LsNLRI: LsNLRI{
				NLRIType:   LS_NLRI_TYPE_PREFIX_IPV4,
				ProtocolID: LS_PROTOCOL_ISIS_L2,
			},
			LocalNodeDesc: &nd,
			PrefixDesc:    pd,
		},
	}
	wire, err := n.Serialize()
	if err != nil {
		t.Fatalf("serialize NLRI: %v", err)
	}
	if _, err := NLRIFromSlice(RF_LS, wire); err != nil {
		t.Fatalf("the library cannot parse the BGP-LS prefix NLRI it serialised (% x): %v", wire, err)
	}
}
