package table

import (
	"net/netip"
	"testing"

	"github.com/osrg/gobgp/v4/pkg/packet/bgp"
)

// D22 (C11): UpdatePathAggregator4ByteAs turns a received 2-octet AGGREGATOR into the 4-octet form in place; the
// attribute's Length (what Len() and so the UPDATE packers' budget is computed from) must follow.
func TestD22AggregatorLenAfterWidening(t *testing.T) {
	agg, err := bgp.NewPathAttributeAggregator(uint16(65001), netip.MustParseAddr("192.0.2.1"))
	if err != nil {
		t.Fatal(err)
	}
	msg := bgp.NewBGPUpdateMessage(nil, []bgp.PathAttributeInterface{agg}, nil).Body.(*bgp.BGPUpdate)
	if err := UpdatePathAggregator4ByteAs(msg); err != nil {
		t.Fatal(err)
	}
	a := msg.PathAttributes[0]
	buf, err := a.Serialize()
	if err != nil {
		t.Fatal(err)
	}
	if a.Len() != len(buf) {
		t.Fatalf("AGGREGATOR after widening: Len() = %d, Serialize() writes %d octets", a.Len(), len(buf))
	}
}
