package server

import (
	"context"
	"net/netip"
	"testing"
	"time"

	"github.com/osrg/gobgp/v4/api"
	"github.com/osrg/gobgp/v4/internal/pkg/table"
	"github.com/osrg/gobgp/v4/pkg/config/oc"
	"github.com/osrg/gobgp/v4/pkg/packet/bgp"
)

// A VPN route is known from two sources: an ADD-PATH neighbour (path id 1,
// preferred) and a plain neighbour (worse). The ADD-PATH neighbour withdraws
// its path, the plain neighbour's path becomes the best one. A neighbour that
// negotiated Route Target Constraint then announces the membership for the
// route's target: it has to be sent the route.
func TestD118RtIndexMixedAddpathPlain(t *testing.T) {
	ctx := context.Background()
	s := NewBgpServer()
	go s.Serve()
	if err := s.StartBgp(ctx, &api.StartBgpRequest{
		Global: &api.Global{Asn: 65001, RouterId: "1.1.1.1", ListenPort: -1},
	}); err != nil {
		t.Fatal(err)
	}

	// the neighbour with RTC
	addr := netip.MustParseAddr("10.0.0.1")
	nConf := &oc.Neighbor{
		Config: oc.NeighborConfig{PeerAs: 65002, NeighborAddress: addr},
		State:  oc.NeighborState{PeerAs: 65002, NeighborAddress: addr, RemoteRouterId: addr},
	}
	gConf := &oc.Global{Config: oc.GlobalConfig{As: 65001}}
	if err := oc.SetDefaultNeighborConfigValues(nConf, nil, gConf); err != nil {
		t.Fatal(err)
	}
	p := newPeer(gConf, nConf, bgp.BGP_FSM_IDLE, s.globalRib, s.policy, s.logger)
	p.fsm.familyMap.Store(map[bgp.Family]bgp.BGPAddPathMode{
		bgp.RF_RTC_UC:   bgp.BGP_ADD_PATH_NONE,
		bgp.RF_IPv4_VPN: bgp.BGP_ADD_PATH_NONE,
	})
	local := netip.MustParseAddr("1.1.1.1")
	p.peerInfo.Store(table.NewPeerInfo(gConf, nConf, 65002, 65001, addr, local, addr, local))
	p.fsm.state.Store(bgp.BGP_FSM_ESTABLISHED)
	if err := s.mgmtOperation(func() error {
		s.neighborMap[addr] = p
		return nil
	}, true); err != nil {
		t.Fatal(err)
	}
	t.Cleanup(func() {
		_ = s.mgmtOperation(func() error {
			delete(s.neighborMap, addr)
			return nil
		}, false)
		cleanInfiniteChannel(p.fsm.outgoingCh)
		_ = s.StopBgp(ctx, &api.StopBgpRequest{})
	})

	rt := bgp.NewTwoOctetAsSpecificExtended(bgp.EC_SUBTYPE_ROUTE_TARGET, 65001, 100, true)
	rd, _ := bgp.ParseRouteDistinguisher("65001:100")
	vpn := func(src string, as uint32, pathID uint32, aspath []uint32, withdraw bool) *table.Path {
		a := netip.MustParseAddr(src)
		nlri, err := bgp.NewLabeledVPNIPAddrPrefix(netip.MustParsePrefix("192.0.2.0/24"), *bgp.NewMPLSLabelStack(100), rd)
		if err != nil {
			t.Fatal(err)
		}
		mp, err := bgp.NewPathAttributeMpReachNLRI(bgp.RF_IPv4_VPN, []bgp.PathNLRI{{NLRI: nlri, ID: pathID}}, a)
		if err != nil {
			t.Fatal(err)
		}
		return table.NewPath(bgp.RF_IPv4_VPN, &table.PeerInfo{
			AS: as, ID: a, Address: a, LocalAS: 65001, LocalID: local, LocalAddress: local,
		}, bgp.PathNLRI{NLRI: nlri, ID: pathID}, withdraw, []bgp.PathAttributeInterface{
			bgp.NewPathAttributeOrigin(0),
			bgp.NewPathAttributeAsPath([]bgp.AsPathParamInterface{bgp.NewAs4PathParam(2, aspath)}),
			mp,
			bgp.NewPathAttributeExtendedCommunities([]bgp.ExtendedCommunityInterface{rt}),
		}, time.Now(), false)
	}

	// 1. the ADD-PATH source announces the route with path id 1 (short AS path)
	s.propagateUpdate(nil, []*table.Path{vpn("10.0.0.2", 65010, 1, []uint32{65010}, false)})
	// 2. the plain source announces the same route (longer AS path, not the best)
	s.propagateUpdate(nil, []*table.Path{vpn("10.0.0.3", 65020, 0, []uint32{65020, 65030}, false)})
	// 3. the ADD-PATH source withdraws path id 1
	s.propagateUpdate(nil, []*table.Path{vpn("10.0.0.2", 65010, 1, []uint32{65010}, true)})

	// the route of the plain source is the one left, and the best
	best := s.globalRib.GetBestPathList(table.GLOBAL_RIB_NAME, 0, []bgp.Family{bgp.RF_IPv4_VPN})
	if len(best) != 1 || best[0].GetSource().Address.String() != "10.0.0.3" {
		t.Fatalf("setup: expected the route of 10.0.0.3 as the best one, got %v", best)
	}
	// no membership so far: nothing went to the neighbour
	select {
	case o := <-p.fsm.outgoingCh.Out():
		t.Fatalf("setup: nothing expected to be sent before the membership, got %v", o.(*fsmOutgoingMsg).Paths)
	case <-time.After(100 * time.Millisecond):
	}

	// 4. the neighbour announces the membership for the route's target
	nh, _ := bgp.NewPathAttributeMpReachNLRI(bgp.RF_RTC_UC, []bgp.PathNLRI{{NLRI: bgp.NewRouteTargetMembershipNLRI(65002, rt)}}, addr)
	rtc := table.NewPath(bgp.RF_RTC_UC, p.peerInfo.Load(), bgp.PathNLRI{NLRI: bgp.NewRouteTargetMembershipNLRI(65002, rt)}, false,
		[]bgp.PathAttributeInterface{
			bgp.NewPathAttributeOrigin(0),
			bgp.NewPathAttributeAsPath([]bgp.AsPathParamInterface{bgp.NewAs4PathParam(2, []uint32{65002})}),
			nh,
		}, time.Now(), false)
	s.propagateUpdate(p, []*table.Path{rtc})

	if !p.interestedIn(best[0]) {
		t.Fatalf("setup: the membership was not accepted")
	}

	deadline := time.After(2 * time.Second)
	for {
		select {
		case o := <-p.fsm.outgoingCh.Out():
			for _, path := range o.(*fsmOutgoingMsg).Paths {
				if path.GetFamily() == bgp.RF_IPv4_VPN && !path.IsWithdraw {
					return // the route was advertised
				}
			}
		case <-deadline:
			t.Fatalf("the neighbour has an accepted membership for %s, the best VPN route %s carries it, but the route was not advertised", rt, best[0].GetPrefix())
		}
	}
}
