package server

import (
	"context"
	"net/netip"
	"testing"
	"time"

	"github.com/stretchr/testify/require"

	"github.com/osrg/gobgp/v4/api"
	"github.com/osrg/gobgp/v4/pkg/apiutil"
	"github.com/osrg/gobgp/v4/pkg/packet/bgp"
)

// A session that this speaker tears down itself because the peer exceeded its
// maximum-prefix limit (NOTIFICATION Cease / Maximum Number of Prefixes Reached,
// adminStatePfxCt) is not a "qualifying" loss for graceful restart: no transport
// failure, no hold-timer expiry, no NOTIFICATION with the N bit (the N bit is not
// even negotiated here). All routes of the peer have to be removed at once.
//
// The unmodified code keeps them as stale GR routes (PeerRestarting=true) for the
// whole restart time, and even installs the over-limit routes in the global RIB.
func TestD76bMaxPrefixGR(t *testing.T) {
	ctx := context.Background()
	const port = 10179

	grAfiSafi := func(maxPrefixes uint32) []*api.AfiSafi {
		a := &api.AfiSafi{
			Config: &api.AfiSafiConfig{
				Family:  &api.Family{Afi: api.Family_AFI_IP, Safi: api.Family_SAFI_UNICAST},
				Enabled: true,
			},
			MpGracefulRestart: &api.MpGracefulRestart{
				Config: &api.MpGracefulRestartConfig{Enabled: true},
			},
		}
		if maxPrefixes > 0 {
			a.PrefixLimits = &api.PrefixLimit{
				Family:      &api.Family{Afi: api.Family_AFI_IP, Safi: api.Family_SAFI_UNICAST},
				MaxPrefixes: maxPrefixes,
			}
		}
		return []*api.AfiSafi{a}
	}

	// s1: the speaker under test. GR helper for its peer, max-prefix 1.
	s1 := NewBgpServer()
	go s1.Serve()
	require.NoError(t, s1.StartBgp(ctx, &api.StartBgpRequest{
		Global: &api.Global{Asn: 1, RouterId: "1.1.1.1", ListenPort: port},
	}))
	defer s1.StopBgp(ctx, &api.StopBgpRequest{})
	require.NoError(t, s1.AddPeer(ctx, &api.AddPeerRequest{Peer: &api.Peer{
		Conf:            &api.PeerConf{NeighborAddress: "127.0.0.1", PeerAsn: 2},
		Transport:       &api.Transport{PassiveMode: true},
		GracefulRestart: &api.GracefulRestart{Enabled: true, RestartTime: 120},
		AfiSafis:        grAfiSafi(1),
	}}))

	// s2: the peer; announces two prefixes, one more than s1 allows.
	s2 := NewBgpServer()
	go s2.Serve()
	require.NoError(t, s2.StartBgp(ctx, &api.StartBgpRequest{
		Global: &api.Global{Asn: 2, RouterId: "2.2.2.2", ListenPort: -1},
	}))
	defer s2.StopBgp(ctx, &api.StopBgpRequest{})

	nh, _ := bgp.NewPathAttributeNextHop(netip.MustParseAddr("10.0.0.1"))
	attrs := []bgp.PathAttributeInterface{bgp.NewPathAttributeOrigin(0), nh}
	for _, pfx := range []string{"10.10.1.0/24", "10.10.2.0/24"} {
		nlri, _ := bgp.NewIPAddrPrefix(netip.MustParsePrefix(pfx))
		ap, err := apiutil.NewPath(bgp.RF_IPv4_UC, nlri, false, attrs, time.Now())
		require.NoError(t, err)
		p, err := api2apiutilPath(ap)
		require.NoError(t, err)
		_, err = s2.AddPath(apiutil.AddPathRequest{Paths: []*apiutil.Path{p}})
		require.NoError(t, err)
	}

	require.NoError(t, s2.AddPeer(ctx, &api.AddPeerRequest{Peer: &api.Peer{
		Conf:            &api.PeerConf{NeighborAddress: "127.0.0.1", PeerAsn: 1},
		Transport:       &api.Transport{RemotePort: port},
		GracefulRestart: &api.GracefulRestart{Enabled: true, RestartTime: 120},
		AfiSafis:        grAfiSafi(0),
		Timers: &api.Timers{Config: &api.TimersConfig{
			ConnectRetry:           1,
			IdleHoldTimeAfterReset: 3600,
		}},
	}}))

	var p1 *peer
	require.NoError(t, s1.mgmtOperation(func() error {
		p1 = s1.neighborMap[netip.MustParseAddr("127.0.0.1")]
		return nil
	}, true))
	require.NotNil(t, p1)

	// the session comes up with GR negotiated, the limit is hit, s1 sends
	// Cease/max-prefix and takes the session down itself.
	require.Eventually(t, func() bool {
		return p1.AdminState() == adminStatePfxCt
	}, 30*time.Second, 20*time.Millisecond, "prefix limit was never hit")
	require.Eventually(t, func() bool {
		return p1.State() != bgp.BGP_FSM_ESTABLISHED &&
			p1.fsm.pConf.ReadOnly().State.SessionState != "established"
	}, 10*time.Second, 20*time.Millisecond, "session did not go down")
	require.True(t, p1.fsm.pConf.ReadOnly().GracefulRestart.Config.Enabled)

	// give the state-change handler time to finish
	time.Sleep(500 * time.Millisecond)

	var adjIn, global int
	var restarting bool
	require.NoError(t, s1.mgmtOperation(func() error {
		adjIn = p1.adjRibIn.Count([]bgp.Family{bgp.RF_IPv4_UC})
		global = len(s1.globalRib.GetPathList("global", 0, []bgp.Family{bgp.RF_IPv4_UC}))
		restarting = p1.fsm.pConf.ReadOnly().GracefulRestart.State.PeerRestarting
		return nil
	}, true))

	if restarting || adjIn != 0 || global != 0 {
		t.Fatalf("session torn down by this speaker for exceeding the prefix limit was treated as a graceful restart: "+
			"PeerRestarting=%v, %d routes retained in adj-rib-in, %d routes of the peer in the global RIB (want false, 0, 0)",
			restarting, adjIn, global)
	}
}
