package server

import (
	"context"
	"net/netip"
	"testing"
	"time"

	"github.com/stretchr/testify/require"

	"github.com/osrg/gobgp/v4/api"
	"github.com/osrg/gobgp/v4/pkg/apiutil"
	"github.com/osrg/gobgp/v4/pkg/packet/bgp"
)

// C12: a session loss without negotiated graceful restart removes all routes
// of the peer at once; only families the peer listed in the GR capability of
// THIS session may be kept as stale.
//
// fsm.stateChange(ESTABLISHED) only ever sets GracefulRestart.State.Enabled,
// MpGracefulRestart.State.Received, NotificationEnabled, LongLivedEnabled ...
// to true when the capability is present in the received OPEN; nothing resets
// them when a later OPEN of the same neighbor does not carry the capability
// (or lists fewer families).  So once a neighbor has negotiated GR, every
// later session is treated as if GR had been negotiated with the families and
// restart time of the old session.
//
// Here the neighbor first comes up with GR, is shut down cleanly, and comes up
// again WITHOUT the GR capability.  When the TCP connection of that second
// session fails, s1 must drop the routes immediately; instead it keeps them as
// stale for the 90s restart time advertised in the first session.
func TestD53StaleGrState(t *testing.T) {
	ctx := context.Background()
	const port = 11792

	afiSafisGR := []*api.AfiSafi{{
		Config:            &api.AfiSafiConfig{Family: apiutil.ToApiFamily(bgp.AFI_IP, bgp.SAFI_UNICAST), Enabled: true},
		MpGracefulRestart: &api.MpGracefulRestart{Config: &api.MpGracefulRestartConfig{Enabled: true}},
	}}
	afiSafisPlain := []*api.AfiSafi{{
		Config: &api.AfiSafiConfig{Family: apiutil.ToApiFamily(bgp.AFI_IP, bgp.SAFI_UNICAST), Enabled: true},
	}}

	// s1: the speaker under test.
	s1 := NewBgpServer()
	go s1.Serve()
	require.NoError(t, s1.StartBgp(ctx, &api.StartBgpRequest{
		Global: &api.Global{Asn: 1, RouterId: "1.1.1.1", ListenPort: port},
	}))
	defer s1.StopBgp(ctx, &api.StopBgpRequest{})
	require.NoError(t, s1.AddPeer(ctx, &api.AddPeerRequest{Peer: &api.Peer{
		Conf:            &api.PeerConf{NeighborAddress: "127.0.0.1", PeerAsn: 2},
		Transport:       &api.Transport{PassiveMode: true},
		GracefulRestart: &api.GracefulRestart{Enabled: true, RestartTime: 120},
		AfiSafis:        afiSafisGR,
	}}))

	startNeighbor := func(withGR bool) *BgpServer {
		s := NewBgpServer()
		go s.Serve()
		require.NoError(t, s.StartBgp(ctx, &api.StartBgpRequest{
			Global: &api.Global{Asn: 2, RouterId: "2.2.2.2", ListenPort: -1},
		}))
		nh, _ := bgp.NewPathAttributeNextHop(netip.MustParseAddr("10.0.0.1"))
		nlri, _ := bgp.NewIPAddrPrefix(netip.MustParsePrefix("10.10.0.0/24"))
		_, err := s.AddPath(apiutil.AddPathRequest{Paths: []*apiutil.Path{{
			Family: bgp.RF_IPv4_UC,
			Nlri:   nlri,
			Attrs:  []bgp.PathAttributeInterface{bgp.NewPathAttributeOrigin(0), nh},
		}}})
		require.NoError(t, err)
		peer := &api.Peer{
			Conf:      &api.PeerConf{NeighborAddress: "127.0.0.1", PeerAsn: 1},
			Transport: &api.Transport{RemotePort: port},
			AfiSafis:  afiSafisPlain,
			Timers:    &api.Timers{Config: &api.TimersConfig{ConnectRetry: 1, IdleHoldTimeAfterReset: 1}},
		}
		if withGR {
			peer.GracefulRestart = &api.GracefulRestart{Enabled: true, RestartTime: 90}
			peer.AfiSafis = afiSafisGR
		}
		require.NoError(t, s.AddPeer(ctx, &api.AddPeerRequest{Peer: peer}))
		return s
	}

	type snapshot struct {
		state      bgp.FSMState
		restarting bool
		grCapRecv  bool // GR capability present in the OPEN of the current session
		grEnabled  bool // what s1 believes was negotiated
		adjIn      int
		stale      int
		global     int
	}
	snap := func() snapshot {
		var r snapshot
		_ = s1.mgmtOperation(func() error {
			for _, p := range s1.neighborMap {
				r.state = p.State()
				p.fsm.lock.Lock()
				_, r.grCapRecv = p.fsm.capMap[bgp.BGP_CAP_GRACEFUL_RESTART]
				p.fsm.lock.Unlock()
				conf := p.fsm.pConf.ReadOnly()
				r.restarting = conf.GracefulRestart.State.PeerRestarting
				r.grEnabled = conf.GracefulRestart.State.Enabled
				for _, path := range p.adjRibIn.PathList([]bgp.Family{bgp.RF_IPv4_UC}, false) {
					r.adjIn++
					if path.IsStale() {
						r.stale++
					}
				}
			}
			if tbl, ok := s1.globalRib.GetTable(bgp.RF_IPv4_UC); ok {
				r.global = len(tbl.GetDestinations())
			}
			return nil
		}, true)
		return r
	}

	// session 1: with GR
	s2 := startNeighbor(true)
	require.Eventually(t, func() bool {
		r := snap()
		return r.state == bgp.BGP_FSM_ESTABLISHED && r.adjIn == 1 && r.global == 1 && r.grCapRecv && r.grEnabled
	}, 20*time.Second, 50*time.Millisecond, "session 1 up with GR negotiated")

	// clean end of session 1: s2 sends a CEASE NOTIFICATION (N bit not negotiated) -> no GR
	require.NoError(t, s2.StopBgp(ctx, &api.StopBgpRequest{}))
	require.Eventually(t, func() bool {
		r := snap()
		return r.state != bgp.BGP_FSM_ESTABLISHED && !r.restarting && r.adjIn == 0 && r.global == 0
	}, 10*time.Second, 50*time.Millisecond, "NOTIFICATION ends session 1 without GR")

	// session 2: the same neighbor comes back WITHOUT the GR capability
	s3 := startNeighbor(false)
	require.Eventually(t, func() bool {
		r := snap()
		return r.state == bgp.BGP_FSM_ESTABLISHED && r.adjIn == 1 && r.global == 1
	}, 30*time.Second, 50*time.Millisecond, "session 2 up")
	require.False(t, snap().grCapRecv, "the OPEN of session 2 carries no GR capability")

	// transport failure on the session without GR
	_ = s3.mgmtOperation(func() error {
		for _, n := range s3.neighborMap {
			n.fsm.conn.Close()
		}
		return nil
	}, true)
	require.NoError(t, s3.StopBgp(ctx, &api.StopBgpRequest{}))

	require.Eventually(t, func() bool {
		return snap().state != bgp.BGP_FSM_ESTABLISHED
	}, 10*time.Second, 20*time.Millisecond, "s1 notices the loss")
	time.Sleep(500 * time.Millisecond)

	r := snap()
	if r.restarting || r.adjIn != 0 || r.global != 0 {
		t.Fatalf("session without GR capability was lost, but s1 runs graceful-restart procedures with the "+
			"capabilities of the previous session: GracefulRestart.State.Enabled=%v peerRestarting=%v adj-in=%d (stale=%d) global=%d",
			r.grEnabled, r.restarting, r.adjIn, r.stale, r.global)
	}
}
