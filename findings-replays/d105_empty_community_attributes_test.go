package table

import (
	"encoding/binary"
	"testing"
	"time"

	"github.com/osrg/gobgp/v4/pkg/packet/bgp"
)

// C06 / RFC 7606 7.8, 7.10, 7.14, 7.15, RFC 8092 5: COMMUNITIES, CLUSTER_LIST,
// EXTENDED COMMUNITIES, IPv6 EXTENDED COMMUNITIES and LARGE_COMMUNITY are
// malformed unless their length is a NON-ZERO multiple of 4 / 4 / 8 / 20 / 12;
// the UPDATE is to be treated as withdraw. A zero-length attribute must not
// end up in an installed route.
func TestD105EmptyCommunityAttributes(t *testing.T) {
	attr := func(flags, typ byte, val []byte) []byte {
		return append([]byte{flags, typ, byte(len(val))}, val...)
	}
	rfs := map[bgp.Family]bgp.BGPAddPathMode{bgp.RF_IPv4_UC: 0}
	opt := &bgp.MarshallingOption{AddPath: rfs}

	for _, tc := range []struct {
		name  string
		flags byte
		typ   bgp.BGPAttrType
	}{
		{"COMMUNITIES", 0xc0, bgp.BGP_ATTR_TYPE_COMMUNITIES},
		{"CLUSTER_LIST", 0x80, bgp.BGP_ATTR_TYPE_CLUSTER_LIST},
		{"EXTENDED_COMMUNITIES", 0xc0, bgp.BGP_ATTR_TYPE_EXTENDED_COMMUNITIES},
		{"IP6_EXTENDED_COMMUNITIES", 0xc0, bgp.BGP_ATTR_TYPE_IP6_EXTENDED_COMMUNITIES},
		{"LARGE_COMMUNITY", 0xc0, bgp.BGP_ATTR_TYPE_LARGE_COMMUNITY},
	} {
		attrs := []byte{}
		attrs = append(attrs, attr(0x40, 1, []byte{0})...)                       // ORIGIN
		attrs = append(attrs, attr(0x40, 2, []byte{2, 1, 0, 0, 0xfd, 0xe8})...) // AS_PATH 65000
		attrs = append(attrs, attr(0x40, 3, []byte{10, 0, 0, 2})...)            // NEXT_HOP
		attrs = append(attrs, attr(0x40, 5, []byte{0, 0, 0, 100})...)           // LOCAL_PREF
		attrs = append(attrs, attr(tc.flags, byte(tc.typ), nil)...)             // FAULT: length 0
		body := []byte{0, 0, 0, 0}
		binary.BigEndian.PutUint16(body[2:], uint16(len(attrs)))
		body = append(body, attrs...)
		body = append(body, 24, 10, 1, 1) // NLRI 10.1.1.0/24

		hdr := &bgp.BGPHeader{Type: bgp.BGP_MSG_UPDATE, Len: uint16(bgp.BGP_HEADER_LENGTH + len(body))}
		// revised error handling enabled: the expected reaction is treat-as-withdraw
		msg, err := bgp.ParseBGPBody(hdr, body, opt)
		handling := bgp.ERROR_HANDLING_NONE
		if err != nil {
			handling = err.(*bgp.MessageError).ErrorHandling
		} else if ok, verr := bgp.ValidateUpdateMsg(msg.Body.(*bgp.BGPUpdate), rfs, false, false, false); !ok {
			handling = verr.(*bgp.MessageError).ErrorHandling
		}
		if handling >= bgp.ERROR_HANDLING_TREAT_AS_WITHDRAW {
			continue // contained
		}
		paths := ProcessMessage(msg, &PeerInfo{AS: 65000}, time.Now(), handling == bgp.ERROR_HANDLING_TREAT_AS_WITHDRAW)
		for _, p := range paths {
			if p.IsWithdraw {
				continue
			}
			for _, a := range p.GetPathAttrs() {
				if a.GetType() == tc.typ {
					b, _ := a.Serialize()
					t.Errorf("%s with length 0 (malformed, treat-as-withdraw) got reaction %d and route %s is installed carrying the attribute (%x)",
						tc.name, handling, p.GetNlri(), b)
				}
			}
		}
	}
}
