package server

import (
	"log/slog"
	"net/netip"
	"testing"
	"time"

	"github.com/osrg/gobgp/v4/api"
	"github.com/osrg/gobgp/v4/internal/pkg/table"
	"github.com/osrg/gobgp/v4/pkg/config/oc"
	"github.com/osrg/gobgp/v4/pkg/packet/bgp"
)

// A statement "reject routes whose next hop is in [192.0.2.300]" carries an
// unparsable next-hop. Either the statement is refused, or it must not reject a
// route whose next hop is 10.0.0.1 (which is certainly not in the list).
func TestD63NexthopConditionParseError(t *testing.T) {
	in := &api.Statement{
		Name:       "st1",
		Conditions: &api.Conditions{NextHopInList: []string{"192.0.2.300"}},
		Actions:    &api.Actions{RouteAction: api.RouteAction_ROUTE_ACTION_REJECT},
	}
	st, err := newStatementFromApiStruct(in)
	if err != nil {
		// the invalid next-hop is reported: nothing more to check
		return
	}
	t.Logf("statement accepted with %d condition(s) for NextHopInList=%v", len(st.Conditions), in.Conditions.NextHopInList)

	r := table.NewRoutingPolicy(slog.Default())
	if err := r.Initialize(); err != nil {
		t.Fatal(err)
	}
	if err := r.AddPolicy(&table.Policy{Name: "p1", Statements: []*table.Statement{st}}, false); err != nil {
		t.Fatal(err)
	}
	if err := r.AddPolicyAssignment(table.GLOBAL_RIB_NAME, table.POLICY_DIRECTION_IMPORT,
		[]*oc.PolicyDefinition{{Name: "p1"}}, table.ROUTE_TYPE_ACCEPT); err != nil {
		t.Fatal(err)
	}

	nlri, _ := bgp.NewIPAddrPrefix(netip.MustParsePrefix("203.0.113.0/24"))
	nh, _ := bgp.NewPathAttributeNextHop(netip.MustParseAddr("10.0.0.1"))
	attrs := []bgp.PathAttributeInterface{
		bgp.NewPathAttributeOrigin(0),
		bgp.NewPathAttributeAsPath([]bgp.AsPathParamInterface{bgp.NewAs4PathParam(bgp.BGP_ASPATH_ATTR_TYPE_SEQ, []uint32{65001})}),
		nh,
	}
	peer := &table.PeerInfo{AS: 65001, LocalAS: 65000, Address: netip.MustParseAddr("10.0.0.1")}
	path := table.NewPath(bgp.RF_IPv4_UC, peer, bgp.PathNLRI{NLRI: nlri}, false, attrs, time.Now(), false)

	if got := r.ApplyPolicy(table.GLOBAL_RIB_NAME, table.POLICY_DIRECTION_IMPORT, path, nil); got == nil {
		t.Errorf("route with next hop 10.0.0.1 rejected by a statement whose only condition is next-hop-in-list %v: the invalid condition was silently dropped and the statement matches every route",
			in.Conditions.NextHopInList)
	}
}
