package bgp

import (
	"bytes"
	"encoding/binary"
	"net/netip"
	"testing"
)

// checkFraming reads a serialised BGP message the way RFC 4271 4.1 says:
// the header Length field must equal the number of octets of the message.
func checkFraming(t *testing.T, what string, wire []byte) {
	t.Helper()
	if len(wire) < BGP_HEADER_LENGTH {
		t.Fatalf("%s: short message", what)
	}
	if hl := int(binary.BigEndian.Uint16(wire[16:18])); hl != len(wire) {
		t.Errorf("%s: header Length field says %d octets but %d octets were emitted", what, hl, len(wire))
	}
	if _, err := ParseBGPMessage(wire); err != nil {
		t.Errorf("%s: emitted message does not parse back: %v", what, err)
	}
}

// C04: BGPMessage.Serialize only fills Header.Len when it is zero, so a message
// that was parsed (Len copied from the wire) or already serialised once (Len
// cached) is emitted with a stale length whenever the body re-encodes to a
// different size.
func TestD41StaleHeaderLen(t *testing.T) {
	// (1) a byte string the parser accepts, IPv6 unicast: MP_REACH_NLRI with a
	// 32-octet next hop whose second address is not link-local. The decoder
	// keeps it in LinkLocalNexthop, the encoder drops it (16 octets shorter).
	nh1 := netip.MustParseAddr("2001:db8::1").As16()
	nh2 := netip.MustParseAddr("2001:db8::2").As16()
	v := []byte{0, 2, 1, 32}
	v = append(v, nh1[:]...)
	v = append(v, nh2[:]...)
	v = append(v, 0)                          // reserved
	v = append(v, 32, 0x20, 0x01, 0x0d, 0xb8) // 2001:db8::/32
	attrs := []byte{0x40, 1, 1, 0}            // ORIGIN IGP
	attrs = append(attrs, 0x40, 2, 0)         // empty AS_PATH
	attrs = append(attrs, 0x80, 14, byte(len(v)))
	attrs = append(attrs, v...)
	body := []byte{0, 0}
	body = binary.BigEndian.AppendUint16(body, uint16(len(attrs)))
	body = append(body, attrs...)
	in := bytes.Repeat([]byte{0xff}, 16)
	in = binary.BigEndian.AppendUint16(in, uint16(BGP_HEADER_LENGTH+len(body)))
	in = append(in, BGP_MSG_UPDATE)
	in = append(in, body...)

	m, err := ParseBGPMessage(in)
	if err != nil {
		t.Fatalf("parser rejected the input: %v", err)
	}
	out, err := m.Serialize()
	if err != nil {
		t.Fatal(err)
	}
	checkFraming(t, "re-serialised parsed UPDATE", out)

	// (2) one constructed UPDATE serialised under two option sets: without and
	// with ADD-PATH for IPv4 unicast (4 more octets per NLRI).
	p, _ := NewIPAddrPrefix(netip.MustParsePrefix("10.0.0.0/24"))
	nh, _ := NewPathAttributeNextHop(netip.MustParseAddr("192.0.2.1"))
	msg := NewBGPUpdateMessage(nil, []PathAttributeInterface{
		NewPathAttributeOrigin(0),
		NewPathAttributeAsPath(nil),
		nh,
	}, []PathNLRI{{NLRI: p, ID: 7}})

	plain, err := msg.Serialize()
	if err != nil {
		t.Fatal(err)
	}
	checkFraming(t, "first serialisation (no ADD-PATH)", plain)

	opt := &MarshallingOption{AddPath: map[Family]BGPAddPathMode{RF_IPv4_UC: BGP_ADD_PATH_BOTH}}
	withID, err := msg.Serialize(opt)
	if err != nil {
		t.Fatal(err)
	}
	if len(withID) != len(plain)+4 {
		t.Fatalf("expected the ADD-PATH encoding to be 4 octets longer: %d vs %d", len(withID), len(plain))
	}
	if hl := int(binary.BigEndian.Uint16(withID[16:18])); hl != len(withID) {
		t.Errorf("second serialisation (ADD-PATH): header Length field says %d octets but %d octets were emitted", hl, len(withID))
	}
	back, err := ParseBGPMessage(withID, opt)
	if err != nil {
		t.Errorf("second serialisation (ADD-PATH) does not parse back under the same options: %v", err)
	} else if u := back.Body.(*BGPUpdate); len(u.NLRI) != 1 || u.NLRI[0].ID != 7 || u.NLRI[0].NLRI.String() != "10.0.0.0/24" {
		t.Errorf("second serialisation (ADD-PATH) parsed back to different NLRI: %v", u.NLRI)
	}
}
