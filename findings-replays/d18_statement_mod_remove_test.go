package table

import (
	"testing"

	"github.com/osrg/gobgp/v4/pkg/config/oc"
)

// C10: a policy object read back equals what was configured. Deleting two
// conditions from a statement (DeleteStatement with all=false, the path the
// gRPC DeleteStatement RPC takes) uses indexes into the ORIGINAL condition
// list while shrinking a copy, so the second removal hits the wrong element:
// it removes a condition that was not named, keeps one that was, or panics
// with a slice-bounds error.
func TestD18StatementModRemove(t *testing.T) {
	newStmt := func(f func(*oc.Statement)) *Statement {
		c := oc.Statement{Name: "s1"}
		f(&c)
		s, err := NewStatement(c)
		if err != nil {
			t.Fatal(err)
		}
		return s
	}
	r := NewRoutingPolicy(logger)
	if err := r.reload(oc.RoutingPolicy{}); err != nil {
		t.Fatal(err)
	}
	// configured: community-count >= 1, as-path-length <= 10, origin == igp
	if err := r.AddStatement(newStmt(func(c *oc.Statement) {
		c.Conditions.BgpConditions.CommunityCount = oc.CommunityCount{Operator: oc.ATTRIBUTE_COMPARISON_GE, Value: 1}
		c.Conditions.BgpConditions.AsPathLength = oc.AsPathLength{Operator: oc.ATTRIBUTE_COMPARISON_LE, Value: 10}
		c.Conditions.BgpConditions.OriginEq = oc.BGP_ORIGIN_ATTR_TYPE_IGP
		c.Actions.RouteDisposition = oc.ROUTE_DISPOSITION_ACCEPT_ROUTE
	})); err != nil {
		t.Fatal(err)
	}
	// remove community-count and as-path-length, leaving only origin == igp
	err := r.DeleteStatement(newStmt(func(c *oc.Statement) {
		c.Conditions.BgpConditions.CommunityCount = oc.CommunityCount{Operator: oc.ATTRIBUTE_COMPARISON_GE, Value: 1}
		c.Conditions.BgpConditions.AsPathLength = oc.AsPathLength{Operator: oc.ATTRIBUTE_COMPARISON_LE, Value: 10}
	}), false)
	if err != nil {
		t.Fatal(err)
	}
	got := r.GetStatement("s1")
	if len(got) != 1 {
		t.Fatalf("statement s1 not found")
	}
	bc := got[0].Conditions.BgpConditions
	if bc.OriginEq != oc.BGP_ORIGIN_ATTR_TYPE_IGP {
		t.Errorf("origin condition was not named in the delete request but is gone: origin-eq=%q", bc.OriginEq)
	}
	if bc.AsPathLength.Operator != "" {
		t.Errorf("as-path-length condition was deleted but is still present: %+v", bc.AsPathLength)
	}
	if bc.CommunityCount.Operator != "" {
		t.Errorf("community-count condition was deleted but is still present: %+v", bc.CommunityCount)
	}
}
