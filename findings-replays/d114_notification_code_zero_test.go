package server

import (
	"context"
	"io"
	"log/slog"
	"net"
	"net/netip"
	"testing"
	"time"

	"github.com/eapache/channels"
	"github.com/osrg/gobgp/v4/pkg/config/oc"
	"github.com/osrg/gobgp/v4/pkg/packet/bgp"
)

// An Established session that negotiated IPv4 unicast only receives an UPDATE
// whose MP_REACH_NLRI announces an IPv6 unicast prefix (a family the session
// did not negotiate). The session is reset - but the NOTIFICATION that goes
// out carries Error Code 0 / Subcode 0, a code no RFC defines. RFC 4760
// section 7 prescribes UPDATE Message Error (3) / Optional Attribute Error (9)
// when the session is terminated for an incorrect MP_REACH_NLRI.
func TestD114NotificationCodeZero(t *testing.T) {
	local, remote := net.Pipe()
	defer remote.Close()

	f := newFSM(&oc.Global{}, &oc.Neighbor{}, bgp.BGP_FSM_ESTABLISHED, slog.Default())
	f.conn = local
	// what the OPEN exchange negotiated: IPv4 unicast only
	f.familyMap.Store(map[bgp.Family]bgp.BGPAddPathMode{bgp.RF_IPv4_UC: bgp.BGP_ADD_PATH_NONE})
	h := &fsmHandler{
		fsm:      f,
		outgoing: channels.NewInfiniteChannel(),
		callback: func(*fsmMsg) {},
	}
	f.h = h
	defer h.outgoing.Close()

	ctx, cancel := context.WithCancel(context.Background())
	defer cancel()

	type result struct {
		state  bgp.FSMState
		reason *fsmStateReason
	}
	done := make(chan result, 1)
	go func() {
		s, r := h.established(ctx)
		done <- result{s, r}
	}()

	nlri, err := bgp.NewIPAddrPrefix(netip.MustParsePrefix("2001:db8::/32"))
	if err != nil {
		t.Fatal(err)
	}
	mp, err := bgp.NewPathAttributeMpReachNLRI(bgp.RF_IPv6_UC, []bgp.PathNLRI{{NLRI: nlri}}, netip.MustParseAddr("2001:db8::1"))
	if err != nil {
		t.Fatal(err)
	}
	update := bgp.NewBGPUpdateMessage(nil, []bgp.PathAttributeInterface{
		bgp.NewPathAttributeOrigin(0),
		bgp.NewPathAttributeAsPath([]bgp.AsPathParamInterface{bgp.NewAs4PathParam(bgp.BGP_ASPATH_ATTR_TYPE_SEQ, []uint32{65001})}),
		mp,
	}, nil)
	buf, err := update.Serialize()
	if err != nil {
		t.Fatal(err)
	}
	go func() { _, _ = remote.Write(buf) }()

	// read what the speaker answers
	_ = remote.SetReadDeadline(time.Now().Add(5 * time.Second))
	hdr := make([]byte, bgp.BGP_HEADER_LENGTH)
	if _, err := io.ReadFull(remote, hdr); err != nil {
		t.Fatalf("no message came back after the UPDATE for a family that was not negotiated: %v", err)
	}
	bh := &bgp.BGPHeader{}
	if err := bh.DecodeFromBytes(hdr); err != nil {
		t.Fatal(err)
	}
	body := make([]byte, int(bh.Len)-bgp.BGP_HEADER_LENGTH)
	if _, err := io.ReadFull(remote, body); err != nil {
		t.Fatal(err)
	}
	if bh.Type != bgp.BGP_MSG_NOTIFICATION {
		t.Fatalf("expected a NOTIFICATION, got message type %d", bh.Type)
	}
	code, subcode := body[0], body[1]
	t.Logf("NOTIFICATION code %d subcode %d", code, subcode)

	select {
	case r := <-done:
		if r.state != bgp.BGP_FSM_IDLE {
			t.Errorf("next state %s, want idle", r.state)
		}
	case <-time.After(5 * time.Second):
		t.Fatal("the FSM did not leave Established")
	}

	if code != bgp.BGP_ERROR_UPDATE_MESSAGE_ERROR {
		t.Fatalf("the session was reset with NOTIFICATION %d/%d; an UPDATE in error is answered with UPDATE Message Error (3), RFC 4760 section 7: 3/9 - Error Code 0 is not defined by any RFC", code, subcode)
	}
}
