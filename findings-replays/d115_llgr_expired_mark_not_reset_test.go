package server

import (
	"context"
	"net/netip"
	"testing"
	"time"

	"github.com/stretchr/testify/require"

	"github.com/osrg/gobgp/v4/api"
	"github.com/osrg/gobgp/v4/pkg/config/oc"
	"github.com/osrg/gobgp/v4/pkg/packet/bgp"
)

// Long-lived graceful restart, twice in a row with the same peer.
//
// The peer negotiates LLGR for ipv4-unicast (long-lived stale time 1s) and
// ipv6-unicast (long-lived stale time 3s), restart time 1s. Its session is
// lost (transport failure), it stays away until both long-lived timers have
// expired, comes back, announces its routes again and completes with
// End-of-RIB. Then the session is lost a second time.
//
// After the second loss the ipv6 route is LLGR-stale and has to go when the
// ipv6 long-lived timer (3s) expires, i.e. about 4s after the loss.
func TestD115LlgrExpiredMarkNotReset(t *testing.T) {
	const peerAddr = "10.0.0.1"
	ctx := context.Background()

	s := NewBgpServer()
	go s.Serve()
	require.NoError(t, s.StartBgp(ctx, &api.StartBgpRequest{
		Global: &api.Global{Asn: 65001, RouterId: "192.168.1.1", ListenPort: -1},
	}))
	defer s.StopBgp(ctx, &api.StopBgpRequest{})

	family := func(name oc.AfiSafiType) oc.AfiSafi {
		return oc.AfiSafi{
			Config:                   oc.AfiSafiConfig{AfiSafiName: name, Enabled: true},
			MpGracefulRestart:        oc.MpGracefulRestart{Config: oc.MpGracefulRestartConfig{Enabled: true}},
			LongLivedGracefulRestart: oc.LongLivedGracefulRestart{Config: oc.LongLivedGracefulRestartConfig{Enabled: true, RestartTime: 60}},
		}
	}
	neighbor := &oc.Neighbor{
		Config:    oc.NeighborConfig{NeighborAddress: netip.MustParseAddr(peerAddr), PeerAs: 65001},
		Transport: oc.Transport{Config: oc.TransportConfig{PassiveMode: true}},
		Timers:    oc.Timers{Config: oc.TimersConfig{HoldTime: 90}},
		GracefulRestart: oc.GracefulRestart{Config: oc.GracefulRestartConfig{
			Enabled: true, RestartTime: 60, LongLivedEnabled: true,
		}},
		AfiSafis: []oc.AfiSafi{family(oc.AFI_SAFI_TYPE_IPV4_UNICAST), family(oc.AFI_SAFI_TYPE_IPV6_UNICAST)},
	}
	require.NoError(t, s.AddPeer(ctx, &api.AddPeerRequest{Peer: oc.NewPeerFromConfigStruct(neighbor)}))

	var p *peer
	require.NoError(t, s.mgmtOperation(func() error {
		p = s.neighborMap[netip.MustParseAddr(peerAddr)]
		return nil
	}, true))
	require.NotNil(t, p)

	openMsg := func() *bgp.BGPMessage {
		m, err := bgp.NewBGPOpenMessage(65001, 90, netip.MustParseAddr(peerAddr), []bgp.OptionParameterInterface{
			bgp.NewOptionParameterCapability([]bgp.ParameterCapabilityInterface{
				bgp.NewCapMultiProtocol(bgp.RF_IPv4_UC),
				bgp.NewCapMultiProtocol(bgp.RF_IPv6_UC),
				bgp.NewCapFourOctetASNumber(65001),
				bgp.NewCapGracefulRestart(false, false, 1, []*bgp.CapGracefulRestartTuple{
					bgp.NewCapGracefulRestartTuple(bgp.RF_IPv4_UC, true),
					bgp.NewCapGracefulRestartTuple(bgp.RF_IPv6_UC, true),
				}),
				bgp.NewCapLongLivedGracefulRestart([]*bgp.CapLongLivedGracefulRestartTuple{
					bgp.NewCapLongLivedGracefulRestartTuple(bgp.RF_IPv4_UC, true, 1),
					bgp.NewCapLongLivedGracefulRestartTuple(bgp.RF_IPv6_UC, true, 3),
				}),
			}),
		})
		require.NoError(t, err)
		return m
	}
	attrs := func() []bgp.PathAttributeInterface {
		return []bgp.PathAttributeInterface{
			bgp.NewPathAttributeOrigin(0),
			bgp.NewPathAttributeAsPath([]bgp.AsPathParamInterface{}),
			bgp.NewPathAttributeLocalPref(100),
		}
	}
	v4Update := func() *bgp.BGPMessage {
		nlri, _ := bgp.NewIPAddrPrefix(netip.MustParsePrefix("10.10.0.0/24"))
		nh, _ := bgp.NewPathAttributeNextHop(netip.MustParseAddr(peerAddr))
		a := attrs()
		// ORIGIN, AS_PATH, NEXT_HOP, LOCAL_PREF
		return bgp.NewBGPUpdateMessage(nil, []bgp.PathAttributeInterface{a[0], a[1], nh, a[2]}, []bgp.PathNLRI{{NLRI: nlri}})
	}
	v6Update := func() *bgp.BGPMessage {
		nlri, _ := bgp.NewIPAddrPrefix(netip.MustParsePrefix("2001:db8:10::/48"))
		mp, err := bgp.NewPathAttributeMpReachNLRI(bgp.RF_IPv6_UC, []bgp.PathNLRI{{NLRI: nlri}}, netip.MustParseAddr("2001:db8::1"))
		require.NoError(t, err)
		return bgp.NewBGPUpdateMessage(nil, append(attrs(), mp), nil)
	}
	count := func(f bgp.Family) int {
		n := 0
		require.NoError(t, s.mgmtOperation(func() error {
			n = p.adjRibIn.Count([]bgp.Family{f})
			return nil
		}, false))
		return n
	}
	session := func() *MockConnection {
		// a passive peer takes a connection in ACTIVE only
		require.Eventually(t, func() bool { return p.fsm.state.Load() == bgp.BGP_FSM_ACTIVE },
			20*time.Second, 20*time.Millisecond, "peer does not get to ACTIVE")
		m := NewMockConnection()
		m.SetRemoteAddr(peerAddr)
		t.Cleanup(func() { m.Close() })
		p.fsm.connCh <- m
		m.PushBgpMessage(openMsg())
		m.PushBgpMessage(bgp.NewBGPKeepAliveMessage())
		require.Eventually(t, func() bool { return p.fsm.state.Load() == bgp.BGP_FSM_ESTABLISHED },
			10*time.Second, 10*time.Millisecond, "session does not come up")
		m.PushBgpMessage(v4Update())
		m.PushBgpMessage(v6Update())
		m.PushBgpMessage(bgp.NewEndOfRib(bgp.RF_IPv4_UC))
		m.PushBgpMessage(bgp.NewEndOfRib(bgp.RF_IPv6_UC))
		require.Eventually(t, func() bool { return count(bgp.RF_IPv4_UC) == 1 && count(bgp.RF_IPv6_UC) == 1 },
			5*time.Second, 10*time.Millisecond, "routes of the peer not received")
		// the End-of-RIB markers processed
		require.Eventually(t, func() bool {
			return p.allNegotiatedEORReceived() && !p.fsm.pConf.ReadOnly().GracefulRestart.State.PeerRestarting
		}, 5*time.Second, 10*time.Millisecond)
		return m
	}

	// first session, lost: restart timer 1s, then ipv4 long-lived timer 1s,
	// ipv6 long-lived timer 3s
	m1 := session()
	m1.Close()
	require.Eventually(t, func() bool { return count(bgp.RF_IPv4_UC) == 0 && count(bgp.RF_IPv6_UC) == 0 },
		15*time.Second, 50*time.Millisecond, "first loss: the LLGR-stale routes are not removed when their timers expire")

	// second session, lost again
	m2 := session()
	lost := time.Now()
	m2.Close()

	// 1s restart time + 3s long-lived stale time for ipv6, and a generous margin
	deadline := lost.Add(12 * time.Second)
	for time.Now().Before(deadline) {
		if count(bgp.RF_IPv6_UC) == 0 {
			return
		}
		time.Sleep(100 * time.Millisecond)
	}
	stale := false
	for _, path := range p.adjRibIn.PathList([]bgp.Family{bgp.RF_IPv6_UC}, false) {
		stale = stale || path.IsLLGRStale()
	}
	t.Fatalf("second loss: %.0fs after it the ipv6 route of the peer is still there (LLGR_STALE=%v, ipv4 routes left: %d), though the ipv6 long-lived stale time is 3s and the restart time 1s; peer-restarting=%v",
		time.Since(lost).Seconds(), stale, count(bgp.RF_IPv4_UC), p.fsm.pConf.ReadOnly().GracefulRestart.State.PeerRestarting)
}
