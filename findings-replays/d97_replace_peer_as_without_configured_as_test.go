package server

import (
	"log/slog"
	"net/netip"
	"testing"
	"time"

	"github.com/osrg/gobgp/v4/internal/pkg/table"
	"github.com/osrg/gobgp/v4/pkg/config/oc"
	"github.com/osrg/gobgp/v4/pkg/packet/bgp"
)

// A neighbour may be configured without peer-as (the AS is then taken from
// the OPEN: fsm.StateChange, "skipped asn negotiation"; the way unnumbered
// neighbours are usually set up). replace-peer-as on such a neighbour is
// accepted and shown as in effect, but prePolicyFilterpath replaces the
// *configured* peer AS (0) while the loop check uses the AS of the session:
// the option does nothing and the route is suppressed.
func TestD97ReplacePeerAsWithoutConfiguredAs(t *testing.T) {
	const (
		myAS   = uint32(65000)
		peerAS = uint32(65001)
		srcAS  = uint32(65002)
	)
	lg := slog.Default()
	rib := table.NewTableManager(lg, []bgp.Family{bgp.RF_IPv4_UC})
	g := &oc.Global{Config: oc.GlobalConfig{As: myAS, RouterId: netip.MustParseAddr("1.1.1.1")}}

	mk := func(configuredAS, sessionAS uint32, address string, replace bool) *peer {
		addr := netip.MustParseAddr(address)
		n := &oc.Neighbor{
			Config: oc.NeighborConfig{PeerAs: configuredAS, NeighborAddress: addr},
			State:  oc.NeighborState{NeighborAddress: addr},
		}
		n.AsPathOptions.Config.ReplacePeerAs = replace
		if err := oc.SetDefaultNeighborConfigValues(n, nil, g); err != nil {
			t.Fatal(err)
		}
		// what fsm.StateChange records when the session comes up
		n.State.PeerAs = sessionAS
		n.State.PeerType = oc.PEER_TYPE_EXTERNAL
		n.State.RemoteRouterId = addr
		pol := table.NewRoutingPolicy(lg)
		if err := pol.Reset(&oc.RoutingPolicy{}, nil); err != nil {
			t.Fatal(err)
		}
		p := newPeer(g, n, bgp.BGP_FSM_ESTABLISHED, rib, pol, lg)
		p.fsm.familyMap.Store(map[bgp.Family]bgp.BGPAddPathMode{bgp.RF_IPv4_UC: bgp.BGP_ADD_PATH_NONE})
		local := netip.MustParseAddr("192.168.0.100")
		// as handleFSMMessage builds it on ESTABLISHED
		p.peerInfo.Store(table.NewPeerInfo(g, n, n.State.PeerAs, n.Config.LocalAs, addr, g.Config.RouterId, addr, local))
		return p
	}

	target := mk(0, peerAS, "192.168.0.1", true) // peer-as not configured
	source := mk(srcAS, srcAS, "192.168.0.2", false)
	if !target.fsm.pConf.ReadOnly().AsPathOptions.State.ReplacePeerAs {
		t.Fatal("replace-peer-as is not in effect for the neighbour")
	}
	s := NewBgpServer()

	nlri, _ := bgp.NewIPAddrPrefix(netip.MustParsePrefix("10.10.10.0/24"))
	nh, _ := bgp.NewPathAttributeNextHop(netip.MustParseAddr("192.168.0.2"))
	attrs := []bgp.PathAttributeInterface{
		bgp.NewPathAttributeOrigin(0),
		bgp.NewPathAttributeAsPath([]bgp.AsPathParamInterface{bgp.NewAs4PathParam(bgp.BGP_ASPATH_ATTR_TYPE_SEQ, []uint32{srcAS, peerAS})}),
		nh,
	}
	route := table.NewPath(bgp.RF_IPv4_UC, source.peerInfo.Load(), bgp.PathNLRI{NLRI: nlri}, false, attrs, time.Now(), false)
	dsts := rib.Update(route)
	if len(dsts) != 1 {
		t.Fatalf("expected one changed destination, got %d", len(dsts))
	}
	best, old, _ := dsts[0].GetChanges(table.GLOBAL_RIB_NAME, 0, false)

	sent := s.filterpath(target, best, old)
	if sent == nil {
		t.Fatalf("replace-peer-as is configured: the peer's AS %d is to be replaced in the AS_PATH and the route advertised, but nothing is sent", peerAS)
	}
	if got := sent.GetAsList(); len(got) != 3 || got[0] != myAS || got[1] != srcAS || got[2] != myAS {
		t.Fatalf("unexpected AS_PATH sent: %v", got)
	}
}
