package table

import (
	"net/netip"
	"testing"
	"time"
	"log/slog"

	"github.com/osrg/gobgp/v4/pkg/packet/bgp"
)

func mkLocal(as uint32, id string, aspath []uint32) *Path {
	pi := &PeerInfo{AS: as, ID: netip.MustParseAddr(id), LocalID: netip.MustParseAddr("9.9.9.9")}
	nlri, _ := bgp.NewIPAddrPrefix(netip.MustParsePrefix("10.0.0.0/24"))
	attrs := []bgp.PathAttributeInterface{
		bgp.NewPathAttributeOrigin(0),
		bgp.NewPathAttributeAsPath([]bgp.AsPathParamInterface{bgp.NewAs4PathParam(2, aspath)}),
		func() bgp.PathAttributeInterface { a, _ := bgp.NewPathAttributeNextHop(netip.MustParseAddr("1.1.1.1")); return a }(),
	}
	return NewPath(bgp.RF_IPv4_UC, pi, bgp.PathNLRI{NLRI: nlri}, false, attrs, time.Unix(100, 0), false)
}

func TestD10(t *testing.T) {
	a := mkLocal(65001, "1.1.1.1", []uint32{1, 2, 3})
	b := mkLocal(65002, "2.2.2.2", []uint32{1})
	if !a.IsLocal() || !b.IsLocal() {
		t.Fatal("not local")
	}
	best := func(order ...*Path) *Path {
		d := newDestination(a.GetNlri(), 0)
		for _, p := range order {
			d.Calculate(slog.Default(), p)
		}
		return d.knownPathList[0]
	}
	x, y := best(a, b), best(b, a)
	t.Logf("order a,b -> best aslen %d ; order b,a -> best aslen %d", x.GetAsPathLen(), y.GetAsPathLen())
	if x != y {
		t.Logf("VERIF-REPLAY: best path depends on arrival order")
	}
}
