package bgp

import (
	"bytes"
	"net/netip"
	"testing"
)

// C04: the EVPN I-PMSI route (route type 9) that NewEVPNIPMSIRoute builds must
// report the length it emits and must parse back to an equal NLRI.
func TestD39EvpnIPMSI(t *testing.T) {
	rd := NewRouteDistinguisherTwoOctetAS(65000, 100)
	ec := NewTwoOctetAsSpecificExtended(EC_SUBTYPE_ROUTE_TARGET, 65000, 200, true)
	nlri := NewEVPNIPMSIRoute(rd, 5, ec)

	wire, err := nlri.Serialize()
	if err != nil {
		t.Fatal(err)
	}

	// independent reading: type(1) length(1) RD(8) ETag(4) EC(8)
	want := []byte{EVPN_I_PMSI, 20}
	want = append(want, 0, 0, 0xfd, 0xe8, 0, 0, 0, 100) // RD 65000:100
	want = append(want, 0, 0, 0, 5)                     // Ethernet tag 5
	want = append(want, 0, 2, 0xfd, 0xe8, 0, 0, 0, 200) // RT 65000:200
	if !bytes.Equal(wire, want) {
		t.Errorf("wrong encoding:\n got  % x\n want % x", wire, want)
	}
	if nlri.Len() != len(wire) {
		t.Errorf("Len() = %d but Serialize emitted %d octets (length octet on the wire says %d)", nlri.Len(), len(wire), wire[1])
	}

	// two of them packed in one MP_REACH_NLRI must come back as two
	reach, err := NewPathAttributeMpReachNLRI(RF_EVPN, []PathNLRI{{NLRI: nlri}, {NLRI: NewEVPNIPMSIRoute(rd, 6, ec)}}, netip.MustParseAddr("192.0.2.1"))
	if err != nil {
		t.Fatal(err)
	}
	abuf, err := reach.Serialize()
	if err != nil {
		t.Fatal(err)
	}
	dec := &PathAttributeMpReachNLRI{}
	if err := dec.DecodeFromBytes(abuf); err != nil {
		t.Fatalf("MP_REACH_NLRI carrying I-PMSI routes does not parse back: %v", err)
	}
	if len(dec.Value) != 2 {
		t.Fatalf("got %d NLRI back, want 2", len(dec.Value))
	}
	for i, v := range dec.Value {
		if v.NLRI.String() != reach.Value[i].NLRI.String() {
			t.Errorf("NLRI %d: got %s want %s", i, v.NLRI, reach.Value[i].NLRI)
		}
		b, err := v.NLRI.Serialize()
		if err != nil {
			t.Fatal(err)
		}
		o, _ := reach.Value[i].NLRI.Serialize()
		if !bytes.Equal(b, o) {
			t.Errorf("NLRI %d: re-serialisation differs", i)
		}
	}
}
