package table

import (
	"net/netip"
	"testing"
	"time"

	"github.com/osrg/gobgp/v4/pkg/config/oc"
	"github.com/osrg/gobgp/v4/pkg/packet/bgp"
)

// C03: confederation support is switched off (confederation.config.enabled =
// false), the member-as-list is still filled in. A route learned from an
// ordinary eBGP neighbour whose AS happens to be in that list must still beat
// an otherwise equal iBGP route at the "eBGP over iBGP" step.
func TestD74DisabledConfederationSelection(t *testing.T) {
	SelectionOptions = oc.RouteSelectionOptionsConfig{}
	UseMultiplePaths = oc.UseMultiplePathsConfig{}

	g := &oc.Global{
		Config: oc.GlobalConfig{As: 65000, RouterId: netip.MustParseAddr("1.1.1.1")},
		Confederation: oc.Confederation{Config: oc.ConfederationConfig{
			Enabled:      false, // no confederation
			Identifier:   100,
			MemberAsList: []uint32{65002},
		}},
	}

	mkInfo := func(as uint32, addr string) *PeerInfo {
		a := netip.MustParseAddr(addr)
		n := &oc.Neighbor{
			Config: oc.NeighborConfig{PeerAs: as, NeighborAddress: a},
			State:  oc.NeighborState{PeerAs: as, NeighborAddress: a, RemoteRouterId: a},
		}
		if err := oc.SetDefaultNeighborConfigValues(n, nil, g); err != nil {
			t.Fatal(err)
		}
		// as the server does when the session reaches ESTABLISHED
		return NewPeerInfo(g, n, n.State.PeerAs, n.Config.LocalAs, n.State.RemoteRouterId, g.Config.RouterId, a, netip.MustParseAddr("10.0.0.254"))
	}

	ibgp := mkInfo(65000, "10.0.0.1") // lower neighbour address, lower router-id
	ebgp := mkInfo(65002, "10.0.0.2")

	if ibgp.PeerType != oc.PEER_TYPE_INTERNAL || ebgp.PeerType != oc.PEER_TYPE_EXTERNAL || ebgp.LocalAS != 65000 {
		t.Fatalf("test setup: ibgp %v ebgp %v local-as %d", ibgp.PeerType, ebgp.PeerType, ebgp.LocalAS)
	}

	nlri, _ := bgp.NewIPAddrPrefix(netip.MustParsePrefix("192.0.2.0/24"))
	mkPath := func(src *PeerInfo, firstAS uint32, lp bool) *Path {
		nh, _ := bgp.NewPathAttributeNextHop(src.Address)
		attrs := []bgp.PathAttributeInterface{
			bgp.NewPathAttributeOrigin(bgp.BGP_ORIGIN_ATTR_TYPE_IGP),
			bgp.NewPathAttributeAsPath([]bgp.AsPathParamInterface{
				bgp.NewAs4PathParam(bgp.BGP_ASPATH_ATTR_TYPE_SEQ, []uint32{firstAS}),
			}),
			nh,
		}
		if lp {
			attrs = append(attrs, bgp.NewPathAttributeLocalPref(100))
		}
		return NewPath(bgp.RF_IPv4_UC, src, bgp.PathNLRI{NLRI: nlri}, false, attrs, time.Unix(1000, 0), false)
	}

	// same LOCAL_PREF (100), same AS_PATH length (1), same ORIGIN, no MED and
	// different neighbour ASes (MED plays no part): the first step that tells
	// the two apart is eBGP over iBGP.
	for _, order := range [][2]int{{0, 1}, {1, 0}} {
		paths := []*Path{mkPath(ebgp, 65002, false), mkPath(ibgp, 65003, true)}
		d := newDestination(nlri, 64)
		for _, i := range order {
			d.Calculate(logger, paths[i])
		}
		best := d.GetBestPath(GLOBAL_RIB_NAME, 0)
		if best == nil {
			t.Fatalf("order %v: no best path", order)
		}
		if best.GetSource() != ebgp {
			t.Errorf("order %v: confederation disabled, but the eBGP route from AS 65002 (PeerInfo.Confederation=%v) lost to the iBGP route from %s",
				order, ebgp.Confederation, best.GetSource().Address)
		}
	}
}
