package server

import (
	"context"
	"net"
	"net/netip"
	"testing"
	"time"

	"github.com/stretchr/testify/require"

	"github.com/osrg/gobgp/v4/api"
	"github.com/osrg/gobgp/v4/internal/pkg/table"
	"github.com/osrg/gobgp/v4/pkg/packet/bgp"
)

// findingConn is only an address holder: fsm.stateChange(ESTABLISHED) reads the
// local/remote TCP address of the session's connection.
type findingConn struct {
	net.Conn
	local, remote *net.TCPAddr
}

func (c *findingConn) LocalAddr() net.Addr                { return c.local }
func (c *findingConn) RemoteAddr() net.Addr               { return c.remote }
func (c *findingConn) Close() error                       { return nil }
func (c *findingConn) Write(b []byte) (int, error)        { return len(b), nil }
func (c *findingConn) SetWriteDeadline(t time.Time) error { return nil }
func (c *findingConn) SetReadDeadline(t time.Time) error  { return nil }

// findingSession drives the real server code the way fsmHandler.loop does for a
// state transition: fsm.stateChange, then the server callback (handleFSMMessage),
// then the state is published.
type findingSession struct {
	t *testing.T
	s *BgpServer
	p *peer
}

func (f *findingSession) transition(next bgp.FSMState, reason *fsmStateReason) {
	f.p.fsm.stateChange(next, reason)
	f.s.handleFSMMessage(f.p, &fsmMsg{
		MsgType:     fsmMsgStateChange,
		MsgData:     next,
		StateReason: reason,
		timestamp:   time.Now(),
	})
	f.p.fsm.state.Store(next)
}

// establish: the peer's OPEN with the given capabilities was received and the
// session reached ESTABLISHED.
func (f *findingSession) establish(caps ...bgp.ParameterCapabilityInterface) {
	caps = append([]bgp.ParameterCapabilityInterface{
		bgp.NewCapMultiProtocol(bgp.RF_IPv4_UC),
		bgp.NewCapFourOctetASNumber(65002),
	}, caps...)
	open, err := bgp.NewBGPOpenMessage(bgp.AS_TRANS, 90, netip.MustParseAddr("2.2.2.2"),
		[]bgp.OptionParameterInterface{bgp.NewOptionParameterCapability(caps)})
	require.NoError(f.t, err)
	f.p.fsm.lock.Lock()
	f.p.fsm.recvOpen = open
	f.p.fsm.conn = &findingConn{
		local:  &net.TCPAddr{IP: net.ParseIP("10.0.0.1").To4(), Port: 179},
		remote: &net.TCPAddr{IP: net.ParseIP("10.0.0.2").To4(), Port: 40000},
	}
	f.p.fsm.lock.Unlock()
	f.transition(bgp.BGP_FSM_ESTABLISHED, newfsmStateReason(fsmOpenMsgNegotiated, nil, nil))
}

// recv: a BGP message arrived on the established session.
func (f *findingSession) recv(m *bgp.BGPMessage) {
	f.s.handleFSMMessage(f.p, &fsmMsg{
		MsgType:   fsmMsgBGPMessage,
		MsgData:   m,
		timestamp: time.Now().Add(time.Second),
	})
}

func findingUpdate(prefixes ...string) *bgp.BGPMessage {
	return findingUpdateComm(nil, prefixes...)
}

func findingUpdateComm(communities []uint32, prefixes ...string) *bgp.BGPMessage {
	nh, _ := bgp.NewPathAttributeNextHop(netip.MustParseAddr("10.0.0.2"))
	attrs := []bgp.PathAttributeInterface{
		bgp.NewPathAttributeOrigin(0),
		bgp.NewPathAttributeAsPath([]bgp.AsPathParamInterface{bgp.NewAs4PathParam(bgp.BGP_ASPATH_ATTR_TYPE_SEQ, []uint32{65002})}),
		nh,
	}
	if len(communities) > 0 {
		attrs = append(attrs, bgp.NewPathAttributeCommunities(communities))
	}
	nlris := make([]bgp.PathNLRI, 0, len(prefixes))
	for _, p := range prefixes {
		n, _ := bgp.NewIPAddrPrefix(netip.MustParsePrefix(p))
		nlris = append(nlris, bgp.PathNLRI{NLRI: n})
	}
	return bgp.NewBGPUpdateMessage(nil, attrs, nlris)
}

func (f *findingSession) adjIn() map[string]*table.Path {
	m := map[string]*table.Path{}
	for _, p := range f.p.adjRibIn.PathList([]bgp.Family{bgp.RF_IPv4_UC}, false) {
		m[p.GetNlri().String()] = p
	}
	return m
}

func (f *findingSession) global() map[string]*table.Path {
	m := map[string]*table.Path{}
	for _, p := range f.s.globalRib.GetBestPathList(table.GLOBAL_RIB_NAME, 0, []bgp.Family{bgp.RF_IPv4_UC}) {
		m[p.GetNlri().String()] = p
	}
	return m
}

func newFindingSession(t *testing.T, llgr bool) *findingSession {
	s := NewBgpServer()
	go s.Serve()
	require.NoError(t, s.StartBgp(context.Background(), &api.StartBgpRequest{
		Global: &api.Global{Asn: 65001, RouterId: "1.1.1.1", ListenPort: -1},
	}))
	t.Cleanup(func() { s.StopBgp(context.Background(), &api.StopBgpRequest{}) })

	af := &api.AfiSafi{
		Config: &api.AfiSafiConfig{
			Family:  &api.Family{Afi: api.Family_AFI_IP, Safi: api.Family_SAFI_UNICAST},
			Enabled: true,
		},
		MpGracefulRestart: &api.MpGracefulRestart{Config: &api.MpGracefulRestartConfig{Enabled: true}},
	}
	if llgr {
		af.LongLivedGracefulRestart = &api.LongLivedGracefulRestart{
			Config: &api.LongLivedGracefulRestartConfig{Enabled: true, RestartTime: 3600},
		}
	}
	require.NoError(t, s.AddPeer(context.Background(), &api.AddPeerRequest{Peer: &api.Peer{
		Conf:            &api.PeerConf{NeighborAddress: "10.0.0.2", PeerAsn: 65002},
		Transport:       &api.Transport{PassiveMode: true},
		GracefulRestart: &api.GracefulRestart{Enabled: true, RestartTime: 120, LonglivedEnabled: llgr},
		AfiSafis:        []*api.AfiSafi{af},
	}}))
	var p *peer
	require.NoError(t, s.mgmtOperation(func() error {
		p = s.neighborMap[netip.MustParseAddr("10.0.0.2")]
		return nil
	}, true))
	require.NotNil(t, p)
	// the peer's own FSM goroutine parks in ACTIVE (passive, nothing listens);
	// wait for that so that it does not interfere with the driven transitions.
	require.Eventually(t, func() bool { return p.State() == bgp.BGP_FSM_ACTIVE }, 20*time.Second, 10*time.Millisecond)
	time.Sleep(100 * time.Millisecond)
	return &findingSession{t: t, s: s, p: p}
}

// Second loss during the long-lived restart window.
//
// Session 1 is lost gracefully, the restart timer expires and the long-lived
// period starts: the retained route gets LLGR_STALE. The peer then comes back,
// announces routes, and the session is lost again (gracefully) before End-of-RIB.
// When the restart timer of that second loss expires, the routes learned in the
// short second session are stale routes of an LLGR peer: they have to carry
// LLGR_STALE (least preferred, only advertised to LLGR-capable peers) and the
// ones marked NO_LLGR have to go.
//
// The unmodified code does nothing at that point (longLivedRunning is still set
// from the first loss, so neither branch of the restart-timer-expired handling
// runs): the routes stay ordinary stale routes without LLGR_STALE, fully
// preferred and advertised to everybody, and the NO_LLGR route is kept, until
// the long-lived timer of the first loss fires (here: one hour).
func TestD82SecondLossDuringLlgr(t *testing.T) {
	f := newFindingSession(t, true)

	caps := []bgp.ParameterCapabilityInterface{
		bgp.NewCapGracefulRestart(false, false, 120,
			[]*bgp.CapGracefulRestartTuple{bgp.NewCapGracefulRestartTuple(bgp.RF_IPv4_UC, true)}),
		bgp.NewCapLongLivedGracefulRestart(
			[]*bgp.CapLongLivedGracefulRestartTuple{bgp.NewCapLongLivedGracefulRestartTuple(bgp.RF_IPv4_UC, true, 3600)}),
	}

	// session 1
	f.establish(caps...)
	require.True(t, f.p.fsm.pConf.ReadOnly().GracefulRestart.State.LongLivedEnabled)
	f.recv(findingUpdate("10.10.1.0/24"))
	f.recv(bgp.NewEndOfRib(bgp.RF_IPv4_UC))

	// first loss, restart timer expires: long-lived period, LLGR_STALE attached
	f.transition(bgp.BGP_FSM_IDLE, newfsmStateReason(fsmGracefulRestart, nil, nil))
	f.transition(bgp.BGP_FSM_IDLE, newfsmStateReason(fsmRestartTimerExpired, nil, nil))
	require.Contains(t, f.adjIn(), "10.10.1.0/24")
	require.True(t, f.adjIn()["10.10.1.0/24"].IsLLGRStale(), "sanity: first loss marks LLGR_STALE")
	require.True(t, f.global()["10.10.1.0/24"].IsLLGRStale())

	// session 2 inside the long-lived window: the peer re-announces its route,
	// announces a new one and one it does not want retained long-lived
	f.transition(bgp.BGP_FSM_ACTIVE, newfsmStateReason(fsmIdleTimerExpired, nil, nil))
	f.establish(caps...)
	f.recv(findingUpdate("10.10.1.0/24", "10.10.2.0/24"))
	f.recv(findingUpdateComm([]uint32{uint32(bgp.COMMUNITY_NO_LLGR)}, "10.10.3.0/24"))
	require.False(t, f.adjIn()["10.10.1.0/24"].IsStale(), "sanity: re-announced route is fresh")

	// second loss before End-of-RIB (transport failure), then its restart timer expires
	f.transition(bgp.BGP_FSM_IDLE, newfsmStateReason(fsmGracefulRestart, nil, nil))
	for _, pfx := range []string{"10.10.1.0/24", "10.10.2.0/24", "10.10.3.0/24"} {
		require.True(t, f.adjIn()[pfx].IsStale(), "sanity: %s stale after second loss", pfx)
	}
	f.transition(bgp.BGP_FSM_IDLE, newfsmStateReason(fsmRestartTimerExpired, nil, nil))

	adj, glob := f.adjIn(), f.global()
	bad := false
	for _, pfx := range []string{"10.10.1.0/24", "10.10.2.0/24"} {
		p, ok := adj[pfx]
		if !ok {
			t.Errorf("%s: dropped although the long-lived timer has not expired", pfx)
			bad = true
			continue
		}
		if !p.IsLLGRStale() {
			t.Errorf("%s: retained after the restart timer expired (stale=%v) but does not carry LLGR_STALE in adj-rib-in", pfx, p.IsStale())
			bad = true
		}
		if g, ok := glob[pfx]; ok && !g.IsLLGRStale() {
			t.Errorf("%s: selected in the global RIB without LLGR_STALE (not depreferenced, advertised to non-LLGR peers)", pfx)
			bad = true
		}
	}
	if _, ok := adj["10.10.3.0/24"]; ok {
		t.Errorf("10.10.3.0/24: carries NO_LLGR but is still retained after the restart timer expired")
		bad = true
	}
	if bad {
		t.FailNow()
	}
}
