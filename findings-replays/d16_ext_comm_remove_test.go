package table

import (
	"fmt"
	"net/netip"
	"testing"
	"time"

	"github.com/osrg/gobgp/v4/pkg/config/oc"
	"github.com/osrg/gobgp/v4/pkg/packet/bgp"
)

// C10: a "remove" ext-community action must remove exactly the communities
// that match its patterns. RegexpRemoveExtCommunities silently drops every
// non-transitive extended community (e.g. link-bandwidth) instead of leaving
// it alone, although no pattern matches it.
func TestD16ExtCommRemove(t *testing.T) {
	nlri, _ := bgp.NewIPAddrPrefix(netip.MustParsePrefix("10.10.0.0/24"))
	nh, _ := bgp.NewPathAttributeNextHop(netip.MustParseAddr("10.0.0.1"))
	rtKeep := bgp.NewTwoOctetAsSpecificExtended(bgp.EC_SUBTYPE_ROUTE_TARGET, 65001, 200, true)
	rtDrop := bgp.NewTwoOctetAsSpecificExtended(bgp.EC_SUBTYPE_ROUTE_TARGET, 65001, 100, true)
	lb := bgp.NewLinkBandwidthExtended(65001, 125000) // non-transitive (type 0x40)
	attrs := []bgp.PathAttributeInterface{
		bgp.NewPathAttributeOrigin(0),
		bgp.NewPathAttributeAsPath([]bgp.AsPathParamInterface{bgp.NewAs4PathParam(bgp.BGP_ASPATH_ATTR_TYPE_SEQ, []uint32{65001})}),
		nh,
		bgp.NewPathAttributeExtendedCommunities([]bgp.ExtendedCommunityInterface{rtKeep, lb, rtDrop}),
	}
	peer := &PeerInfo{AS: 65001, Address: netip.MustParseAddr("10.0.0.1")}
	path := NewPath(bgp.RF_IPv4_UC, peer, bgp.PathNLRI{NLRI: nlri}, false, attrs, time.Now(), false)

	stmt := oc.Statement{Name: "s1"}
	stmt.Actions.RouteDisposition = oc.ROUTE_DISPOSITION_ACCEPT_ROUTE
	stmt.Actions.BgpActions.SetExtCommunity = oc.SetExtCommunity{
		Options:               "remove",
		SetExtCommunityMethod: oc.SetExtCommunityMethod{CommunitiesList: []string{"rt:65001:100"}},
	}
	r := NewRoutingPolicy(logger)
	if err := r.reload(oc.RoutingPolicy{PolicyDefinitions: []oc.PolicyDefinition{{Name: "p1", Statements: []oc.Statement{stmt}}}}); err != nil {
		t.Fatal(err)
	}
	if err := r.SetPolicyAssignment(GLOBAL_RIB_NAME, POLICY_DIRECTION_IMPORT, []*oc.PolicyDefinition{{Name: "p1"}}, ROUTE_TYPE_ACCEPT); err != nil {
		t.Fatal(err)
	}
	after := r.ApplyPolicy(GLOBAL_RIB_NAME, POLICY_DIRECTION_IMPORT, path, nil)
	if after == nil {
		t.Fatal("route rejected")
	}
	got := []string{}
	for _, e := range after.GetExtCommunities() {
		typ, _ := e.GetTypes()
		got = append(got, fmt.Sprintf("type=%#x/%s", uint8(typ), e.String()))
	}
	// model: only rt:65001:100 matches the remove pattern; rt:65001:200 and
	// the link-bandwidth community must survive.
	if len(after.GetExtCommunities()) != 2 {
		t.Fatalf("remove rt:65001:100 should leave 2 ext communities (rt:65001:200 and link-bandwidth 65001:125000), got %d: %v", len(got), got)
	}
}
