package bgp

import (
	"bytes"
	"encoding/binary"
	"testing"
)

// C04: a FlowSpec NLRI whose body is 240 octets or longer must be emitted with
// the RFC 8955 section 4.1 two-octet length (0xfnnn) and must parse back.
func TestD40FlowSpecLongNLRI(t *testing.T) {
	items := make([]*FlowSpecComponentItem, 0, 100)
	for i := 0; i < 100; i++ {
		// 2-octet values: every item is 3 octets on the wire
		items = append(items, NewFlowSpecComponentItem(DEC_NUM_OP_EQ, uint64(1000+i)))
	}
	comp := NewFlowSpecComponent(FLOW_SPEC_TYPE_DST_PORT, items)
	nlri, err := NewFlowSpecUnicast(RF_FS_IPv4_UC, []FlowSpecComponentInterface{comp})
	if err != nil {
		t.Fatal(err)
	}

	body, err := comp.Serialize()
	if err != nil {
		t.Fatal(err)
	}
	if len(body) != 301 {
		t.Fatalf("unexpected component size %d", len(body))
	}
	// independent reading of RFC 8955 4.1: length >= 240 is 0xf000|length
	want := binary.BigEndian.AppendUint16(nil, 0xf000|uint16(len(body)))
	want = append(want, body...)

	got, err := nlri.Serialize()
	if err != nil {
		t.Fatal(err)
	}
	if len(got) != nlri.Len() {
		t.Errorf("Len() = %d but Serialize emitted %d octets", nlri.Len(), len(got))
	}
	if !bytes.Equal(got, want) {
		t.Errorf("bad extended-length framing:\n got  % x ...\n want % x ...", got[:8], want[:8])
	}

	// the decoder must accept the well-formed encoding ...
	dec, err := NLRIFromSlice(RF_FS_IPv4_UC, want)
	if err != nil {
		t.Fatalf("decoder rejects a well-formed 0xfnnn length: %v", err)
	}
	if dec.String() != nlri.String() || dec.Len() != len(want) {
		t.Errorf("decoded NLRI differs: len %d, %d components", dec.Len(), len(dec.(*FlowSpecNLRI).Value))
	}

	// ... and whatever the encoder emits must parse back to an equal NLRI.
	back, err := NLRIFromSlice(RF_FS_IPv4_UC, got)
	if err != nil {
		t.Fatalf("own encoding does not parse: %v", err)
	}
	if back.String() != nlri.String() {
		t.Errorf("round trip lost the NLRI: got %d components, want %d (consumed %d of %d octets)",
			len(back.(*FlowSpecNLRI).Value), len(nlri.Value), back.Len(), len(got))
	}
}
