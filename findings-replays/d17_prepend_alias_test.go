package table

import (
	"net/netip"
	"testing"
	"time"

	"github.com/osrg/gobgp/v4/pkg/config/oc"
	"github.com/osrg/gobgp/v4/pkg/packet/bgp"
)

// C10: "set-as-path-prepend as=65100 repeat-n=255" must put 255 copies of
// 65100 in front of the existing AS_PATH. When the first segment overflows
// (255 ASNs per segment), Path.PrependAsn appends the old segment into the
// spare capacity of its own scratch slice and then uses the overwritten tail
// as the "remaining ASNs to prepend", so the new leading segment contains the
// route's old ASNs instead of the prepended AS.
func TestD17PrependAlias(t *testing.T) {
	nlri, _ := bgp.NewIPAddrPrefix(netip.MustParsePrefix("10.10.0.0/24"))
	nh, _ := bgp.NewPathAttributeNextHop(netip.MustParseAddr("10.0.0.1"))
	attrs := []bgp.PathAttributeInterface{
		bgp.NewPathAttributeOrigin(0),
		bgp.NewPathAttributeAsPath([]bgp.AsPathParamInterface{bgp.NewAs4PathParam(bgp.BGP_ASPATH_ATTR_TYPE_SEQ, []uint32{65001, 65002})}),
		nh,
	}
	peer := &PeerInfo{AS: 65001, Address: netip.MustParseAddr("10.0.0.1")}
	path := NewPath(bgp.RF_IPv4_UC, peer, bgp.PathNLRI{NLRI: nlri}, false, attrs, time.Now(), false)

	stmt := oc.Statement{Name: "s1"}
	stmt.Actions.RouteDisposition = oc.ROUTE_DISPOSITION_ACCEPT_ROUTE
	stmt.Actions.BgpActions.SetAsPathPrepend = oc.SetAsPathPrepend{As: "65100", RepeatN: 255}
	r := NewRoutingPolicy(logger)
	if err := r.reload(oc.RoutingPolicy{PolicyDefinitions: []oc.PolicyDefinition{{Name: "p1", Statements: []oc.Statement{stmt}}}}); err != nil {
		t.Fatal(err)
	}
	if err := r.SetPolicyAssignment(GLOBAL_RIB_NAME, POLICY_DIRECTION_EXPORT, []*oc.PolicyDefinition{{Name: "p1"}}, ROUTE_TYPE_ACCEPT); err != nil {
		t.Fatal(err)
	}
	after := r.ApplyPolicy(GLOBAL_RIB_NAME, POLICY_DIRECTION_EXPORT, path, nil)
	if after == nil {
		t.Fatal("route rejected")
	}

	// plain model: 255 x 65100 followed by the original 65001 65002
	want := make([]uint32, 0, 257)
	for i := 0; i < 255; i++ {
		want = append(want, 65100)
	}
	want = append(want, 65001, 65002)

	got := after.GetAsSeqList()
	if len(got) != len(want) {
		t.Fatalf("AS_PATH length: got %d want %d", len(got), len(want))
	}
	for i := range want {
		if got[i] != want[i] {
			t.Fatalf("AS_PATH[%d] = %d, want %d (first segment of result: %v)", i, got[i], want[i], after.GetAsPath().Value[0].GetAS())
		}
	}
}
