package mrt

import (
	"bytes"
	"net/netip"
	"testing"
	"time"

	"github.com/osrg/gobgp/v4/pkg/packet/bgp"
)

// A TABLE_DUMPv2 RIB_GENERIC record (what the daemon's table dump writes for
// every family other than IPv4/IPv6 unicast/multicast, here VPNv4) must parse
// back to a record of the same family, and the parsed record must serialise to
// the bytes it was read from.
func TestD101MrtRibGenericFamily(t *testing.T) {
	rd, err := bgp.ParseRouteDistinguisher("65000:100")
	if err != nil {
		t.Fatal(err)
	}
	nlri, err := bgp.NewLabeledVPNIPAddrPrefix(netip.MustParsePrefix("10.1.0.0/24"), *bgp.NewMPLSLabelStack(100), rd)
	if err != nil {
		t.Fatal(err)
	}
	mp, err := bgp.NewPathAttributeMpReachNLRI(bgp.RF_IPv4_VPN, []bgp.PathNLRI{{NLRI: nlri}}, netip.MustParseAddr("192.0.2.1"))
	if err != nil {
		t.Fatal(err)
	}
	entry := NewRibEntry(0, 1, 0, []bgp.PathAttributeInterface{bgp.NewPathAttributeOrigin(0), mp}, false)
	rib := NewRib(7, bgp.RF_IPv4_VPN, nlri, []*RibEntry{entry})
	msg, err := NewMRTMessage(time.Unix(100, 0), TABLE_DUMPv2, RIB_GENERIC, rib)
	if err != nil {
		t.Fatal(err)
	}
	buf, err := msg.Serialize()
	if err != nil {
		t.Fatal(err)
	}

	hdr, err := ParseHeader(buf)
	if err != nil {
		t.Fatal(err)
	}
	back, err := ParseBody(buf[MRT_COMMON_HEADER_LEN:], hdr)
	if err != nil {
		t.Fatal(err)
	}
	got := back.Body.(*Rib)
	if got.Family != rib.Family {
		t.Errorf("RIB_GENERIC record of family %v parsed back as family %v", rib.Family, got.Family)
	}

	// second leg: what was parsed is written again (e.g. by a tool filtering a dump)
	buf2, err := back.Serialize()
	if err != nil {
		t.Fatal(err)
	}
	if !bytes.Equal(buf, buf2) {
		t.Errorf("parsed record does not serialise to the bytes it was read from:\n read  % x\n wrote % x", buf, buf2)
	}
	hdr2, err := ParseHeader(buf2)
	if err != nil {
		t.Fatal(err)
	}
	if _, err := ParseBody(buf2[MRT_COMMON_HEADER_LEN:], hdr2); err != nil {
		t.Errorf("re-serialised record no longer parses: %v", err)
	}
}
