package server

import (
	"context"
	"net/netip"
	"testing"
	"time"

	"github.com/stretchr/testify/require"

	"github.com/osrg/gobgp/v4/api"
	"github.com/osrg/gobgp/v4/internal/pkg/table"
	"github.com/osrg/gobgp/v4/pkg/packet/bgp"
)

// A peer that negotiated Route Target Constraint announces the default
// (zero-length) membership, gets every VPN route, and then withdraws the
// default membership. It no longer has a membership for any target, so the VPN
// route has to be withdrawn from it. Instead the route is sent again as a
// reachable route.
func TestD48DefaultMembershipWithdraw(t *testing.T) {
	ctx := context.Background()
	s := NewBgpServer()
	go s.Serve()
	require.NoError(t, s.StartBgp(ctx, &api.StartBgpRequest{
		Global: &api.Global{Asn: 65001, RouterId: "1.1.1.1", ListenPort: -1},
	}))

	peerAddr := netip.MustParseAddr("10.0.0.1")
	p := newPeerandInfo(t, 65001, 65002, peerAddr.String(), s.globalRib)
	p.fsm.state.Store(bgp.BGP_FSM_ESTABLISHED)
	p.fsm.familyMap.Store(map[bgp.Family]bgp.BGPAddPathMode{
		bgp.RF_RTC_UC:   bgp.BGP_ADD_PATH_NONE,
		bgp.RF_IPv4_VPN: bgp.BGP_ADD_PATH_NONE,
	})
	require.NoError(t, s.mgmtOperation(func() error {
		s.neighborMap[peerAddr] = p
		return nil
	}, true))
	t.Cleanup(func() {
		_ = s.mgmtOperation(func() error {
			delete(s.neighborMap, peerAddr)
			return nil
		}, false)
		cleanInfiniteChannel(p.fsm.outgoingCh)
		require.NoError(t, s.StopBgp(ctx, &api.StopBgpRequest{}))
	})

	outgoing := func() []*table.Path {
		t.Helper()
		var paths []*table.Path
		for {
			select {
			case o := <-p.fsm.outgoingCh.Out():
				for _, path := range o.(*fsmOutgoingMsg).Paths {
					if path != nil && !path.IsEOR() {
						paths = append(paths, path)
					}
				}
			case <-time.After(300 * time.Millisecond):
				return paths
			}
		}
	}

	// a locally originated VPNv4 route carrying route target 65001:100
	rd, rt, err := parseRDRT("65001:100")
	require.NoError(t, err)
	nlri, err := bgp.NewLabeledVPNIPAddrPrefix(netip.MustParsePrefix("192.0.2.0/24"), *bgp.NewMPLSLabelStack(100), rd)
	require.NoError(t, err)
	mpReach, err := bgp.NewPathAttributeMpReachNLRI(bgp.RF_IPv4_VPN, []bgp.PathNLRI{{NLRI: nlri}}, netip.MustParseAddr("192.0.2.254"))
	require.NoError(t, err)
	vpn := table.NewPath(bgp.RF_IPv4_VPN, nil, bgp.PathNLRI{NLRI: nlri}, false, []bgp.PathAttributeInterface{
		bgp.NewPathAttributeOrigin(0),
		mpReach,
		bgp.NewPathAttributeExtendedCommunities([]bgp.ExtendedCommunityInterface{rt}),
	}, time.Now(), false)
	s.propagateUpdate(nil, []*table.Path{vpn})
	require.Empty(t, outgoing(), "no membership yet: nothing may be advertised")

	// the peer announces the default membership (RFC 4684: zero-length prefix)
	defaultNLRI := bgp.NewRouteTargetMembershipNLRI(0, nil)
	require.EqualValues(t, 0, defaultNLRI.Length)
	nh, err := bgp.NewPathAttributeMpReachNLRI(bgp.RF_RTC_UC, []bgp.PathNLRI{{NLRI: defaultNLRI}}, peerAddr)
	require.NoError(t, err)
	announce := table.NewPath(bgp.RF_RTC_UC, p.peerInfo.Load(), bgp.PathNLRI{NLRI: defaultNLRI}, false, []bgp.PathAttributeInterface{
		bgp.NewPathAttributeOrigin(0),
		bgp.NewPathAttributeAsPath([]bgp.AsPathParamInterface{bgp.NewAs4PathParam(2, []uint32{65002})}),
		nh,
	}, time.Now(), false)
	s.propagateUpdate(p, []*table.Path{announce})
	sent := outgoing()
	require.Len(t, sent, 1)
	require.False(t, sent[0].IsWithdraw)
	require.Equal(t, bgp.RF_IPv4_VPN, sent[0].GetFamily())
	require.True(t, p.interestedIn(vpn))

	// the peer withdraws the default membership
	withdraw := table.NewPath(bgp.RF_RTC_UC, p.peerInfo.Load(), bgp.PathNLRI{NLRI: defaultNLRI}, true, nil, time.Now(), false)
	s.propagateUpdate(p, []*table.Path{withdraw})
	require.False(t, p.interestedIn(vpn), "the peer has no membership left")

	sent = outgoing()
	require.Len(t, sent, 1, "exactly the withdrawal of the VPN route is needed")
	require.Equal(t, bgp.RF_IPv4_VPN, sent[0].GetFamily())
	require.Equal(t, vpn.GetPrefix(), sent[0].GetPrefix())
	require.True(t, sent[0].IsWithdraw,
		"the default membership was withdrawn, but the VPN route is advertised (IsWithdraw=false) instead of withdrawn")
}
