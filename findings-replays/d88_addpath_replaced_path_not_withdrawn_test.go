package server

import (
	"context"
	"net/netip"
	"testing"
	"time"

	"github.com/osrg/gobgp/v4/api"
	"github.com/osrg/gobgp/v4/internal/pkg/table"
	"github.com/osrg/gobgp/v4/pkg/config/oc"
	"github.com/osrg/gobgp/v4/pkg/packet/bgp"
)

// A peer negotiated Route Target Constraint and ADD-PATH (send) for VPNv4 and
// holds a membership for RT 65001:100 only. A source announces the VPN route
// 65001:100:10.0.0.0/24 with RT 65001:100: it is advertised to the peer. The
// source then re-announces the same route with RT 65001:200 instead (an
// implicit replacement). The peer has no membership for that target, so the
// route it was sent has to be withdrawn. Nothing is sent: the ADD-PATH branch
// of propagateUpdateToNeighbors filters the new version without looking at the
// version it replaces.
func TestD88AddpathReplacedPathNotWithdrawn(t *testing.T) {
	ctx := context.Background()
	s := NewBgpServer()
	go s.Serve()
	if err := s.StartBgp(ctx, &api.StartBgpRequest{
		Global: &api.Global{Asn: 65001, RouterId: "1.1.1.1", ListenPort: -1},
	}); err != nil {
		t.Fatal(err)
	}

	peerAddr := netip.MustParseAddr("10.0.0.1")
	p := newPeerandInfo(t, 65001, 65002, peerAddr.String(), s.globalRib)
	p.policy = s.policy
	p.fsm.state.Store(bgp.BGP_FSM_ESTABLISHED)
	p.fsm.familyMap.Store(map[bgp.Family]bgp.BGPAddPathMode{
		bgp.RF_RTC_UC:   bgp.BGP_ADD_PATH_NONE,
		bgp.RF_IPv4_VPN: bgp.BGP_ADD_PATH_SEND,
	})
	p.fsm.lock.Lock()
	conf := p.fsm.pConf.ReadCopy()
	vpn := oc.AfiSafi{
		Config: oc.AfiSafiConfig{AfiSafiName: oc.AFI_SAFI_TYPE_L3VPN_IPV4_UNICAST, Enabled: true},
		State:  oc.AfiSafiState{AfiSafiName: oc.AFI_SAFI_TYPE_L3VPN_IPV4_UNICAST, Enabled: true, Family: bgp.RF_IPv4_VPN},
	}
	vpn.AddPaths.Config.SendMax = 4
	vpn.AddPaths.State.SendMax = 4
	conf.AfiSafis = append(conf.AfiSafis, vpn)
	p.fsm.pConf.Update(&conf)
	p.fsm.lock.Unlock()
	if err := s.mgmtOperation(func() error {
		s.neighborMap[peerAddr] = p
		return nil
	}, true); err != nil {
		t.Fatal(err)
	}
	t.Cleanup(func() {
		_ = s.mgmtOperation(func() error {
			delete(s.neighborMap, peerAddr)
			return nil
		}, false)
		cleanInfiniteChannel(p.fsm.outgoingCh)
		_ = s.StopBgp(ctx, &api.StopBgpRequest{})
	})

	rt, err := bgp.ParseRouteTarget("65001:100")
	if err != nil {
		t.Fatal(err)
	}
	rd, err := bgp.ParseRouteDistinguisher("65001:100")
	if err != nil {
		t.Fatal(err)
	}
	mkRTC := func(withdraw bool) *table.Path {
		nlri := bgp.NewRouteTargetMembershipNLRI(65002, rt)
		mp, _ := bgp.NewPathAttributeMpReachNLRI(bgp.RF_RTC_UC, []bgp.PathNLRI{{NLRI: nlri}}, peerAddr)
		return table.NewPath(bgp.RF_RTC_UC, p.peerInfo.Load(), bgp.PathNLRI{NLRI: nlri}, withdraw, []bgp.PathAttributeInterface{
			bgp.NewPathAttributeOrigin(0),
			bgp.NewPathAttributeAsPath([]bgp.AsPathParamInterface{bgp.NewAs4PathParam(2, []uint32{65002})}),
			mp,
		}, time.Now(), false)
	}
	mkVPN := func(source string, as uint32, rt bgp.ExtendedCommunityInterface) *table.Path {
		src := netip.MustParseAddr(source)
		nlri, _ := bgp.NewLabeledVPNIPAddrPrefix(netip.MustParsePrefix("10.0.0.0/24"), *bgp.NewMPLSLabelStack(100), rd)
		mp, _ := bgp.NewPathAttributeMpReachNLRI(bgp.RF_IPv4_VPN, []bgp.PathNLRI{{NLRI: nlri}}, src)
		return table.NewPath(bgp.RF_IPv4_VPN, &table.PeerInfo{
			AS: as, ID: src, Address: src,
			LocalAS: 65001, LocalID: netip.MustParseAddr("1.1.1.1"), LocalAddress: netip.MustParseAddr("1.1.1.1"),
		}, bgp.PathNLRI{NLRI: nlri}, false, []bgp.PathAttributeInterface{
			bgp.NewPathAttributeOrigin(0),
			bgp.NewPathAttributeAsPath([]bgp.AsPathParamInterface{bgp.NewAs4PathParam(2, []uint32{as})}),
			mp,
			bgp.NewPathAttributeExtendedCommunities([]bgp.ExtendedCommunityInterface{rt}),
		}, time.Now(), false)
	}
	send := func(from *peer, path *table.Path) {
		t.Helper()
		if err := s.mgmtOperation(func() error {
			s.propagateUpdate(from, []*table.Path{path})
			return nil
		}, true); err != nil {
			t.Fatal(err)
		}
	}
	recv := func() []*table.Path {
		var got []*table.Path
		for {
			select {
			case o := <-p.fsm.outgoingCh.Out():
				for _, path := range o.(*fsmOutgoingMsg).Paths {
					if path != nil && !path.IsEOR() && path.GetFamily() == bgp.RF_IPv4_VPN {
						got = append(got, path)
					}
				}
			case <-time.After(200 * time.Millisecond):
				return got
			}
		}
	}

	rtOther, err := bgp.ParseRouteTarget("65001:200")
	if err != nil {
		t.Fatal(err)
	}

	// the peer announces its membership for 65001:100
	send(p, mkRTC(false))
	recv()

	// the route arrives carrying 65001:100 and is advertised to the peer
	send(nil, mkVPN("10.0.0.2", 65010, rt))
	got := recv()
	if len(got) != 1 || got[0].IsWithdraw {
		t.Fatalf("setup: expected the route to be advertised to the peer, got %v", got)
	}
	id := got[0].LocalID()
	if !p.interestedIn(got[0]) {
		t.Fatal("setup: peer should be interested in the first version")
	}

	// the same source replaces it by a version carrying 65001:200 only
	replacement := mkVPN("10.0.0.2", 65010, rtOther)
	send(nil, replacement)
	if p.interestedIn(replacement) {
		t.Fatal("peer has no membership for 65001:200")
	}
	got = recv()
	if len(got) != 1 || !got[0].IsWithdraw || got[0].LocalID() != id {
		t.Fatalf("the route now carries only %s, for which the peer has no membership, but the version advertised before (path id %d) was not withdrawn from it; sent: %v", rtOther, id, got)
	}
}
