package server

import (
	"context"
	"net"
	"net/netip"
	"slices"
	"testing"
	"time"

	"github.com/stretchr/testify/require"

	"github.com/osrg/gobgp/v4/api"
	"github.com/osrg/gobgp/v4/internal/pkg/table"
	"github.com/osrg/gobgp/v4/pkg/config/oc"
	"github.com/osrg/gobgp/v4/pkg/packet/bgp"
)

// C12: with long-lived GR the stale routes are kept (carrying LLGR_STALE) until
// the per-family long-lived timer expires - and then the helper is done with
// this restart of the peer.
//
// peer.llgrRestartTimerExpired() is supposed to report "all LLGR timers have
// expired" so that the server calls stopPeerRestarting().  It sets
// PeerRestartTimerExpired in conf.AfiSafis[i] but then tests the range COPY
// `a`, which still has the old value, so for the family whose timer has just
// fired it always sees "not expired" and returns false.  After the last LLGR
// timer has fired the peer therefore stays PeerRestarting=true /
// longLivedRunning=true for ever.  If the peer then comes back, re-announces
// its routes and is lost again before its End-of-RIB, the restart timer expiry
// finds longLivedRunning still set and does nothing at all: no LLGR_STALE, no
// LLGR timer, no removal - the stale routes of that session live for ever.
//
// The test drives the real FSM bookkeeping (fsm.stateChange) and the real
// server event handler (handleFSMMessage) exactly like fsmHandler.loop does.
func TestD50LlgrAllExpired(t *testing.T) {
	ctx := context.Background()
	s := NewBgpServer()
	go s.Serve()
	require.NoError(t, s.StartBgp(ctx, &api.StartBgpRequest{
		Global: &api.Global{Asn: 65001, RouterId: "1.1.1.1", ListenPort: -1},
	}))

	peerAddr := netip.MustParseAddr("10.0.0.2")
	nConf := &oc.Neighbor{
		Config: oc.NeighborConfig{PeerAs: 65002, NeighborAddress: peerAddr},
		State:  oc.NeighborState{NeighborAddress: peerAddr},
		GracefulRestart: oc.GracefulRestart{Config: oc.GracefulRestartConfig{
			Enabled: true, RestartTime: 120, LongLivedEnabled: true,
		}},
		AfiSafis: []oc.AfiSafi{{
			Config:                   oc.AfiSafiConfig{AfiSafiName: oc.AFI_SAFI_TYPE_IPV4_UNICAST, Enabled: true},
			MpGracefulRestart:        oc.MpGracefulRestart{Config: oc.MpGracefulRestartConfig{Enabled: true}},
			LongLivedGracefulRestart: oc.LongLivedGracefulRestart{Config: oc.LongLivedGracefulRestartConfig{Enabled: true, RestartTime: 100}},
		}},
	}
	require.NoError(t, oc.SetDefaultNeighborConfigValues(nConf, nil, &s.bgpConfig.Global))
	p := newPeer(&s.bgpConfig.Global, nConf, bgp.BGP_FSM_IDLE, s.globalRib, s.policy, s.logger)
	require.NoError(t, s.mgmtOperation(func() error {
		s.neighborMap[peerAddr] = p
		return nil
	}, true))
	t.Cleanup(func() {
		_ = s.mgmtOperation(func() error {
			p.stopPeerRestarting()
			delete(s.neighborMap, peerAddr)
			return nil
		}, false)
		cleanInfiniteChannel(p.fsm.outgoingCh)
		_ = s.StopBgp(ctx, &api.StopBgpRequest{})
	})

	// fsm.stateChange(ESTABLISHED) wants a TCP connection to read the addresses from.
	ln, err := net.Listen("tcp", "127.0.0.1:0")
	require.NoError(t, err)
	defer ln.Close()
	c1, err := net.Dial("tcp", ln.Addr().String())
	require.NoError(t, err)
	defer c1.Close()
	c2, err := ln.Accept()
	require.NoError(t, err)
	defer c2.Close()
	p.fsm.conn = c1

	// OPEN of the peer: GR (restart time 120s) and LLGR (long-lived stale time 1s) for ipv4-unicast.
	peerOpen := func(restarting bool) *bgp.BGPMessage {
		caps := []bgp.ParameterCapabilityInterface{
			bgp.NewCapMultiProtocol(bgp.RF_IPv4_UC),
			bgp.NewCapFourOctetASNumber(65002),
			bgp.NewCapGracefulRestart(restarting, false, 120, []*bgp.CapGracefulRestartTuple{
				bgp.NewCapGracefulRestartTuple(bgp.RF_IPv4_UC, true),
			}),
			bgp.NewCapLongLivedGracefulRestart([]*bgp.CapLongLivedGracefulRestartTuple{
				bgp.NewCapLongLivedGracefulRestartTuple(bgp.RF_IPv4_UC, true, 1),
			}),
		}
		m, err := bgp.NewBGPOpenMessage(bgp.AS_TRANS, 90, netip.MustParseAddr("2.2.2.2"),
			[]bgp.OptionParameterInterface{bgp.NewOptionParameterCapability(caps)})
		require.NoError(t, err)
		return m
	}
	// what fsmHandler.loop does on every state transition
	transition := func(next bgp.FSMState, typ fsmStateReasonType) {
		reason := newfsmStateReason(typ, nil, nil)
		p.fsm.stateChange(next, reason)
		s.handleFSMMessage(p, &fsmMsg{MsgType: fsmMsgStateChange, MsgData: next, StateReason: reason})
		p.fsm.state.Store(next)
	}
	// what fsmHandler.recvMessageloop does for every received UPDATE
	recv := func(m *bgp.BGPMessage) {
		s.handleFSMMessage(p, &fsmMsg{MsgType: fsmMsgBGPMessage, MsgData: m, timestamp: time.Now()})
	}
	establish := func(restarting bool) {
		p.fsm.recvOpen = peerOpen(restarting)
		transition(bgp.BGP_FSM_ACTIVE, fsmIdleTimerExpired)
		transition(bgp.BGP_FSM_OPENSENT, fsmNewConnection)
		transition(bgp.BGP_FSM_OPENCONFIRM, fsmOpenMsgReceived)
		transition(bgp.BGP_FSM_ESTABLISHED, fsmOpenMsgNegotiated)
	}
	update := func(prefix string) *bgp.BGPMessage {
		nlri, err := bgp.NewIPAddrPrefix(netip.MustParsePrefix(prefix))
		require.NoError(t, err)
		nh, err := bgp.NewPathAttributeNextHop(netip.MustParseAddr("10.0.0.2"))
		require.NoError(t, err)
		return bgp.NewBGPUpdateMessage(nil, []bgp.PathAttributeInterface{
			bgp.NewPathAttributeOrigin(0),
			bgp.NewPathAttributeAsPath([]bgp.AsPathParamInterface{bgp.NewAs4PathParam(2, []uint32{65002})}),
			nh,
		}, []bgp.PathNLRI{{NLRI: nlri}})
	}
	adjIn := func() []*table.Path {
		return p.adjRibIn.PathList([]bgp.Family{bgp.RF_IPv4_UC}, false)
	}
	inGlobal := func() []string {
		l := []string{}
		for _, path := range s.globalRib.GetBestPathList(table.GLOBAL_RIB_NAME, 0, []bgp.Family{bgp.RF_IPv4_UC}) {
			l = append(l, path.GetPrefix())
		}
		slices.Sort(l)
		return l
	}

	// session 1: the peer announces a route and End-of-RIB
	establish(false)
	recv(update("10.10.0.0/24"))
	recv(bgp.NewEndOfRib(bgp.RF_IPv4_UC))
	require.Len(t, adjIn(), 1)
	require.Equal(t, []string{"10.10.0.0/24"}, inGlobal())

	// transport failure -> GR: route stale; restart timer expires -> LLGR phase (1s)
	transition(bgp.BGP_FSM_IDLE, fsmGracefulRestart)
	require.Len(t, adjIn(), 1)
	require.True(t, adjIn()[0].IsStale())
	transition(bgp.BGP_FSM_IDLE, fsmRestartTimerExpired)
	require.Len(t, adjIn(), 1)
	require.True(t, adjIn()[0].IsLLGRStale())
	require.True(t, p.longLivedRunning.Load())

	// the only LLGR timer (1s) expires: the route goes (correct) ...
	require.Eventually(t, func() bool { return len(adjIn()) == 0 && len(inGlobal()) == 0 },
		5*time.Second, 50*time.Millisecond, "LLGR-stale route removed when the long-lived timer expires")
	time.Sleep(300 * time.Millisecond)
	// ... and the helper must be done with this restart.
	conf := p.fsm.pConf.ReadOnly()
	if conf.GracefulRestart.State.PeerRestarting || p.longLivedRunning.Load() || conf.AfiSafis[0].LongLivedGracefulRestart.State.Running {
		t.Errorf("all LLGR timers have expired but the peer is still flagged as restarting: "+
			"PeerRestarting=%v longLivedRunning=%v LLGR.State.Running=%v PeerRestartTimerExpired=%v",
			conf.GracefulRestart.State.PeerRestarting, p.longLivedRunning.Load(),
			conf.AfiSafis[0].LongLivedGracefulRestart.State.Running,
			conf.AfiSafis[0].LongLivedGracefulRestart.State.PeerRestartTimerExpired)
	}

	// session 2: the peer comes back, re-announces the route, and is lost again
	// before it has sent End-of-RIB.
	establish(true)
	recv(update("10.10.0.0/24"))
	require.Len(t, adjIn(), 1)
	require.False(t, adjIn()[0].IsStale())
	transition(bgp.BGP_FSM_IDLE, fsmGracefulRestart)
	require.Len(t, adjIn(), 1)
	require.True(t, adjIn()[0].IsStale())

	// the restart timer expires without re-establishment: the stale route must
	// either be removed or enter the LLGR phase (LLGR_STALE + 1s timer).
	transition(bgp.BGP_FSM_IDLE, fsmRestartTimerExpired)
	time.Sleep(3 * time.Second)
	if l := adjIn(); len(l) != 0 {
		t.Fatalf("restart timer and long-lived stale time (1s) are over but the stale route is still there "+
			"with no timer left to remove it: %s stale=%v llgr-stale=%v global=%v",
			l[0].GetPrefix(), l[0].IsStale(), l[0].IsLLGRStale(), inGlobal())
	}
}
