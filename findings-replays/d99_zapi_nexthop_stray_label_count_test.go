package zebra

import (
	"net/netip"
	"reflect"
	"syscall"
	"testing"
)

// A plain (unlabelled) route with one gateway next hop, as gobgp sends it to
// zebra with ROUTE_ADD, must parse back for every ZAPI 6 flavour.
func TestD99ZapiNexthopStrayLabelCount(t *testing.T) {
	const version = 6
	for _, name := range []string{"frr6", "frr7", "frr7.1", "frr7.2", "frr7.3", "frr7.5", "frr8.1"} {
		software := NewSoftware(version, name)
		body := &IPRouteBody{
			Type:    RouteBGP,
			Safi:    SafiUnicast,
			Message: MessageNexthop | MessageMetric, // no MessageLabel, no label flag
			Prefix: Prefix{
				Family:    syscall.AF_INET,
				PrefixLen: 24,
				Prefix:    netip.MustParseAddr("10.0.0.0"),
			},
			Nexthops: []Nexthop{{
				Type: nexthopTypeIPv4,
				Gate: netip.MustParseAddr("192.168.1.1"),
			}},
			Metric: 100,
		}
		m := &Message{
			Header: Header{
				Marker:  HeaderMarker(version),
				Version: version,
				Command: RouteAdd.ToEach(version, software),
			},
			Body: body,
		}
		buf, err := m.Serialize(software)
		if err != nil {
			t.Fatalf("%s: serialize: %v", name, err)
		}
		hdr := &Header{}
		if err := hdr.decodeFromBytes(buf); err != nil {
			t.Fatalf("%s: header: %v", name, err)
		}
		back, err := parseMessage(hdr, buf[HeaderSize(version):], software)
		if err != nil {
			t.Errorf("%s: the serialised route does not parse back: %v (bytes % x)", name, err, buf)
			continue
		}
		got := back.Body.(*IPRouteBody)
		if !reflect.DeepEqual(got.Nexthops, body.Nexthops) || got.Metric != body.Metric {
			t.Errorf("%s: parsed back differently: nexthops %+v metric %d", name, got.Nexthops, got.Metric)
		}
	}
}
