package table

import (
	"encoding/binary"
	"testing"
	"time"

	"github.com/osrg/gobgp/v4/pkg/packet/bgp"
)

// C06: a labeled-unicast (SAFI 4) NLRI must carry at least one 3-octet label
// (RFC 8277 2.2/2.3: Length = 24 bits of label + prefix bits). An NLRI
// "16 | 10.1" has a Length too short for any label: it is malformed and has
// to be contained, not installed as a route.
func TestD108LabelledUnicastWithoutLabel(t *testing.T) {
	attr := func(flags, typ byte, val []byte) []byte {
		return append([]byte{flags, typ, byte(len(val))}, val...)
	}

	mp := []byte{0, 1, 4, 4, 10, 0, 0, 2, 0} // AFI 1 SAFI 4, next hop 10.0.0.2, reserved
	mp = append(mp, 16, 10, 1)               // FAULT: Length 16 bits, no room for a label

	attrs := []byte{}
	attrs = append(attrs, attr(0x40, 1, []byte{0})...)                       // ORIGIN
	attrs = append(attrs, attr(0x40, 2, []byte{2, 1, 0, 0, 0xfd, 0xe8})...) // AS_PATH 65000
	attrs = append(attrs, attr(0x80, 14, mp)...)                            // MP_REACH_NLRI
	body := []byte{0, 0, 0, 0}
	binary.BigEndian.PutUint16(body[2:], uint16(len(attrs)))
	body = append(body, attrs...)

	rfs := map[bgp.Family]bgp.BGPAddPathMode{bgp.RF_IPv4_UC: 0, bgp.RF_IPv4_MPLS: 0}
	opt := &bgp.MarshallingOption{AddPath: rfs}
	hdr := &bgp.BGPHeader{Type: bgp.BGP_MSG_UPDATE, Len: uint16(bgp.BGP_HEADER_LENGTH + len(body))}

	msg, err := bgp.ParseBGPBody(hdr, body, opt)
	if err != nil {
		t.Logf("contained at decode: %v", err)
		return
	}
	if ok, verr := bgp.ValidateUpdateMsg(msg.Body.(*bgp.BGPUpdate), rfs, true, false, false); !ok {
		t.Logf("contained at validation: %v", verr)
		return
	}

	paths := ProcessMessage(msg, &PeerInfo{AS: 65000}, time.Now(), false)
	for _, p := range paths {
		if p.IsWithdraw {
			continue
		}
		n := p.GetNlri().(*bgp.LabeledIPAddrPrefix)
		_, serr := n.Serialize()
		t.Errorf("labeled-unicast NLRI without a label was accepted as well-formed and yields the route %s (family %s) with label stack %v; serializing it: %v",
			n, p.GetFamily(), n.Labels.Labels, serr)

		// second-order effect: the UPDATE that carries the route cannot be
		// serialized (fsm.sendMessageloop drops it, with every NLRI packed in it)
		for _, out := range CreateUpdateMsgFromPaths([]*Path{p}, opt) {
			if _, err := out.Serialize(opt); err != nil {
				t.Errorf("UPDATE built from the installed route cannot be serialized: %v", err)
			}
		}
	}
}
