package server

import (
	"context"
	"io"
	"net"
	"net/netip"
	"sync"
	"testing"
	"time"

	"github.com/osrg/gobgp/v4/api"
	"github.com/osrg/gobgp/v4/pkg/apiutil"
	"github.com/osrg/gobgp/v4/pkg/config/oc"
	"github.com/osrg/gobgp/v4/pkg/packet/bgp"
)

// C07: an OPEN received in the Established state is an unexpected message:
// RFC 4271 8.2.2 / RFC 6608 section 4 require a NOTIFICATION Finite State
// Machine Error (5), subcode 3 "Receive Unexpected Message in Established
// State", and the session goes to Idle.
//
// recvMessageloop() has no case for BGP_MSG_OPEN: the message is handed to the
// server, which ignores it, and the session simply stays Established.
func TestD81OpenInEstablished(t *testing.T) {
	s, p := c07f2Server(t, c07f2Neighbor())
	rem := c07f2Establish(t, s, p, c07f2Open())

	// a second OPEN on the established session
	rem.send(t, c07f2Open())

	if !c07f2Eventually(3*time.Second, func() bool { return len(rem.notifications()) > 0 }) {
		t.Fatalf("OPEN received in Established: no NOTIFICATION was sent, session state is %s (want FSM Error 5/3 and Idle)", c07f2State(s))
	}
	nt := rem.notifications()[0]
	if nt.ErrorCode != bgp.BGP_ERROR_FSM_ERROR || nt.ErrorSubcode != bgp.BGP_ERROR_SUB_RECEIVE_UNEXPECTED_MESSAGE_IN_ESTABLISHED_STATE {
		t.Fatalf("NOTIFICATION %d/%d, want 5/3", nt.ErrorCode, nt.ErrorSubcode)
	}
	if !c07f2Eventually(3*time.Second, func() bool { return c07f2State(s) != bgp.BGP_FSM_ESTABLISHED }) {
		t.Fatal("session still Established")
	}
	_ = c07f2Update
	_ = c07f2RibCount
}

// ---- test harness (no code under test is replaced: a real BgpServer and the
// real FSM goroutines run; only the TCP connection is an in-memory pipe that
// is handed to the peer the same way an accepted connection is) ----

type c07f2Conn struct{ net.Conn }

func (c *c07f2Conn) RemoteAddr() net.Addr {
	return &net.TCPAddr{IP: net.ParseIP("127.0.0.1").To4(), Port: 10179}
}

func (c *c07f2Conn) LocalAddr() net.Addr {
	return &net.TCPAddr{IP: net.ParseIP("127.0.0.201").To4(), Port: 179}
}

// c07f2Remote is the BGP speaker at the other end of the pipe.
type c07f2Remote struct {
	conn net.Conn
	mu   sync.Mutex
	msgs []*bgp.BGPMessage
}

func (r *c07f2Remote) run() {
	for {
		hb := make([]byte, bgp.BGP_HEADER_LENGTH)
		if _, err := io.ReadFull(r.conn, hb); err != nil {
			return
		}
		h := &bgp.BGPHeader{}
		if err := h.DecodeFromBytes(hb); err != nil {
			return
		}
		body := make([]byte, int(h.Len)-bgp.BGP_HEADER_LENGTH)
		if _, err := io.ReadFull(r.conn, body); err != nil {
			return
		}
		if m, err := bgp.ParseBGPBody(h, body); err == nil {
			r.mu.Lock()
			r.msgs = append(r.msgs, m)
			r.mu.Unlock()
		}
	}
}

func (r *c07f2Remote) send(t *testing.T, m *bgp.BGPMessage) {
	t.Helper()
	b, err := m.Serialize()
	if err != nil {
		t.Fatal(err)
	}
	_ = r.conn.SetWriteDeadline(time.Now().Add(2 * time.Second))
	_, _ = r.conn.Write(b)
}

func (r *c07f2Remote) notifications() []*bgp.BGPNotification {
	r.mu.Lock()
	defer r.mu.Unlock()
	var l []*bgp.BGPNotification
	for _, m := range r.msgs {
		if m.Header.Type == bgp.BGP_MSG_NOTIFICATION {
			l = append(l, m.Body.(*bgp.BGPNotification))
		}
	}
	return l
}

func c07f2Eventually(d time.Duration, f func() bool) bool {
	deadline := time.Now().Add(d)
	for time.Now().Before(deadline) {
		if f() {
			return true
		}
		time.Sleep(10 * time.Millisecond)
	}
	return f()
}

var c07f2Addr = netip.MustParseAddr("127.0.0.1")

func c07f2State(s *BgpServer) bgp.FSMState {
	st := bgp.FSMState(-1)
	_ = s.mgmtOperation(func() error {
		if p, ok := s.neighborMap[c07f2Addr]; ok {
			st = p.State()
		}
		return nil
	}, false)
	return st
}

// c07f2Server starts a server (AS 65001, no listener) with one passive iBGP
// neighbour 127.0.0.1 and waits until that neighbour is Active.
func c07f2Server(t *testing.T, n *oc.Neighbor) (*BgpServer, *peer) {
	t.Helper()
	s := NewBgpServer()
	go s.Serve()
	err := s.StartBgp(context.Background(), &api.StartBgpRequest{
		Global: &api.Global{Asn: 65001, RouterId: "1.1.1.1", ListenPort: -1},
	})
	if err != nil {
		t.Fatal(err)
	}
	t.Cleanup(func() { _ = s.StopBgp(context.Background(), &api.StopBgpRequest{}) })
	if err := s.AddPeer(context.Background(), &api.AddPeerRequest{Peer: oc.NewPeerFromConfigStruct(n)}); err != nil {
		t.Fatal(err)
	}
	if !c07f2Eventually(5*time.Second, func() bool { return c07f2State(s) == bgp.BGP_FSM_ACTIVE }) {
		t.Fatal("neighbour did not become Active")
	}
	var p *peer
	_ = s.mgmtOperation(func() error { p = s.neighborMap[c07f2Addr]; return nil }, false)
	return s, p
}

// c07f2Establish hands the neighbour a connection and completes the handshake
// (OPEN, KEEPALIVE) from the remote side.
func c07f2Establish(t *testing.T, s *BgpServer, p *peer, open *bgp.BGPMessage) *c07f2Remote {
	t.Helper()
	l, r := net.Pipe()
	rem := &c07f2Remote{conn: r}
	go rem.run()
	t.Cleanup(func() { r.Close(); l.Close() })
	p.PassConn(&c07f2Conn{l})
	rem.send(t, open)
	rem.send(t, bgp.NewBGPKeepAliveMessage())
	if !c07f2Eventually(5*time.Second, func() bool { return c07f2State(s) == bgp.BGP_FSM_ESTABLISHED }) {
		t.Fatal("session did not become Established")
	}
	return rem
}

func c07f2Neighbor() *oc.Neighbor {
	return &oc.Neighbor{
		Config: oc.NeighborConfig{
			NeighborAddress: c07f2Addr,
			PeerAs:          65001,
		},
		Transport: oc.Transport{Config: oc.TransportConfig{PassiveMode: true}},
		Timers:    oc.Timers{Config: oc.TimersConfig{HoldTime: 90, KeepaliveInterval: 30}},
		AfiSafis: []oc.AfiSafi{{
			Config: oc.AfiSafiConfig{AfiSafiName: oc.AFI_SAFI_TYPE_IPV4_UNICAST, Enabled: true},
		}},
	}
}

func c07f2Open(extra ...bgp.ParameterCapabilityInterface) *bgp.BGPMessage {
	caps := []bgp.ParameterCapabilityInterface{
		bgp.NewCapRouteRefresh(),
		bgp.NewCapMultiProtocol(bgp.RF_IPv4_UC),
		bgp.NewCapFourOctetASNumber(65001),
	}
	caps = append(caps, extra...)
	m, _ := bgp.NewBGPOpenMessage(65001, 90, netip.MustParseAddr("2.2.2.2"),
		[]bgp.OptionParameterInterface{bgp.NewOptionParameterCapability(caps)})
	return m
}

func c07f2Update(prefixes ...string) *bgp.BGPMessage {
	nh, _ := bgp.NewPathAttributeNextHop(netip.MustParseAddr("127.0.0.1"))
	attrs := []bgp.PathAttributeInterface{
		bgp.NewPathAttributeOrigin(0),
		bgp.NewPathAttributeAsPath([]bgp.AsPathParamInterface{bgp.NewAs4PathParam(2, []uint32{65010})}),
		nh,
	}
	var nlri []bgp.PathNLRI
	for _, p := range prefixes {
		n, _ := bgp.NewIPAddrPrefix(netip.MustParsePrefix(p))
		nlri = append(nlri, bgp.PathNLRI{NLRI: n})
	}
	return bgp.NewBGPUpdateMessage(nil, attrs, nlri)
}

func c07f2RibCount(t *testing.T, s *BgpServer) int {
	t.Helper()
	n := 0
	err := s.ListPath(apiutil.ListPathRequest{TableType: api.TableType_TABLE_TYPE_GLOBAL, Family: bgp.RF_IPv4_UC},
		func(_ bgp.NLRI, paths []*apiutil.Path) { n += len(paths) })
	if err != nil {
		t.Fatal(err)
	}
	return n
}
