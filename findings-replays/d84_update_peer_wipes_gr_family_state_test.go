package server

import (
	"context"
	"net"
	"net/netip"
	"testing"
	"time"

	"github.com/stretchr/testify/require"

	"github.com/osrg/gobgp/v4/api"
	"github.com/osrg/gobgp/v4/internal/pkg/table"
	"github.com/osrg/gobgp/v4/pkg/packet/bgp"
)

// findingConn is only an address holder: fsm.stateChange(ESTABLISHED) reads the
// local/remote TCP address of the session's connection.
type findingConn struct {
	net.Conn
	local, remote *net.TCPAddr
}

func (c *findingConn) LocalAddr() net.Addr                { return c.local }
func (c *findingConn) RemoteAddr() net.Addr               { return c.remote }
func (c *findingConn) Close() error                       { return nil }
func (c *findingConn) Write(b []byte) (int, error)        { return len(b), nil }
func (c *findingConn) SetWriteDeadline(t time.Time) error { return nil }
func (c *findingConn) SetReadDeadline(t time.Time) error  { return nil }

// findingSession drives the real server code the way fsmHandler.loop does for a
// state transition: fsm.stateChange, then the server callback (handleFSMMessage),
// then the state is published.
type findingSession struct {
	t *testing.T
	s *BgpServer
	p *peer
}

func (f *findingSession) transition(next bgp.FSMState, reason *fsmStateReason) {
	f.p.fsm.stateChange(next, reason)
	f.s.handleFSMMessage(f.p, &fsmMsg{
		MsgType:     fsmMsgStateChange,
		MsgData:     next,
		StateReason: reason,
		timestamp:   time.Now(),
	})
	f.p.fsm.state.Store(next)
}

// establish: the peer's OPEN with the given capabilities was received and the
// session reached ESTABLISHED.
func (f *findingSession) establish(caps ...bgp.ParameterCapabilityInterface) {
	caps = append([]bgp.ParameterCapabilityInterface{
		bgp.NewCapMultiProtocol(bgp.RF_IPv4_UC),
		bgp.NewCapFourOctetASNumber(65002),
	}, caps...)
	open, err := bgp.NewBGPOpenMessage(bgp.AS_TRANS, 90, netip.MustParseAddr("2.2.2.2"),
		[]bgp.OptionParameterInterface{bgp.NewOptionParameterCapability(caps)})
	require.NoError(f.t, err)
	f.p.fsm.lock.Lock()
	f.p.fsm.recvOpen = open
	f.p.fsm.conn = &findingConn{
		local:  &net.TCPAddr{IP: net.ParseIP("10.0.0.1").To4(), Port: 179},
		remote: &net.TCPAddr{IP: net.ParseIP("10.0.0.2").To4(), Port: 40000},
	}
	f.p.fsm.lock.Unlock()
	f.transition(bgp.BGP_FSM_ESTABLISHED, newfsmStateReason(fsmOpenMsgNegotiated, nil, nil))
}

// recv: a BGP message arrived on the established session.
func (f *findingSession) recv(m *bgp.BGPMessage) {
	f.s.handleFSMMessage(f.p, &fsmMsg{
		MsgType:   fsmMsgBGPMessage,
		MsgData:   m,
		timestamp: time.Now().Add(time.Second),
	})
}

func findingUpdate(prefixes ...string) *bgp.BGPMessage {
	nh, _ := bgp.NewPathAttributeNextHop(netip.MustParseAddr("10.0.0.2"))
	attrs := []bgp.PathAttributeInterface{
		bgp.NewPathAttributeOrigin(0),
		bgp.NewPathAttributeAsPath([]bgp.AsPathParamInterface{bgp.NewAs4PathParam(bgp.BGP_ASPATH_ATTR_TYPE_SEQ, []uint32{65002})}),
		nh,
	}
	nlris := make([]bgp.PathNLRI, 0, len(prefixes))
	for _, p := range prefixes {
		n, _ := bgp.NewIPAddrPrefix(netip.MustParsePrefix(p))
		nlris = append(nlris, bgp.PathNLRI{NLRI: n})
	}
	return bgp.NewBGPUpdateMessage(nil, attrs, nlris)
}

func (f *findingSession) adjIn() map[string]*table.Path {
	m := map[string]*table.Path{}
	for _, p := range f.p.adjRibIn.PathList([]bgp.Family{bgp.RF_IPv4_UC}, false) {
		m[p.GetNlri().String()] = p
	}
	return m
}

func (f *findingSession) global() map[string]*table.Path {
	m := map[string]*table.Path{}
	for _, p := range f.s.globalRib.GetBestPathList(table.GLOBAL_RIB_NAME, 0, []bgp.Family{bgp.RF_IPv4_UC}) {
		m[p.GetNlri().String()] = p
	}
	return m
}

func findingPeerConf(af *api.AfiSafi, llgr bool) *api.Peer {
	return &api.Peer{
		Conf:            &api.PeerConf{NeighborAddress: "10.0.0.2", PeerAsn: 65002},
		Transport:       &api.Transport{PassiveMode: true},
		GracefulRestart: &api.GracefulRestart{Enabled: true, RestartTime: 120, LonglivedEnabled: llgr},
		AfiSafis:        []*api.AfiSafi{af},
	}
}

func findingAfiSafi(llgr bool, maxPrefixes uint32) *api.AfiSafi {
	af := &api.AfiSafi{
		Config: &api.AfiSafiConfig{
			Family:  &api.Family{Afi: api.Family_AFI_IP, Safi: api.Family_SAFI_UNICAST},
			Enabled: true,
		},
		MpGracefulRestart: &api.MpGracefulRestart{Config: &api.MpGracefulRestartConfig{Enabled: true}},
	}
	if llgr {
		af.LongLivedGracefulRestart = &api.LongLivedGracefulRestart{
			Config: &api.LongLivedGracefulRestartConfig{Enabled: true, RestartTime: 3600},
		}
	}
	if maxPrefixes > 0 {
		af.PrefixLimits = &api.PrefixLimit{
			Family:      &api.Family{Afi: api.Family_AFI_IP, Safi: api.Family_SAFI_UNICAST},
			MaxPrefixes: maxPrefixes,
		}
	}
	return af
}

func newFindingSession(t *testing.T, llgr bool) *findingSession {
	s := NewBgpServer()
	go s.Serve()
	require.NoError(t, s.StartBgp(context.Background(), &api.StartBgpRequest{
		Global: &api.Global{Asn: 65001, RouterId: "1.1.1.1", ListenPort: -1},
	}))
	t.Cleanup(func() { s.StopBgp(context.Background(), &api.StopBgpRequest{}) })

	af := findingAfiSafi(llgr, 0)
	require.NoError(t, s.AddPeer(context.Background(), &api.AddPeerRequest{Peer: findingPeerConf(af, llgr)}))
	var p *peer
	require.NoError(t, s.mgmtOperation(func() error {
		p = s.neighborMap[netip.MustParseAddr("10.0.0.2")]
		return nil
	}, true))
	require.NotNil(t, p)
	// the peer's own FSM goroutine parks in ACTIVE (passive, nothing listens);
	// wait for that so that it does not interfere with the driven transitions.
	require.Eventually(t, func() bool { return p.State() == bgp.BGP_FSM_ACTIVE }, 20*time.Second, 10*time.Millisecond)
	time.Sleep(100 * time.Millisecond)
	return &findingSession{t: t, s: s, p: p}
}

// An UpdatePeer API call that does not require a new OPEN (here: the operator sets
// a maximum-prefix limit on the running session) replaces the neighbour's whole
// AfiSafis slice with the one built from the request
// (peer.updatePrefixLimitConfig: "conf.AfiSafis = c"). That slice carries no
// operational state, so what the peer negotiated for this session is lost:
// MpGracefulRestart.State.Received (the families of the peer's GR capability),
// LongLivedGracefulRestart.State.{Enabled,Received,PeerRestartTime}, EndOfRibReceived.
//
// When the transport then fails, the loss is handled as a graceful restart
// (PeerRestarting becomes true) but no family counts as "listed in the peer's GR
// capability" any more: every route of the peer is removed at once instead of
// being kept as stale.
func TestD84UpdatePeerWipesGrFamilyState(t *testing.T) {
	f := newFindingSession(t, false)

	gr := bgp.NewCapGracefulRestart(false, false, 120,
		[]*bgp.CapGracefulRestartTuple{bgp.NewCapGracefulRestartTuple(bgp.RF_IPv4_UC, true)})

	f.establish(gr)
	require.True(t, f.p.fsm.pConf.ReadOnly().GracefulRestart.State.Enabled)
	require.True(t, f.p.fsm.pConf.ReadOnly().AfiSafis[0].MpGracefulRestart.State.Received)
	f.recv(findingUpdate("10.10.1.0/24"))
	f.recv(bgp.NewEndOfRib(bgp.RF_IPv4_UC))
	require.Contains(t, f.global(), "10.10.1.0/24")

	// the operator configures a (generous) prefix limit; same peer otherwise
	rsp, err := f.s.UpdatePeer(context.Background(), &api.UpdatePeerRequest{
		Peer: findingPeerConf(findingAfiSafi(false, 1000), false),
	})
	require.NoError(t, err)
	_ = rsp
	// the session was not touched by the update
	var same bool
	require.NoError(t, f.s.mgmtOperation(func() error {
		same = f.s.neighborMap[netip.MustParseAddr("10.0.0.2")] == f.p
		return nil
	}, true))
	require.True(t, same, "UpdatePeer must not have re-created the peer")
	require.Equal(t, bgp.BGP_FSM_ESTABLISHED, f.p.State())
	require.Equal(t, uint32(1000), f.p.fsm.pConf.ReadOnly().AfiSafis[0].PrefixLimit.Config.MaxPrefixes)
	require.True(t, f.p.fsm.pConf.ReadOnly().GracefulRestart.State.Enabled, "GR is still negotiated on this session")
	require.Contains(t, f.global(), "10.10.1.0/24")

	// transport failure on a session with negotiated graceful restart
	f.transition(bgp.BGP_FSM_IDLE, newfsmStateReason(fsmGracefulRestart, nil, nil))
	require.True(t, f.p.fsm.pConf.ReadOnly().GracefulRestart.State.PeerRestarting)

	p, ok := f.adjIn()["10.10.1.0/24"]
	if !ok {
		_, inGlobal := f.global()["10.10.1.0/24"]
		t.Fatalf("route of a family listed in the peer's GR capability was removed at once on a graceful loss "+
			"(in global RIB=%v, MpGracefulRestart.State.Received after UpdatePeer=%v): UpdatePeer wiped the negotiated per-family GR state",
			inGlobal, f.p.fsm.pConf.ReadOnly().AfiSafis[0].MpGracefulRestart.State.Received)
	}
	require.True(t, p.IsStale())
	require.Contains(t, f.global(), "10.10.1.0/24")
}
