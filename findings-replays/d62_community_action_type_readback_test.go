package server

import (
	"context"
	"testing"

	"github.com/osrg/gobgp/v4/api"
)

// A statement configured through AddStatement with an ext-community / large-community
// action must read back through ListStatement with the same action type.
func TestD62CommunityActionTypeReadback(t *testing.T) {
	s := NewBgpServer()
	go s.Serve()
	err := s.StartBgp(context.Background(), &api.StartBgpRequest{
		Global: &api.Global{Asn: 65000, RouterId: "1.1.1.1", ListenPort: -1},
	})
	if err != nil {
		t.Fatal(err)
	}
	defer s.StopBgp(context.Background(), &api.StopBgpRequest{})

	for _, typ := range []api.CommunityAction_Type{
		api.CommunityAction_TYPE_ADD,
		api.CommunityAction_TYPE_REMOVE,
		api.CommunityAction_TYPE_REPLACE,
	} {
		name := "st-" + typ.String()
		in := &api.Statement{
			Name: name,
			Actions: &api.Actions{
				Community:      &api.CommunityAction{Type: typ, Communities: []string{"65000:100"}},
				ExtCommunity:   &api.CommunityAction{Type: typ, Communities: []string{"rt:65000:100"}},
				LargeCommunity: &api.CommunityAction{Type: typ, Communities: []string{"65000:1:2"}},
			},
		}
		if err := s.AddStatement(context.Background(), &api.AddStatementRequest{Statement: in}); err != nil {
			t.Fatalf("AddStatement(%s): %v", typ, err)
		}
		var out *api.Statement
		err := s.ListStatement(context.Background(), &api.ListStatementRequest{Name: name}, func(st *api.Statement) {
			out = st
		})
		if err != nil || out == nil {
			t.Fatalf("ListStatement(%s): %v, %v", name, out, err)
		}
		if got := out.Actions.GetCommunity().GetType(); got != typ {
			t.Errorf("community action configured as %s reads back as %s", typ, got)
		}
		if got := out.Actions.GetExtCommunity().GetType(); got != typ {
			t.Errorf("ext-community action configured as %s reads back as %s", typ, got)
		}
		if got := out.Actions.GetLargeCommunity().GetType(); got != typ {
			t.Errorf("large-community action configured as %s reads back as %s", typ, got)
		}
	}
}
