package server

import (
	"net/netip"
	"testing"
	"time"

	"github.com/osrg/gobgp/v4/internal/pkg/table"
	"github.com/osrg/gobgp/v4/pkg/packet/bgp"
)

// D13: a VPN route carrying two route targets A and B was advertised to an RT-Constraint peer holding memberships
// for both. The peer withdraws its membership for A only. It still has an accepted membership for one of the
// route's targets (B), so the route must stay advertised.
func TestD13RTCWithdrawOneOfTwo(t *testing.T) {
	rib := table.NewTableManager(logger, []bgp.Family{bgp.RF_IPv4_VPN, bgp.RF_RTC_UC})
	p := newPeerandInfo(t, 65000, 65001, "192.168.0.1", rib)
	src := newPeerandInfo(t, 65000, 65002, "192.168.0.2", rib)
	s := &BgpServer{shared: newSharedData(), neighborMap: map[netip.Addr]*peer{}, logger: logger}
	s.globalRib = rib
	p.fsm.familyMap.Store(map[bgp.Family]bgp.BGPAddPathMode{bgp.RF_IPv4_VPN: bgp.BGP_ADD_PATH_NONE, bgp.RF_RTC_UC: bgp.BGP_ADD_PATH_NONE})

	rtA := bgp.NewTwoOctetAsSpecificExtended(bgp.EC_SUBTYPE_ROUTE_TARGET, 65000, 100, true)
	rtB := bgp.NewTwoOctetAsSpecificExtended(bgp.EC_SUBTYPE_ROUTE_TARGET, 65000, 200, true)

	rd, _ := bgp.ParseRouteDistinguisher("65002:7")
	nlri, err := bgp.NewLabeledVPNIPAddrPrefix(netip.MustParsePrefix("10.1.0.0/24"), *bgp.NewMPLSLabelStack(16), rd)
	if err != nil {
		t.Fatal(err)
	}
	reach, _ := bgp.NewPathAttributeMpReachNLRI(bgp.RF_IPv4_VPN, []bgp.PathNLRI{{NLRI: nlri}}, netip.MustParseAddr("192.168.0.2"))
	attrs := []bgp.PathAttributeInterface{
		bgp.NewPathAttributeOrigin(0),
		bgp.NewPathAttributeAsPath([]bgp.AsPathParamInterface{bgp.NewAs4PathParam(2, []uint32{65002})}),
		reach,
		bgp.NewPathAttributeExtendedCommunities([]bgp.ExtendedCommunityInterface{rtA, rtB}),
	}
	vpn := table.NewPath(bgp.RF_IPv4_VPN, src.peerInfo.Load(), bgp.PathNLRI{NLRI: nlri}, false, attrs, time.Now(), false)
	rib.Update(vpn)

	membership := func(rt bgp.ExtendedCommunityInterface, withdraw bool) *table.Path {
		n := bgp.NewRouteTargetMembershipNLRI(65001, rt)
		mr, _ := bgp.NewPathAttributeMpReachNLRI(bgp.RF_RTC_UC, []bgp.PathNLRI{{NLRI: n}}, netip.MustParseAddr("192.168.0.1"))
		a := []bgp.PathAttributeInterface{
			bgp.NewPathAttributeOrigin(0),
			bgp.NewPathAttributeAsPath([]bgp.AsPathParamInterface{bgp.NewAs4PathParam(2, []uint32{65001})}),
			mr,
		}
		return table.NewPath(bgp.RF_RTC_UC, p.peerInfo.Load(), bgp.PathNLRI{NLRI: n}, withdraw, a, time.Now(), false)
	}
	p.rtmHandler.SyncAfterImport(membership(rtA, false))
	p.rtmHandler.SyncAfterImport(membership(rtB, false))
	if out := filterpath(p, vpn, nil); out == nil || out.IsWithdraw {
		t.Fatal("setup: the route must be advertised while both memberships are held")
	}

	// drain anything queued so far
	drain := func() []*table.Path {
		var got []*table.Path
		for {
			select {
			case m := <-p.fsm.outgoingCh.Out():
				got = append(got, m.(*fsmOutgoingMsg).Paths...)
			case <-time.After(200 * time.Millisecond):
				return got
			}
		}
	}
	drain()

	s.processRTCMembership(p, membership(rtA, true))

	for _, w := range drain() {
		if w.IsWithdraw && w.GetNlri().String() == vpn.GetNlri().String() {
			t.Fatalf("route %s (targets A and B) was withdrawn from the peer although it still holds the membership for B", w.GetNlri())
		}
	}
	if out := filterpath(p, vpn, nil); out == nil || out.IsWithdraw {
		t.Fatal("the export filter itself would still advertise the route")
	}
}
