package table

import (
	"fmt"
	"net/netip"
	"testing"
	"time"

	"github.com/osrg/gobgp/v4/pkg/packet/bgp"
)

// VPNv6 routes whose next hop is a global + link-local pair (RFC 4659 3.2.1.2,
// 48-octet next hop field: RD+global, RD+link-local). NewPathAttributeMpReachNLRI
// accounts for ONE 8-octet RD in the attribute Length while Serialize writes
// one RD per next hop, so PathAttributeMpReachNLRI.Len() is 8 octets short.
// packerMP sizes its UPDATEs from that Len(), fills them to the brim and the
// result is up to 8 octets over the 4096-octet limit: the sender cannot
// serialize the message and all the routes in it are lost.
func TestD20VpnMpReachLen(t *testing.T) {
	global := netip.MustParseAddr("2001:db8::1")
	ll := netip.MustParseAddr("fe80::1")
	rd, _ := bgp.ParseRouteDistinguisher("65000:100")

	// the mismatch itself
	{
		n, _ := bgp.NewLabeledVPNIPAddrPrefix(netip.MustParsePrefix("2001:db8:1::/64"), *bgp.NewMPLSLabelStack(100), rd)
		a, err := bgp.NewPathAttributeMpReachNLRI(bgp.RF_IPv6_VPN, []bgp.PathNLRI{{NLRI: n}}, global, ll)
		if err != nil {
			t.Fatal(err)
		}
		b, _ := a.Serialize()
		t.Logf("MP_REACH_NLRI(VPNv6, global+link-local): Len()=%d, serialized=%d", a.Len(), len(b))
	}

	const total = 600
	for ncomm := 0; ncomm < 5; ncomm++ {
		comms := make([]uint32, ncomm)
		for i := range comms {
			comms[i] = uint32(65000<<16 | i)
		}
		paths := make([]*Path, 0, total)
		for i := 0; i < total; i++ {
			n, _ := bgp.NewLabeledVPNIPAddrPrefix(netip.MustParsePrefix(fmt.Sprintf("2001:db8:%x::/64", i+1)), *bgp.NewMPLSLabelStack(100), rd)
			reach, _ := bgp.NewPathAttributeMpReachNLRI(bgp.RF_IPv6_VPN, []bgp.PathNLRI{{NLRI: n}}, global, ll)
			attrs := []bgp.PathAttributeInterface{
				bgp.NewPathAttributeOrigin(0),
				bgp.NewPathAttributeAsPath([]bgp.AsPathParamInterface{bgp.NewAs4PathParam(bgp.BGP_ASPATH_ATTR_TYPE_SEQ, []uint32{65000})}),
			}
			if ncomm > 0 {
				attrs = append(attrs, bgp.NewPathAttributeCommunities(comms))
			}
			attrs = append(attrs, reach)
			paths = append(paths, NewPath(bgp.RF_IPv6_VPN, nil, bgp.PathNLRI{NLRI: n}, false, attrs, time.Now(), false))
		}

		if ncomm == 0 {
			b, err := CreateUpdateMsgFromPaths(paths[:1])[0].Serialize()
			if err != nil {
				t.Fatal(err)
			}
			t.Logf("a single-route UPDATE is %d octets", len(b))
		}

		delivered := 0
		for _, m := range CreateUpdateMsgFromPaths(paths) {
			routes := 0
			for _, a := range m.Body.(*bgp.BGPUpdate).PathAttributes {
				if r, ok := a.(*bgp.PathAttributeMpReachNLRI); ok {
					routes += len(r.Value)
					if r.Nexthop != global || r.LinkLocalNexthop != ll {
						t.Errorf("next hops changed: %v %v", r.Nexthop, r.LinkLocalNexthop)
					}
				}
			}
			// what fsmHandler.sendMessageloop's send() does with the message
			if _, err := m.Serialize(&bgp.MarshallingOption{}); err != nil {
				t.Errorf("%d communities: UPDATE with %d routes cannot be sent and is dropped: %v", ncomm, routes, err)
				continue
			}
			delivered += routes
		}
		if delivered != total {
			t.Errorf("%d communities: only %d of %d routes are sent", ncomm, delivered, total)
		}
	}
}
