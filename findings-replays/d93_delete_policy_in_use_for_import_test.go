package table

import (
	"log/slog"
	"net/netip"
	"os"
	"testing"
	"time"

	"github.com/osrg/gobgp/v4/pkg/config/oc"
	"github.com/osrg/gobgp/v4/pkg/packet/bgp"
)

// Policy p1 (reject 10.10.0.0/16 le 32) is assigned to the global table. While
// it is assigned, DeletePolicy(all) must be refused in either direction
// ("can't delete. policy p1 is in use"). For the import direction the deletion
// goes through: the policy disappears from GetPolicy (and its statement from
// GetStatement) but is still evaluated for every imported route.
func TestD93DeletePolicyInUseForImport(t *testing.T) {
	logger := slog.New(slog.NewTextHandler(os.Stderr, &slog.HandlerOptions{Level: slog.LevelError}))
	r := NewRoutingPolicy(logger)
	rp := oc.RoutingPolicy{
		DefinedSets: oc.DefinedSets{PrefixSets: []oc.PrefixSet{{
			PrefixSetName: "ps1",
			PrefixList:    []oc.Prefix{{IpPrefix: netip.MustParsePrefix("10.10.0.0/16"), MasklengthRange: "16..32"}},
		}}},
		PolicyDefinitions: []oc.PolicyDefinition{{Name: "p1", Statements: []oc.Statement{{
			Name:       "s1",
			Conditions: oc.Conditions{MatchPrefixSet: oc.MatchPrefixSet{PrefixSet: "ps1"}},
			Actions:    oc.Actions{RouteDisposition: oc.ROUTE_DISPOSITION_REJECT_ROUTE},
		}}}},
	}
	if err := r.Reset(&rp, nil); err != nil {
		t.Fatal(err)
	}

	peer := &PeerInfo{AS: 65001, LocalAS: 65000, Address: netip.MustParseAddr("10.0.0.1")}
	nh, _ := bgp.NewPathAttributeNextHop(netip.MustParseAddr("10.0.0.1"))
	attrs := []bgp.PathAttributeInterface{
		bgp.NewPathAttributeOrigin(0),
		bgp.NewPathAttributeAsPath([]bgp.AsPathParamInterface{bgp.NewAs4PathParam(bgp.BGP_ASPATH_ATTR_TYPE_SEQ, []uint32{65001})}),
		nh,
	}
	nlri, _ := bgp.NewIPAddrPrefix(netip.MustParsePrefix("10.10.1.0/24"))
	path := NewPath(bgp.RF_IPv4_UC, peer, bgp.PathNLRI{NLRI: nlri}, false, attrs, time.Now(), false)

	active := []string{GLOBAL_RIB_NAME}
	for _, dir := range []PolicyDirection{POLICY_DIRECTION_EXPORT, POLICY_DIRECTION_IMPORT} {
		if err := r.SetPolicyAssignment(GLOBAL_RIB_NAME, dir, []*oc.PolicyDefinition{{Name: "p1"}}, ROUTE_TYPE_ACCEPT); err != nil {
			t.Fatal(err)
		}
		err := r.DeletePolicy(&Policy{Name: "p1"}, true, false, active)
		if err == nil {
			_, assigned, _ := r.GetPolicyAssignment(GLOBAL_RIB_NAME, dir)
			accepted := r.ApplyPolicy(GLOBAL_RIB_NAME, dir, path, nil) != nil
			t.Fatalf("%s: DeletePolicy removed policy p1 although it is assigned to %q: GetPolicy(p1) has %d entries, GetStatement(s1) has %d entries, the assignment still lists %d policies and 10.10.1.0/24 is accepted=%v (a table without policy p1 and default accept would accept it)",
				dir, GLOBAL_RIB_NAME, len(r.GetPolicy("p1")), len(r.GetStatement("s1")), len(assigned), accepted)
		}
		// refused as it should be: detach and try the other direction
		if err := r.SetPolicyAssignment(GLOBAL_RIB_NAME, dir, nil, ROUTE_TYPE_ACCEPT); err != nil {
			t.Fatal(err)
		}
	}
}
