package server

import (
	"context"
	"net/netip"
	"testing"
	"time"

	"github.com/osrg/gobgp/v4/api"
	"github.com/osrg/gobgp/v4/internal/pkg/table"
	"github.com/osrg/gobgp/v4/pkg/config/oc"
	"github.com/osrg/gobgp/v4/pkg/packet/bgp"
)

// A peer first advertises 10.10.10.0/24 with a clean AS_PATH, then replaces
// it (implicit withdraw) by an advertisement whose AS_PATH contains the local
// AS. The second route must not be used - but neither may the first one
// survive: the peer no longer has it. gobgp keeps using (and would keep
// advertising) the replaced route.
func TestD35RejectedRouteImplicitWithdraw(t *testing.T) {
	const localAS = 65000
	const peerAS = 65001

	s := NewBgpServer()
	go s.Serve()
	defer s.Stop()
	if err := s.StartBgp(context.Background(), &api.StartBgpRequest{Global: &api.Global{
		Asn: localAS, RouterId: "1.1.1.1", ListenPort: -1,
	}}); err != nil {
		t.Fatal(err)
	}

	addr := netip.MustParseAddr("192.168.0.1")
	nConf := &oc.Neighbor{
		Config: oc.NeighborConfig{PeerAs: peerAS, NeighborAddress: addr},
		State:  oc.NeighborState{PeerAs: peerAS, NeighborAddress: addr, RemoteRouterId: addr},
	}
	if err := oc.SetDefaultNeighborConfigValues(nConf, nil, &s.bgpConfig.Global); err != nil {
		t.Fatal(err)
	}
	p := newPeer(&s.bgpConfig.Global, nConf, bgp.BGP_FSM_ESTABLISHED, s.globalRib, s.policy, logger)
	p.fsm.familyMap.Store(map[bgp.Family]bgp.BGPAddPathMode{bgp.RF_IPv4_UC: bgp.BGP_ADD_PATH_NONE})
	p.peerInfo.Store(table.NewPeerInfo(&s.bgpConfig.Global, nConf, peerAS, localAS, addr,
		netip.MustParseAddr("1.1.1.1"), addr, netip.MustParseAddr("192.168.0.254")))

	nlri, _ := bgp.NewIPAddrPrefix(netip.MustParsePrefix("10.10.10.0/24"))
	nh, _ := bgp.NewPathAttributeNextHop(addr)
	update := func(asns ...uint32) *fsmMsg {
		attrs := []bgp.PathAttributeInterface{
			bgp.NewPathAttributeOrigin(0),
			bgp.NewPathAttributeAsPath([]bgp.AsPathParamInterface{bgp.NewAs4PathParam(bgp.BGP_ASPATH_ATTR_TYPE_SEQ, asns)}),
			nh,
		}
		return &fsmMsg{
			MsgType:   fsmMsgBGPMessage,
			MsgData:   bgp.NewBGPUpdateMessage(nil, attrs, []bgp.PathNLRI{{NLRI: nlri}}),
			timestamp: time.Now(),
		}
	}
	recv := func(e *fsmMsg) {
		err := s.mgmtOperation(func() error {
			paths, _, _ := p.handleUpdate(e)
			if len(paths) > 0 {
				s.propagateUpdate(p, paths)
			}
			return nil
		}, false)
		if err != nil {
			t.Fatal(err)
		}
	}
	best := func() []*table.Path {
		return s.globalRib.GetBestPathList(table.GLOBAL_RIB_NAME, 0, []bgp.Family{bgp.RF_IPv4_UC})
	}

	// 1. clean route: accepted and selected.
	recv(update(peerAS, 65002))
	if l := best(); len(l) != 1 {
		t.Fatalf("setup: expected the first route to be selected, got %v", l)
	}

	// 2. the peer replaces the route by one looping through the local AS.
	recv(update(peerAS, localAS, 65002))

	in := p.adjRibIn.PathList([]bgp.Family{bgp.RF_IPv4_UC}, false)
	if len(in) != 1 || !in[0].IsRejected() {
		t.Fatalf("setup: expected the looped route to be the (rejected) adj-rib-in entry, got %v", in)
	}
	if l := best(); len(l) != 0 {
		t.Fatalf("route %s (as-path %v) from %s is still selected although the peer replaced it by a route "+
			"containing the local AS (adj-rib-in holds only the rejected as-path %v)",
			l[0].GetPrefix(), l[0].GetAsList(), l[0].GetSource().Address, in[0].GetAsList())
	}
}
