package table

import (
	"net/netip"
	"testing"

	"github.com/osrg/gobgp/v4/pkg/packet/bgp"
)

// C14: reconstruction on the 4-octet side must give back the real AGGREGATOR.
//
// A NEW speaker aggregated with AS 70000 (AGGREGATOR AS_TRANS + AS4_AGGREGATOR
// 70000). Further along the OLD chain, 2-octet AS 100 aggregated again: it
// replaced AGGREGATOR by {100, 10.0.0.100} and, being OLD, passed the unknown
// optional transitive AS4_AGGREGATOR on unchanged. RFC 6793 4.2.3: "If the AS
// number in the AGGREGATOR attribute is not AS_TRANS ... the NEW BGP speaker
// MUST ignore the AS4_AGGREGATOR attribute". The reconstruction instead
// overwrites the AS of the real aggregator with the stale one.
func TestD45AggregatorOverwrite(t *testing.T) {
	agg, err := bgp.NewPathAttributeAggregator(uint16(100), netip.MustParseAddr("10.0.0.100"))
	if err != nil {
		t.Fatal(err)
	}
	agg4, err := bgp.NewPathAttributeAs4Aggregator(70000, netip.MustParseAddr("10.0.0.7"))
	if err != nil {
		t.Fatal(err)
	}
	msg := bgp.NewBGPUpdateMessage(nil, []bgp.PathAttributeInterface{
		bgp.NewPathAttributeOrigin(0),
		bgp.NewPathAttributeAsPath([]bgp.AsPathParamInterface{
			bgp.NewAsPathParam(bgp.BGP_ASPATH_ATTR_TYPE_SEQ, []uint16{100, 200}),
		}),
		agg,
		agg4,
	}, nil)
	wire, err := msg.Serialize()
	if err != nil {
		t.Fatal(err)
	}

	// what recvMessageloop does with an UPDATE from an OLD peer
	rcv, err := bgp.ParseBGPMessage(wire, &bgp.MarshallingOption{Use2ByteAS: true})
	if err != nil {
		t.Fatal(err)
	}
	body := rcv.Body.(*bgp.BGPUpdate)
	UpdatePathAttrs4ByteAs(logger, body)
	if err := UpdatePathAggregator4ByteAs(body); err != nil {
		t.Fatal(err)
	}

	for _, a := range body.PathAttributes {
		if g, ok := a.(*bgp.PathAttributeAggregator); ok {
			if g.Value.AS != 100 {
				t.Fatalf("AGGREGATOR {AS 100, 10.0.0.100} (not AS_TRANS) was rewritten to {AS %d, %s} from a stale AS4_AGGREGATOR",
					g.Value.AS, g.Value.Address)
			}
			return
		}
	}
	t.Fatal("AGGREGATOR lost")
}
