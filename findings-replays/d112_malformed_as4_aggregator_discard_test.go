package server

import (
	"context"
	"net/netip"
	"sync"
	"testing"
	"time"

	"github.com/osrg/gobgp/v4/pkg/packet/bgp"
)

// RFC 6793 Section 6: "The AS4_AGGREGATOR attribute in an UPDATE message SHALL
// be considered malformed if the attribute length is not 8. A NEW BGP speaker
// that receives a malformed AS4_PATH attribute or a malformed AS4_AGGREGATOR
// attribute in an UPDATE message from an OLD BGP speaker MUST discard the
// attribute and continue processing the UPDATE message."
//
// An OLD (2-octet-AS) peer delivers a perfectly good route whose optional
// transitive AS4_AGGREGATOR (put there by some NEW speaker further away) has
// length 6. The route has to be kept: AS_PATH is reconstructed from AS4_PATH,
// AGGREGATOR stays as received, only AS4_AGGREGATOR is dropped.
func TestD112MalformedAs4AggregatorDiscard(t *testing.T) {
	m := NewMockConnection()
	_, h := makePeerAndHandler(m)
	t.Cleanup(func() {
		h.outgoing.Close()
		h.fsm.outgoingCh.Close()
		h.fsm.conn.Close()
	})

	// an established session with a peer that did not send the 4-octet AS
	// capability; RFC 7606 error handling is on (without it the same UPDATE
	// even resets the session)
	h.fsm.twoByteAsTrans = true
	h.fsm.isTreatAsWithdraw = true
	h.fsm.isEBGP = true
	h.fsm.familyMap.Store(map[bgp.Family]bgp.BGPAddPathMode{bgp.RF_IPv4_UC: bgp.BGP_ADD_PATH_NONE})

	got := make(chan *fsmMsg, 1)
	h.callback = func(f *fsmMsg) { got <- f }

	// what the OLD speaker sends: built with the real encoders
	nh, _ := bgp.NewPathAttributeNextHop(netip.MustParseAddr("192.0.2.1"))
	agg, _ := bgp.NewPathAttributeAggregator(uint16(bgp.AS_TRANS), netip.MustParseAddr("192.0.2.9"))
	good := []bgp.PathAttributeInterface{
		bgp.NewPathAttributeOrigin(0),
		bgp.NewPathAttributeAsPath([]bgp.AsPathParamInterface{
			bgp.NewAsPathParam(bgp.BGP_ASPATH_ATTR_TYPE_SEQ, []uint16{65001, bgp.AS_TRANS}),
		}),
		nh,
		agg,
		bgp.NewPathAttributeAs4Path([]*bgp.As4PathParam{
			bgp.NewAs4PathParam(bgp.BGP_ASPATH_ATTR_TYPE_SEQ, []uint32{65001, 70000}),
		}),
	}
	attrs := []byte{}
	for _, a := range good {
		b, err := a.Serialize()
		if err != nil {
			t.Fatal(err)
		}
		attrs = append(attrs, b...)
	}
	// AS4_AGGREGATOR, optional transitive, length 6 instead of 8
	attrs = append(attrs, 0xc0, byte(bgp.BGP_ATTR_TYPE_AS4_AGGREGATOR), 6, 0x00, 0x01, 0x11, 0x70, 192, 0)
	nlri := []byte{24, 10, 0, 0}
	body := []byte{0, 0, byte(len(attrs) >> 8), byte(len(attrs))}
	body = append(body, attrs...)
	body = append(body, nlri...)
	raw := make([]byte, 16, 19+len(body))
	for i := range raw {
		raw[i] = 0xff
	}
	total := 19 + len(body)
	raw = append(raw, byte(total>>8), byte(total), bgp.BGP_MSG_UPDATE)
	raw = append(raw, body...)

	ctx, cancel := context.WithCancel(context.Background())
	wg := &sync.WaitGroup{}
	wg.Add(1)
	go h.recvMessageloop(ctx, m.Conn, make(chan struct{}, 2), make(chan fsmStateReason, 3), wg)
	go m.remote.Write(raw)

	var f *fsmMsg
	select {
	case f = <-got:
	case <-time.After(5 * time.Second):
		t.Fatal("the UPDATE was not delivered (session reset?)")
	}
	cancel()
	m.Conn.SetReadDeadline(time.Now())

	if f.handling == bgp.ERROR_HANDLING_TREAT_AS_WITHDRAW || f.handling == bgp.ERROR_HANDLING_SESSION_RESET {
		t.Errorf("a malformed AS4_AGGREGATOR from an OLD speaker must be discarded and the UPDATE processed (RFC 6793 6); handling = %d: the route 10.0.0.0/24 is lost", f.handling)
	}
	u := f.MsgData.(*bgp.BGPMessage).Body.(*bgp.BGPUpdate)
	var asPath []uint32
	for _, a := range u.PathAttributes {
		switch x := a.(type) {
		case *bgp.PathAttributeAsPath:
			for _, p := range x.Value {
				asPath = append(asPath, p.GetAS()...)
			}
		case *bgp.PathAttributeAs4Aggregator:
			t.Errorf("the malformed AS4_AGGREGATOR was kept")
		}
	}
	if len(asPath) != 2 || asPath[0] != 65001 || asPath[1] != 70000 {
		t.Errorf("AS_PATH after reconstruction = %v, want [65001 70000]", asPath)
	}
}
