package table

import (
	"testing"

	"github.com/osrg/gobgp/v4/pkg/packet/bgp"
)

// C14: the form sent to a 2-octet-AS peer must itself be well-formed.
// A route that so far only crossed confederation member ASes, one of them
// with a 4-octet number, has an AS_PATH made of a single AS_CONFED_SEQUENCE.
// AS4_PATH may not carry confederation segments, so there is nothing to put
// into it - yet an AS4_PATH attribute is still attached, with length 0.
// RFC 6793 section 6: an AS4_PATH whose length is "too small (i.e., less than
// 6) for the attribute to carry at least one AS number" is malformed.
func TestD44EmptyAs4Path(t *testing.T) {
	msg := bgp.NewBGPUpdateMessage(nil, []bgp.PathAttributeInterface{
		bgp.NewPathAttributeOrigin(0),
		bgp.NewPathAttributeAsPath([]bgp.AsPathParamInterface{
			bgp.NewAs4PathParam(bgp.BGP_ASPATH_ATTR_TYPE_CONFED_SEQ, []uint32{70000, 65002}),
		}),
	}, nil)

	// what sendMessageloop does for a 2-octet-AS peer
	UpdatePathAttrs2ByteAs(msg.Body.(*bgp.BGPUpdate))

	for _, a := range msg.Body.(*bgp.BGPUpdate).PathAttributes {
		as4, ok := a.(*bgp.PathAttributeAs4Path)
		if !ok {
			continue
		}
		wire, err := as4.Serialize()
		if err != nil {
			t.Fatal(err)
		}
		if len(as4.Value) == 0 || as4.Length < 6 {
			t.Fatalf("malformed AS4_PATH sent to the 2-octet-AS peer: %d segments, attribute length %d, wire % x",
				len(as4.Value), as4.Length, wire)
		}
	}
}
