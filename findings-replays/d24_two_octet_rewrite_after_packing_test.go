package server

import (
	"context"
	"fmt"
	"io"
	"log/slog"
	"net"
	"net/netip"
	"sync"
	"testing"
	"time"

	"github.com/eapache/channels"
	"github.com/osrg/gobgp/v4/internal/pkg/table"
	"github.com/osrg/gobgp/v4/pkg/config/oc"
	"github.com/osrg/gobgp/v4/pkg/packet/bgp"
)

// Session with a peer that did not announce the 4-octet AS capability
// (fsm.twoByteAsTrans). sendMessageloop first packs the routes into UPDATEs
// that are full up to 4096 octets, and only afterwards send() rewrites every
// UPDATE for the 2-octet peer: AS_PATH shrinks by 2 octets per ASN, but an
// AS4_PATH of 3+2+4 octets per ASN is appended (table.UpdatePathAttrs2ByteAs).
// The full UPDATEs grow past 4096 octets, Serialize fails and the whole
// message - hundreds of routes that each fit easily - is silently dropped.
func TestD24TwoOctetRewriteAfterPacking(t *testing.T) {
	local, remote := net.Pipe()
	defer local.Close()
	defer remote.Close()

	// the peer: reads whole BGP messages off the stream
	var mu sync.Mutex
	received := map[string]bool{}
	go func() {
		for {
			hdr := make([]byte, bgp.BGP_HEADER_LENGTH)
			if _, err := io.ReadFull(remote, hdr); err != nil {
				return
			}
			h := &bgp.BGPHeader{}
			if err := h.DecodeFromBytes(hdr); err != nil {
				return
			}
			body := make([]byte, int(h.Len)-bgp.BGP_HEADER_LENGTH)
			if _, err := io.ReadFull(remote, body); err != nil {
				return
			}
			m, err := bgp.ParseBGPBody(h, body, &bgp.MarshallingOption{Use2ByteAS: true})
			if err != nil || h.Type != bgp.BGP_MSG_UPDATE {
				continue
			}
			mu.Lock()
			for _, n := range m.Body.(*bgp.BGPUpdate).NLRI {
				received[n.NLRI.String()] = true
			}
			mu.Unlock()
		}
	}()

	f := newFSM(&oc.Global{}, &oc.Neighbor{}, bgp.BGP_FSM_ESTABLISHED, slog.Default())
	f.conn = local
	f.twoByteAsTrans = true // what open processing sets for a peer without the 4-octet AS capability
	h := &fsmHandler{fsm: f, outgoing: channels.NewInfiniteChannel(), callback: func(*fsmMsg) {}}
	f.h = h
	defer h.outgoing.Close()

	// 1000 host routes sharing one attribute set whose AS_PATH holds a 4-octet ASN
	nh, _ := bgp.NewPathAttributeNextHop(netip.MustParseAddr("192.0.2.1"))
	attrs := []bgp.PathAttributeInterface{
		bgp.NewPathAttributeOrigin(0),
		bgp.NewPathAttributeAsPath([]bgp.AsPathParamInterface{
			bgp.NewAs4PathParam(bgp.BGP_ASPATH_ATTR_TYPE_SEQ, []uint32{65000, 4200000001, 4200000002, 64999}),
		}),
		nh,
	}
	const total = 1000
	paths := make([]*table.Path, 0, total)
	for i := 0; i < total; i++ {
		n, _ := bgp.NewIPAddrPrefix(netip.MustParsePrefix(fmt.Sprintf("10.0.%d.%d/32", i/256, i%256)))
		paths = append(paths, table.NewPath(bgp.RF_IPv4_UC, nil, bgp.PathNLRI{NLRI: n}, false, attrs, time.Now(), false))
	}

	// a single route is far below the limit, also after the 2-octet AS rewrite
	one := table.CreateUpdateMsgFromPaths(paths[:1])[0]
	table.UpdatePathAttrs2ByteAs(one.Body.(*bgp.BGPUpdate))
	if b, err := one.Serialize(); err != nil {
		t.Fatal(err)
	} else {
		t.Logf("a single-route UPDATE for this peer is %d octets", len(b))
	}

	ctx, cancel := context.WithCancel(context.Background())
	wg := &sync.WaitGroup{}
	wg.Add(1)
	go h.sendMessageloop(ctx, local, make(chan fsmStateReason, 3), wg)
	h.outgoing.In() <- &fsmOutgoingMsg{Paths: paths}

	// wait until the peer has seen everything, or nothing new arrives for a while
	deadline := time.Now().Add(5 * time.Second)
	last, lastChange := -1, time.Now()
	for time.Now().Before(deadline) {
		mu.Lock()
		n := len(received)
		mu.Unlock()
		if n == total {
			break
		}
		if n != last {
			last, lastChange = n, time.Now()
		} else if time.Since(lastChange) > time.Second {
			break
		}
		time.Sleep(20 * time.Millisecond)
	}
	cancel()
	local.Close()
	wg.Wait()

	mu.Lock()
	defer mu.Unlock()
	if len(received) != total {
		t.Fatalf("the 2-octet AS peer received only %d of the %d announced routes", len(received), total)
	}
}
