package server

import (
	"context"
	"net/netip"
	"testing"
	"time"

	"github.com/stretchr/testify/require"

	"github.com/osrg/gobgp/v4/api"
	"github.com/osrg/gobgp/v4/internal/pkg/table"
	"github.com/osrg/gobgp/v4/pkg/packet/bgp"
)

// A neighbor attached to vrf1 may negotiate ipv4-flowspec (AddPeer accepts
// that family for a VRF neighbor, and VPN flowspec routes are converted to
// plain flowspec routes towards it). A flowspec route received from that
// neighbor is a route originated in the VRF, so it must be exported as an
// ipv4-flowspec-vpn route carrying the VRF's RD and export route targets (this
// is what AddPath with a VRF id does). Instead (*Path).ToGlobal returns the
// path unchanged and the route is installed in the global ipv4-flowspec table
// without RD or route target, i.e. it leaks out of the VRF.
func TestD56VrfFlowspecToGlobal(t *testing.T) {
	ctx := context.Background()
	s := NewBgpServer()
	go s.Serve()
	require.NoError(t, s.StartBgp(ctx, &api.StartBgpRequest{
		Global: &api.Global{Asn: 65001, RouterId: "1.1.1.1", ListenPort: -1},
	}))
	addVrf(t, s, "vrf1", "65001:100", []string{"65001:100"}, []string{"65001:100"}, 1)

	peerAddr := netip.MustParseAddr("10.0.0.1")
	p := newPeerandInfo(t, 65001, 65002, peerAddr.String(), s.globalRib)
	p.policy = s.policy
	p.fsm.state.Store(bgp.BGP_FSM_ESTABLISHED)
	p.fsm.familyMap.Store(map[bgp.Family]bgp.BGPAddPathMode{
		bgp.RF_IPv4_UC:    bgp.BGP_ADD_PATH_NONE,
		bgp.RF_FS_IPv4_UC: bgp.BGP_ADD_PATH_NONE,
	})
	p.fsm.lock.Lock()
	conf := p.fsm.pConf.ReadCopy()
	conf.Config.Vrf = "vrf1"
	conf.State.Vrf = "vrf1"
	p.fsm.pConf.Update(&conf)
	p.fsm.lock.Unlock()
	require.NoError(t, s.mgmtOperation(func() error {
		s.neighborMap[peerAddr] = p
		return nil
	}, true))
	t.Cleanup(func() {
		_ = s.mgmtOperation(func() error {
			delete(s.neighborMap, peerAddr)
			return nil
		}, false)
		cleanInfiniteChannel(p.fsm.outgoingCh)
		require.NoError(t, s.StopBgp(ctx, &api.StopBgpRequest{}))
	})

	count := func(f bgp.Family) []*table.Path {
		t.Helper()
		return s.globalRib.GetPathList(table.GLOBAL_RIB_NAME, 0, []bgp.Family{f})
	}

	// control: a unicast route from the VRF neighbor is exported as VPNv4
	ucNLRI, err := bgp.NewIPAddrPrefix(netip.MustParsePrefix("198.51.100.0/24"))
	require.NoError(t, err)
	ucNH, err := bgp.NewPathAttributeNextHop(peerAddr)
	require.NoError(t, err)
	uc := table.NewPath(bgp.RF_IPv4_UC, p.peerInfo.Load(), bgp.PathNLRI{NLRI: ucNLRI}, false, []bgp.PathAttributeInterface{
		bgp.NewPathAttributeOrigin(0),
		bgp.NewPathAttributeAsPath([]bgp.AsPathParamInterface{bgp.NewAs4PathParam(2, []uint32{65002})}),
		ucNH,
	}, time.Now(), false)
	s.propagateUpdate(p, []*table.Path{uc})
	require.Empty(t, count(bgp.RF_IPv4_UC))
	vpn := count(bgp.RF_IPv4_VPN)
	require.Len(t, vpn, 1)
	require.Equal(t, "65001:100", vpn[0].GetNlri().(*bgp.LabeledVPNIPAddrPrefix).RD.String())
	require.Len(t, vpn[0].GetRouteTargets(), 1)

	// a flowspec route from the same VRF neighbor
	dst, err := bgp.NewIPAddrPrefix(netip.MustParsePrefix("192.0.2.0/24"))
	require.NoError(t, err)
	fsNLRI, err := bgp.NewFlowSpecUnicast(bgp.RF_FS_IPv4_UC, []bgp.FlowSpecComponentInterface{
		bgp.NewFlowSpecDestinationPrefix(dst),
	})
	require.NoError(t, err)
	mpReach, err := bgp.NewPathAttributeMpReachNLRI(bgp.RF_FS_IPv4_UC, []bgp.PathNLRI{{NLRI: fsNLRI}}, netip.IPv4Unspecified())
	require.NoError(t, err)
	fs := table.NewPath(bgp.RF_FS_IPv4_UC, p.peerInfo.Load(), bgp.PathNLRI{NLRI: fsNLRI}, false, []bgp.PathAttributeInterface{
		bgp.NewPathAttributeOrigin(0),
		bgp.NewPathAttributeAsPath([]bgp.AsPathParamInterface{bgp.NewAs4PathParam(2, []uint32{65002})}),
		mpReach,
	}, time.Now(), false)
	s.propagateUpdate(p, []*table.Path{fs})

	leaked := count(bgp.RF_FS_IPv4_UC)
	exported := count(bgp.RF_FS_IPv4_VPN)
	require.Empty(t, leaked, "a flowspec route learned in vrf1 was installed in the global ipv4-flowspec table")
	require.Len(t, exported, 1, "the flowspec route learned in vrf1 must be exported as ipv4-flowspec-vpn")
	require.Len(t, exported[0].GetRouteTargets(), 1)
}
