package server

import (
	"fmt"
	"io"
	"log/slog"
	"net/netip"
	"sort"
	"testing"
	"time"

	"github.com/osrg/gobgp/v4/internal/pkg/table"
	"github.com/osrg/gobgp/v4/pkg/config/oc"
	"github.com/osrg/gobgp/v4/pkg/packet/bgp"
	"github.com/osrg/gobgp/v4/pkg/packet/mrt"
)

// TestSeedDemo checks that the TABLE_DUMPv2 records the MRT writer emits for
// the global table parse back to exactly the routes that are in the table.
//
// The table holds ONE prefix that is known from TWO peers: one peer negotiated
// ADD-PATH receive (its route must go into a RIB_IPV4_UNICAST_ADDPATH record),
// the other did not (its route must go into a plain RIB_IPV4_UNICAST record).
func TestD12LocalRouteDump(t *testing.T) {
	logger := slog.New(slog.NewTextHandler(io.Discard, nil))
	family := bgp.RF_IPv4_UC

	s := &BgpServer{
		shared:      newSharedData(),
		neighborMap: make(map[netip.Addr]*peer),
		logger:      logger,
	}
	s.globalRib = table.NewTableManager(logger, []bgp.Family{family})
	s.rsRib = table.NewTableManager(logger, []bgp.Family{family})
	s.bgpConfig.Global.Config.As = 65000
	s.bgpConfig.Global.Config.RouterId = netip.MustParseAddr("192.0.2.254")

	addPathPeer := netip.MustParseAddr("192.0.2.1")
	plainPeer := netip.MustParseAddr("192.0.2.2")

	// neighbor 192.0.2.1 negotiated ADD-PATH receive for ipv4-unicast,
	// neighbor 192.0.2.2 did not.
	mkPeer := func(addr netip.Addr, as uint32, mode bgp.BGPAddPathMode) *peer {
		nConf := &oc.Neighbor{
			Config: oc.NeighborConfig{PeerAs: as, NeighborAddress: addr},
			State:  oc.NeighborState{PeerAs: as, NeighborAddress: addr, RemoteRouterId: addr},
		}
		gConf := &oc.Global{Config: oc.GlobalConfig{As: 65000}}
		if err := oc.SetDefaultNeighborConfigValues(nConf, nil, gConf); err != nil {
			t.Fatal(err)
		}
		p := newPeer(gConf, nConf, bgp.BGP_FSM_ESTABLISHED, s.globalRib, table.NewRoutingPolicy(logger), logger)
		p.fsm.familyMap.Store(map[bgp.Family]bgp.BGPAddPathMode{family: mode})
		return p
	}
	s.neighborMap[addPathPeer] = mkPeer(addPathPeer, 65001, bgp.BGP_ADD_PATH_RECEIVE)
	s.neighborMap[plainPeer] = mkPeer(plainPeer, 65002, bgp.BGP_ADD_PATH_NONE)

	nlri, err := bgp.NewIPAddrPrefix(netip.MustParsePrefix("10.10.0.0/24"))
	if err != nil {
		t.Fatal(err)
	}
	mkPath := func(src netip.Addr, as uint32, pathID uint32) *table.Path {
		nh, _ := bgp.NewPathAttributeNextHop(src)
		attrs := []bgp.PathAttributeInterface{
			bgp.NewPathAttributeOrigin(0),
			bgp.NewPathAttributeAsPath([]bgp.AsPathParamInterface{bgp.NewAs4PathParam(2, []uint32{as})}),
			nh,
		}
		info := &table.PeerInfo{AS: as, ID: src, Address: src, LocalAS: 65000}
		return table.NewPath(family, info, bgp.PathNLRI{NLRI: nlri, ID: pathID}, false, attrs, time.Unix(1700000000, 0), false)
	}
	s.globalRib.Update(mkPath(addPathPeer, 65001, 7))
	s.globalRib.Update(mkPath(plainPeer, 65002, 0))
	{
		nh, _ := bgp.NewPathAttributeNextHop(netip.MustParseAddr("192.0.2.254"))
		attrs := []bgp.PathAttributeInterface{bgp.NewPathAttributeOrigin(0), bgp.NewPathAttributeAsPath(nil), nh}
		nlri2, _ := bgp.NewIPAddrPrefix(netip.MustParsePrefix("10.20.0.0/24"))
		local := table.NewPath(family, nil, bgp.PathNLRI{NLRI: nlri2}, false, attrs, time.Unix(1700000000, 0), false)
		s.globalRib.Update(local)
	}

	// what is in the table: (source peer, prefix, path id)
	want := []string{}
	for _, p := range s.globalRib.GetPathList(table.GLOBAL_RIB_NAME, 0, []bgp.Family{family}) {
		src := p.GetSource().Address
		if !src.IsValid() {
			src = netip.IPv4Unspecified() // locally originated routes are dumped under the dummy peer 0.0.0.0
		}
		want = append(want, fmt.Sprintf("%s %s id=%d", src, p.GetNlri(), p.RemoteID()))
	}
	sort.Strings(want)
	if len(want) != 3 {
		t.Fatalf("test setup: expected 3 paths in the table, got %v", want)
	}

	m := &mrtWriter{s: s, c: &oc.MrtConfig{}}
	msgs := m.dumpTable()

	// serialise everything the daemon would write, and read it back the way an
	// MRT consumer does.
	var peers []*mrt.Peer
	got := []string{}
	for _, msg := range msgs {
		buf, err := msg.Serialize()
		if err != nil {
			t.Fatalf("serialize: %v", err)
		}
		hdr, err := mrt.ParseHeader(buf)
		if err != nil {
			t.Fatalf("parse header: %v", err)
		}
		parsed, err := mrt.ParseBody(buf[mrt.MRT_COMMON_HEADER_LEN:], hdr)
		if err != nil {
			t.Fatalf("parse body (subtype %d): %v", hdr.SubType, err)
		}
		switch body := parsed.Body.(type) {
		case *mrt.PeerIndexTable:
			peers = body.Peers
		case *mrt.Rib:
			for _, e := range body.Entries {
				if int(e.PeerIndex) >= len(peers) {
					t.Fatalf("rib entry refers to peer index %d, only %d peers", e.PeerIndex, len(peers))
				}
				got = append(got, fmt.Sprintf("%s %s id=%d", peers[e.PeerIndex].IpAddress, body.Prefix, e.PathIdentifier))
			}
		}
	}
	sort.Strings(got)

	if fmt.Sprint(got) != fmt.Sprint(want) {
		t.Fatalf("MRT table dump does not parse back to the routes in the table:\n table: %v\n dump:  %v", want, got)
	}
}
