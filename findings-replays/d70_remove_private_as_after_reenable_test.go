package server

import (
	"context"
	"net/netip"
	"testing"
	"time"

	"github.com/osrg/gobgp/v4/api"
	"github.com/osrg/gobgp/v4/internal/pkg/table"
	"github.com/osrg/gobgp/v4/pkg/apiutil"
	"github.com/osrg/gobgp/v4/pkg/config/oc"
	"github.com/osrg/gobgp/v4/pkg/packet/bgp"
)

// An eBGP neighbour is configured with remove-private-as=all. After the
// operator disables and re-enables that neighbour through the API, the private
// AS numbers are sent to it again: the option is silently lost.
func TestD70RemovePrivateAsAfterReenable(t *testing.T) {
	ctx := context.Background()
	const port = 10179

	// receiver: AS 65002, listens, passive
	rcv := NewBgpServer()
	go rcv.Serve()
	if err := rcv.StartBgp(ctx, &api.StartBgpRequest{Global: &api.Global{
		Asn: 65002, RouterId: "2.2.2.2", ListenAddresses: []string{"127.0.0.1"}, ListenPort: port,
	}}); err != nil {
		t.Fatal(err)
	}
	defer rcv.StopBgp(ctx, &api.StopBgpRequest{})

	// router under test: AS 65001, does not listen, connects to the receiver
	dut := NewBgpServer()
	go dut.Serve()
	if err := dut.StartBgp(ctx, &api.StartBgpRequest{Global: &api.Global{
		Asn: 65001, RouterId: "1.1.1.1", ListenPort: -1,
	}}); err != nil {
		t.Fatal(err)
	}
	defer dut.StopBgp(ctx, &api.StopBgpRequest{})

	timers := oc.Timers{Config: oc.TimersConfig{ConnectRetry: 1, IdleHoldTimeAfterReset: 1}}
	if err := rcv.AddPeer(ctx, &api.AddPeerRequest{Peer: oc.NewPeerFromConfigStruct(&oc.Neighbor{
		Config:    oc.NeighborConfig{NeighborAddress: netip.MustParseAddr("127.0.0.1"), PeerAs: 65001},
		Transport: oc.Transport{Config: oc.TransportConfig{PassiveMode: true}},
		Timers:    timers,
	})}); err != nil {
		t.Fatal(err)
	}
	if err := dut.AddPeer(ctx, &api.AddPeerRequest{Peer: oc.NewPeerFromConfigStruct(&oc.Neighbor{
		Config: oc.NeighborConfig{
			NeighborAddress: netip.MustParseAddr("127.0.0.1"),
			PeerAs:          65002,
			RemovePrivateAs: oc.REMOVE_PRIVATE_AS_OPTION_ALL,
		},
		Transport: oc.Transport{Config: oc.TransportConfig{RemotePort: port}},
		Timers:    timers,
	})}); err != nil {
		t.Fatal(err)
	}

	// a route of the router under test whose AS_PATH holds a private AS
	nlri, _ := bgp.NewIPAddrPrefix(netip.MustParsePrefix("10.1.0.0/24"))
	nh, _ := bgp.NewPathAttributeNextHop(netip.MustParseAddr("10.0.0.1"))
	if _, err := dut.AddPath(apiutil.AddPathRequest{Paths: []*apiutil.Path{{
		Family: bgp.RF_IPv4_UC,
		Nlri:   nlri,
		Attrs: []bgp.PathAttributeInterface{
			bgp.NewPathAttributeOrigin(0),
			bgp.NewPathAttributeAsPath([]bgp.AsPathParamInterface{
				bgp.NewAs4PathParam(bgp.BGP_ASPATH_ATTR_TYPE_SEQ, []uint32{64512}),
			}),
			nh,
		},
	}}}); err != nil {
		t.Fatal(err)
	}

	dutState := func() bgp.FSMState {
		var st bgp.FSMState
		_ = dut.mgmtOperation(func() error {
			for _, p := range dut.neighborMap {
				st = p.State()
			}
			return nil
		}, false)
		return st
	}
	// what the receiver has for the prefix; nil when it has nothing
	received := func() []uint32 {
		for _, p := range rcv.globalRib.GetBestPathList(table.GLOBAL_RIB_NAME, 0, []bgp.Family{bgp.RF_IPv4_UC}) {
			return p.GetAsSeqList()
		}
		return nil
	}
	waitFor := func(what string, cond func() bool) {
		t.Helper()
		deadline := time.Now().Add(30 * time.Second)
		for time.Now().Before(deadline) {
			if cond() {
				return
			}
			time.Sleep(20 * time.Millisecond)
		}
		t.Fatalf("timeout waiting for %s", what)
	}

	waitFor("first session", func() bool { return dutState() == bgp.BGP_FSM_ESTABLISHED })
	waitFor("route at the receiver", func() bool { return received() != nil })
	first := received()
	if len(first) != 1 || first[0] != 65001 {
		t.Fatalf("first session: receiver got AS_PATH %v, want [65001]", first)
	}

	// the operator disables and re-enables the neighbour
	if err := dut.DisablePeer(ctx, &api.DisablePeerRequest{Address: "127.0.0.1"}); err != nil {
		t.Fatal(err)
	}
	waitFor("session down", func() bool { return dutState() == bgp.BGP_FSM_IDLE })
	waitFor("route gone from the receiver", func() bool { return received() == nil })
	if err := dut.EnablePeer(ctx, &api.EnablePeerRequest{Address: "127.0.0.1"}); err != nil {
		t.Fatal(err)
	}
	waitFor("second session", func() bool { return dutState() == bgp.BGP_FSM_ESTABLISHED })
	waitFor("route at the receiver again", func() bool { return received() != nil })

	second := received()
	if len(second) != 1 || second[0] != 65001 {
		t.Fatalf("after disable/enable of the neighbour remove-private-as=all is no longer applied: "+
			"receiver got AS_PATH %v, want [65001] as in the first session", second)
	}
}
