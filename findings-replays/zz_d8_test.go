package table

import (
	"net/netip"
	"testing"
	"time"

	"github.com/osrg/gobgp/v4/pkg/packet/bgp"
)

func TestD8(t *testing.T) {
	pi := &PeerInfo{AS: 65001, ID: netip.MustParseAddr("1.1.1.1"), Address: netip.MustParseAddr("10.0.0.1")}
	nlri, _ := bgp.NewIPAddrPrefix(netip.MustParsePrefix("10.0.0.0/24"))
	nh, _ := bgp.NewPathAttributeNextHop(netip.MustParseAddr("1.1.1.1"))
	// a LARGE_COMMUNITY attribute whose backing array has spare capacity (as ValidateAttribute's de-duplication leaves it)
	vals := make([]*bgp.LargeCommunity, 1, 4)
	vals[0] = bgp.NewLargeCommunity(1, 1, 1)
	lc := bgp.NewPathAttributeLargeCommunities(vals)
	attrs := []bgp.PathAttributeInterface{bgp.NewPathAttributeOrigin(0), nh, lc}
	stored := NewPath(bgp.RF_IPv4_UC, pi, bgp.PathNLRI{NLRI: nlri}, false, attrs, time.Unix(100, 0), false)
	p1 := stored.Clone(false)
	p2 := stored.Clone(false)
	p1.SetLargeCommunities([]*bgp.LargeCommunity{bgp.NewLargeCommunity(100, 100, 100)}, false)
	before := p1.GetLargeCommunities()[1].String()
	p2.SetLargeCommunities([]*bgp.LargeCommunity{bgp.NewLargeCommunity(200, 200, 200)}, false)
	after := p1.GetLargeCommunities()[1].String()
	t.Logf("peer1's copy: before %s, after peer2's policy %s", before, after)
	if before != after {
		t.Fatalf("VERIF-REPLAY: applying policy for peer 2 changed peer 1's route")
	}
}
