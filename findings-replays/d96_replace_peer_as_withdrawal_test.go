package server

import (
	"log/slog"
	"net/netip"
	"testing"
	"time"

	"github.com/osrg/gobgp/v4/internal/pkg/table"
	"github.com/osrg/gobgp/v4/pkg/config/oc"
	"github.com/osrg/gobgp/v4/pkg/packet/bgp"
)

// replace-peer-as lets a route that carries the peer's AS be advertised to
// that peer: prePolicyFilterpath rewrites the AS before the outbound AS-loop
// check of filterpath. The rewrite is skipped for a withdrawal, so the
// withdrawal of the very same route runs into the loop check and is dropped:
// the peer keeps the route for ever.
func TestD96ReplacePeerAsWithdrawal(t *testing.T) {
	const (
		myAS   = uint32(65000)
		peerAS = uint32(65001)
		srcAS  = uint32(65002)
	)
	lg := slog.Default()
	rib := table.NewTableManager(lg, []bgp.Family{bgp.RF_IPv4_UC})
	g := &oc.Global{Config: oc.GlobalConfig{As: myAS, RouterId: netip.MustParseAddr("1.1.1.1")}}

	mk := func(as uint32, address string, replace bool) *peer {
		addr := netip.MustParseAddr(address)
		n := &oc.Neighbor{
			Config: oc.NeighborConfig{PeerAs: as, NeighborAddress: addr},
			State:  oc.NeighborState{NeighborAddress: addr, RemoteRouterId: addr},
		}
		n.AsPathOptions.Config.ReplacePeerAs = replace
		if err := oc.SetDefaultNeighborConfigValues(n, nil, g); err != nil {
			t.Fatal(err)
		}
		pol := table.NewRoutingPolicy(lg)
		if err := pol.Reset(&oc.RoutingPolicy{}, nil); err != nil {
			t.Fatal(err)
		}
		p := newPeer(g, n, bgp.BGP_FSM_ESTABLISHED, rib, pol, lg)
		p.fsm.familyMap.Store(map[bgp.Family]bgp.BGPAddPathMode{bgp.RF_IPv4_UC: bgp.BGP_ADD_PATH_NONE})
		local := netip.MustParseAddr("192.168.0.100")
		p.peerInfo.Store(table.NewPeerInfo(g, n, as, myAS, addr, g.Config.RouterId, addr, local))
		return p
	}
	// what propagateUpdateToNeighbors hands to filterpath for the global table
	update := func(p *table.Path) (best, old *table.Path) {
		dsts := rib.Update(p)
		if len(dsts) != 1 {
			t.Fatalf("expected one changed destination, got %d", len(dsts))
		}
		best, old, _ = dsts[0].GetChanges(table.GLOBAL_RIB_NAME, 0, false)
		return best, old
	}

	target := mk(peerAS, "192.168.0.1", true)
	source := mk(srcAS, "192.168.0.2", false)
	s := NewBgpServer()

	nlri, _ := bgp.NewIPAddrPrefix(netip.MustParsePrefix("10.10.10.0/24"))
	nh, _ := bgp.NewPathAttributeNextHop(netip.MustParseAddr("192.168.0.2"))
	attrs := []bgp.PathAttributeInterface{
		bgp.NewPathAttributeOrigin(0),
		// the route went through the target's AS before (two sites of one
		// customer AS joined over this AS: what replace-peer-as is for)
		bgp.NewPathAttributeAsPath([]bgp.AsPathParamInterface{bgp.NewAs4PathParam(bgp.BGP_ASPATH_ATTR_TYPE_SEQ, []uint32{srcAS, peerAS})}),
		nh,
	}
	route := table.NewPath(bgp.RF_IPv4_UC, source.peerInfo.Load(), bgp.PathNLRI{NLRI: nlri}, false, attrs, time.Now(), false)

	// the announcement: sent, with the peer's AS replaced
	best, old := update(route)
	sent := s.filterpath(target, best, old)
	if sent == nil || sent.IsWithdraw {
		t.Fatalf("with replace-peer-as the route is expected to be advertised, got %v", sent)
	}
	if got := sent.GetAsList(); len(got) != 3 || got[0] != myAS || got[1] != srcAS || got[2] != myAS {
		t.Fatalf("unexpected AS_PATH sent: %v", got)
	}

	// the source withdraws the route and there is no other path
	best, old = update(route.Clone(true))
	if best == nil || !best.IsWithdraw {
		t.Fatalf("expected a withdrawal from the table, got %v", best)
	}
	w := s.filterpath(target, best, old)
	if w == nil || !w.IsWithdraw {
		t.Fatalf("the route was advertised to the peer but its withdrawal is not sent (got %v): the peer keeps a route that no longer exists", w)
	}
}
