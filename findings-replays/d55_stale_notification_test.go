package server

import (
	"context"
	"io"
	"net"
	"net/netip"
	"testing"
	"time"

	"github.com/osrg/gobgp/v4/api"
	"github.com/osrg/gobgp/v4/pkg/packet/bgp"
)

// C07: an administrative reset (ResetPeer, hard) or shutdown (ShutdownPeer)
// acts on the session that exists at the moment it is issued. When no session
// is established there is nothing to reset (RFC 4271 8.2.2: in Idle/Active a
// ManualStop sends nothing).
//
// gobgp queues the Cease NOTIFICATION in fsm.notification (buffer 1) and only
// fsmHandler.established() ever reads that channel; it is never drained on a
// state change. A reset issued while the peer is Active therefore stays queued
// and tears down the NEXT session the instant it reaches Established - with a
// Cease / Administrative Reset nobody asked for at that time.

func fndReadMsg(conn net.Conn, deadline time.Time) (*bgp.BGPMessage, error) {
	_ = conn.SetReadDeadline(deadline)
	hdr := make([]byte, bgp.BGP_HEADER_LENGTH)
	if _, err := io.ReadFull(conn, hdr); err != nil {
		return nil, err
	}
	h := &bgp.BGPHeader{}
	if err := h.DecodeFromBytes(hdr); err != nil {
		return nil, err
	}
	body := make([]byte, int(h.Len)-bgp.BGP_HEADER_LENGTH)
	if _, err := io.ReadFull(conn, body); err != nil {
		return nil, err
	}
	return bgp.ParseBGPBody(h, body)
}

func fndSessionState(t *testing.T, s *BgpServer) api.PeerState_SessionState {
	t.Helper()
	st := api.PeerState_SESSION_STATE_UNSPECIFIED
	err := s.ListPeer(context.Background(), &api.ListPeerRequest{}, func(p *api.Peer) {
		st = p.State.SessionState
	})
	if err != nil {
		t.Fatalf("ListPeer: %v", err)
	}
	return st
}

func TestD55StaleNotification(t *testing.T) {
	s := NewBgpServer()
	go s.Serve()
	if err := s.StartBgp(context.Background(), &api.StartBgpRequest{
		Global: &api.Global{Asn: 65001, RouterId: "1.1.1.1", ListenPort: 10179, ListenAddresses: []string{"127.0.0.1"}},
	}); err != nil {
		t.Fatalf("StartBgp: %v", err)
	}
	defer s.StopBgp(context.Background(), &api.StopBgpRequest{})

	if err := s.AddPeer(context.Background(), &api.AddPeerRequest{Peer: &api.Peer{
		Conf:      &api.PeerConf{NeighborAddress: "127.0.0.1", PeerAsn: 65002},
		Transport: &api.Transport{PassiveMode: true},
		Timers:    &api.Timers{Config: &api.TimersConfig{HoldTime: 90, KeepaliveInterval: 30}},
	}}); err != nil {
		t.Fatalf("AddPeer: %v", err)
	}

	// wait until the (passive) peer sits in Active: no connection, no session
	deadline := time.Now().Add(10 * time.Second)
	for fndSessionState(t, s) != api.PeerState_SESSION_STATE_ACTIVE {
		if time.Now().After(deadline) {
			t.Fatalf("peer did not reach Active, state %v", fndSessionState(t, s))
		}
		time.Sleep(50 * time.Millisecond)
	}

	// the operator resets the neighbor while there is no session at all
	if err := s.ResetPeer(context.Background(), &api.ResetPeerRequest{Address: "127.0.0.1", Communication: "stale"}); err != nil {
		t.Fatalf("ResetPeer: %v", err)
	}
	if st := fndSessionState(t, s); st != api.PeerState_SESSION_STATE_ACTIVE {
		t.Fatalf("state after reset of a down peer: %v", st)
	}

	// well after the reset, the remote speaker connects and brings the session up
	time.Sleep(2 * time.Second)

	open, _ := bgp.NewBGPOpenMessage(65002, 90, netip.MustParseAddr("2.2.2.2"),
		[]bgp.OptionParameterInterface{bgp.NewOptionParameterCapability(
			[]bgp.ParameterCapabilityInterface{bgp.NewCapFourOctetASNumber(65002)})})
	openBytes, _ := open.Serialize()
	kaBytes, _ := bgp.NewBGPKeepAliveMessage().Serialize()

	conn, err := net.DialTimeout("tcp", "127.0.0.1:10179", 2*time.Second)
	if err != nil {
		t.Fatalf("dial: %v", err)
	}
	defer conn.Close()
	if _, err := conn.Write(openBytes); err != nil {
		t.Fatalf("write OPEN: %v", err)
	}
	if m, err := fndReadMsg(conn, time.Now().Add(5*time.Second)); err != nil || m.Header.Type != bgp.BGP_MSG_OPEN {
		t.Fatalf("expected OPEN, got %v / %v", m, err)
	}
	if m, err := fndReadMsg(conn, time.Now().Add(5*time.Second)); err != nil || m.Header.Type != bgp.BGP_MSG_KEEPALIVE {
		t.Fatalf("expected KEEPALIVE, got %v / %v", m, err)
	}
	if _, err := conn.Write(kaBytes); err != nil {
		t.Fatalf("write KEEPALIVE: %v", err)
	}

	// The session is Established now (valid OPEN + KEEPALIVE exchanged, hold
	// time 90s). Nothing happens for the next 3 seconds: no operator action,
	// no error, no timer. The session must stay up.
	limit := time.Now().Add(3 * time.Second)
	for time.Now().Before(limit) {
		m, err := fndReadMsg(conn, limit)
		if err != nil {
			if ne, ok := err.(net.Error); ok && ne.Timeout() {
				break // quiet, as it should be
			}
			t.Fatalf("fresh session was dropped: %v (reported state %v)", err, fndSessionState(t, s))
		}
		if m.Header.Type == bgp.BGP_MSG_NOTIFICATION {
			n := m.Body.(*bgp.BGPNotification)
			t.Fatalf("fresh session was torn down by NOTIFICATION %d/%d data=%q: "+
				"the reset issued earlier, while the peer was Active, was replayed on the new session",
				n.ErrorCode, n.ErrorSubcode, n.Data)
		}
		// KEEPALIVE / End-of-RIB UPDATE are fine
	}
	if st := fndSessionState(t, s); st != api.PeerState_SESSION_STATE_ESTABLISHED {
		t.Fatalf("session is not Established: %v", st)
	}
}
