package table

import (
	"log/slog"
	"net/netip"
	"os"
	"testing"
	"time"

	"github.com/osrg/gobgp/v4/pkg/packet/bgp"
)

// A receiver without ADD-PATH identifies a route by (family, prefix) only.
// The adj-rib-out changes the server queues for such a peer carry the
// per-destination local path id of whichever source path is best at that
// moment, so consecutive changes for the SAME prefix have DIFFERENT local
// ids. CreateUpdateMsgFromPaths de-duplicates by (family, prefix, local id)
// even when ADD-PATH is off, keeps both, and then emits withdrawals before
// announcements: the receiver ends with a route that was withdrawn.
func TestD23CoalesceKey(t *testing.T) {
	logger := slog.New(slog.NewTextHandler(os.Stderr, &slog.HandlerOptions{Level: slog.LevelError}))
	tm := NewTableManager(logger, []bgp.Family{bgp.RF_IPv4_UC})

	peerA := &PeerInfo{AS: 65001, LocalAS: 65000, ID: netip.MustParseAddr("10.0.0.1"), Address: netip.MustParseAddr("10.0.0.1")}
	peerB := &PeerInfo{AS: 65002, LocalAS: 65000, ID: netip.MustParseAddr("10.0.0.2"), Address: netip.MustParseAddr("10.0.0.2")}

	nlri, _ := bgp.NewIPAddrPrefix(netip.MustParsePrefix("203.0.113.0/24"))
	mk := func(peer *PeerInfo, withdraw bool, asns []uint32, nh string) *Path {
		var attrs []bgp.PathAttributeInterface
		if !withdraw {
			nexthop, _ := bgp.NewPathAttributeNextHop(netip.MustParseAddr(nh))
			attrs = []bgp.PathAttributeInterface{
				bgp.NewPathAttributeOrigin(0),
				bgp.NewPathAttributeAsPath([]bgp.AsPathParamInterface{bgp.NewAs4PathParam(bgp.BGP_ASPATH_ATTR_TYPE_SEQ, asns)}),
				nexthop,
			}
		} else {
			attrs = []bgp.PathAttributeInterface{}
		}
		return NewPath(bgp.RF_IPv4_UC, peer, bgp.PathNLRI{NLRI: nlri}, withdraw, attrs, time.Now(), false)
	}

	// The list of adj-rib-out changes for a non-ADD-PATH peer, computed by the
	// real table exactly the way BgpServer.propagateUpdateToNeighbors does
	// (TableManager.Update + Update.GetChanges on the global rib).
	var outgoing []*Path
	feed := func(p *Path) {
		for _, u := range tm.Update(p) {
			best, _, _ := u.GetChanges(GLOBAL_RIB_NAME, 0, false)
			if best != nil {
				outgoing = append(outgoing, best)
			}
		}
	}
	feed(mk(peerA, false, []uint32{65001}, "10.0.0.1"))               // A is best           -> announce (via A)
	feed(mk(peerB, false, []uint32{65002, 65010, 65011}, "10.0.0.2")) // B is worse          -> nothing
	feed(mk(peerA, true, nil, ""))                                    // A gone, B is best   -> announce (via B)
	feed(mk(peerB, true, nil, ""))                                    // B gone, nothing left -> withdraw

	if len(outgoing) != 3 || outgoing[0].IsWithdraw || outgoing[1].IsWithdraw || !outgoing[2].IsWithdraw {
		t.Fatalf("unexpected change list: %v", outgoing)
	}
	t.Logf("local ids of the three changes for the one prefix: %d %d %d", outgoing[0].localID, outgoing[1].localID, outgoing[2].localID)

	// receiver model: a plain (non ADD-PATH) speaker applying the messages in order
	apply := func(rib map[string]string, msgs []*bgp.BGPMessage) {
		for _, m := range msgs {
			b, err := m.Serialize()
			if err != nil {
				t.Fatalf("serialize: %v", err)
			}
			parsed, err := bgp.ParseBGPMessage(b)
			if err != nil {
				t.Fatalf("parse: %v", err)
			}
			u := parsed.Body.(*bgp.BGPUpdate)
			for _, w := range u.WithdrawnRoutes {
				delete(rib, w.NLRI.String())
			}
			aspath := ""
			for _, a := range u.PathAttributes {
				if ap, ok := a.(*bgp.PathAttributeAsPath); ok {
					aspath = ap.String()
				}
			}
			for _, n := range u.NLRI {
				rib[n.NLRI.String()] = aspath
			}
		}
	}

	// reference: the changes applied one at a time
	want := map[string]string{}
	for _, p := range outgoing {
		apply(want, CreateUpdateMsgFromPaths([]*Path{p}))
	}
	if len(want) != 0 {
		t.Fatalf("reference run should end with an empty rib, got %v", want)
	}

	// what sendMessageloop does when the three queued changes are coalesced
	got := map[string]string{}
	apply(got, CreateUpdateMsgFromPaths(outgoing))

	if len(got) != 0 {
		t.Fatalf("after announce, announce, withdraw of %s the receiver must hold no route, but it still holds %v", nlri, got)
	}
}
