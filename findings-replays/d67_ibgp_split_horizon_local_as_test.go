package server

import (
	"log/slog"
	"net/netip"
	"os"
	"testing"
	"time"

	"github.com/osrg/gobgp/v4/internal/pkg/table"
	"github.com/osrg/gobgp/v4/pkg/config/oc"
	"github.com/osrg/gobgp/v4/pkg/packet/bgp"
)

// A route learned from a non-client iBGP peer is advertised to another
// non-client iBGP peer when the two iBGP sessions use different AS numbers
// (one of them runs with local-as, RFC 7705 style AS migration).
func TestD67IbgpSplitHorizonLocalAs(t *testing.T) {
	lg := slog.New(slog.NewTextHandler(os.Stderr, &slog.HandlerOptions{Level: slog.LevelError}))
	const globalAS = 65000
	gConf := &oc.Global{Config: oc.GlobalConfig{As: globalAS, RouterId: netip.MustParseAddr("9.9.9.9")}}
	rib := table.NewTableManager(lg, []bgp.Family{bgp.RF_IPv4_UC})

	mk := func(address string, peerAS, localAS uint32) *peer {
		addr := netip.MustParseAddr(address)
		nConf := &oc.Neighbor{
			Config: oc.NeighborConfig{PeerAs: peerAS, LocalAs: localAS, NeighborAddress: addr},
			State:  oc.NeighborState{PeerAs: peerAS, NeighborAddress: addr, RemoteRouterId: addr},
		}
		if err := oc.SetDefaultNeighborConfigValues(nConf, nil, gConf); err != nil {
			t.Fatal(err)
		}
		policy := table.NewRoutingPolicy(lg)
		if err := policy.Reset(&oc.RoutingPolicy{}, nil); err != nil {
			t.Fatal(err)
		}
		p := newPeer(gConf, nConf, bgp.BGP_FSM_ESTABLISHED, rib, policy, lg)
		p.fsm.familyMap.Store(map[bgp.Family]bgp.BGPAddPathMode{bgp.RF_IPv4_UC: bgp.BGP_ADD_PATH_NONE})
		local := netip.MustParseAddr("1.1.1.1")
		p.peerInfo.Store(table.NewPeerInfo(gConf, nConf, peerAS, nConf.Config.LocalAs, addr, gConf.Config.RouterId, addr, local))
		return p
	}

	// iBGP session in the old AS: local-as 65001, peer-as 65001
	a := mk("192.168.0.1", 65001, 65001)
	// ordinary iBGP session in the global AS
	b := mk("192.168.0.2", globalAS, 0)

	for _, p := range []*peer{a, b} {
		if !p.isIBGPPeer() || p.isRouteReflectorClient() {
			t.Fatalf("setup: %s must be a non-client iBGP peer", p.ID())
		}
	}

	nlri, _ := bgp.NewIPAddrPrefix(netip.MustParsePrefix("10.10.10.0/24"))
	nh, _ := bgp.NewPathAttributeNextHop(netip.MustParseAddr("192.168.0.1"))
	attrs := []bgp.PathAttributeInterface{
		bgp.NewPathAttributeOrigin(0),
		bgp.NewPathAttributeAsPath([]bgp.AsPathParamInterface{bgp.NewAs4PathParam(bgp.BGP_ASPATH_ATTR_TYPE_SEQ, []uint32{300})}),
		nh,
		bgp.NewPathAttributeLocalPref(100),
	}
	// received from the non-client iBGP peer a
	path := table.NewPath(bgp.RF_IPv4_UC, a.peerInfo.Load(), bgp.PathNLRI{NLRI: nlri}, false, attrs, time.Now(), false)
	if !path.IsIBGP() {
		t.Fatal("setup: the route must be iBGP learned")
	}

	s := NewBgpServer()
	if out := s.filterpath(b, path, nil); out != nil {
		t.Fatalf("route learned from non-client iBGP peer %s (AS %d) was advertised to non-client iBGP peer %s (AS %d): %s",
			a.ID(), a.AS(), b.ID(), b.AS(), out)
	}
}
