package server

import (
	"strings"
	"testing"

	"github.com/osrg/gobgp/v4/pkg/config/oc"
	"github.com/osrg/gobgp/v4/pkg/packet/bgp"
)

// C08: the OPEN sent reflects the neighbour configuration (families, add-path,
// timers, GR/LLGR, local-as).
//
// A neighbour that belongs to a peer group sets its own timers and its own
// graceful-restart parameters; the peer group sets neither. What the neighbour
// sets itself takes precedence over the peer group (that is how the hold time,
// configured the same way, is handled). The OPEN built for the neighbour must
// therefore carry the Graceful Restart capability with restart time 200.
func TestD78PeerGroupOverwritesGracefulRestart(t *testing.T) {
	const cfg = `
[global.config]
  as = 65000
  router-id = "1.1.1.1"

[[peer-groups]]
  [peer-groups.config]
    peer-group-name = "pg"
    peer-as = 65001

[[neighbors]]
  [neighbors.config]
    neighbor-address = "192.0.2.2"
    peer-group = "pg"
  [neighbors.timers.config]
    hold-time = 30
  [neighbors.graceful-restart.config]
    enabled = true
    restart-time = 200
`
	c, err := oc.ReadConfig(strings.NewReader(cfg), "toml")
	if err != nil {
		t.Fatal(err)
	}
	if len(c.Neighbors) != 1 {
		t.Fatalf("neighbors: %d", len(c.Neighbors))
	}
	n := c.Neighbors[0]

	open := buildopen(&c.Global, &n).Body.(*bgp.BGPOpen)

	// the neighbour's own timers survive the peer group ...
	if open.HoldTime != 30 {
		t.Fatalf("hold time in OPEN: %d", open.HoldTime)
	}

	// ... and so must its graceful-restart configuration
	var gr *bgp.CapGracefulRestart
	for _, p := range open.OptParams {
		if pc, ok := p.(*bgp.OptionParameterCapability); ok {
			for _, c := range pc.Capability {
				if g, ok := c.(*bgp.CapGracefulRestart); ok {
					gr = g
				}
			}
		}
	}
	if gr == nil {
		t.Fatalf("neighbour is configured with graceful-restart enabled (restart-time 200), "+
			"but the OPEN carries no Graceful Restart capability; effective config: %+v", n.GracefulRestart.Config)
	}
	if gr.Time != 200 {
		t.Fatalf("restart time in OPEN: %d, configured 200", gr.Time)
	}
}
