package bmp

import (
	"bufio"
	"bytes"
	"testing"
)

// D29 (C19): a BMP common header whose Length is smaller than the header itself. SplitBMP must not hand out an
// empty (or sub-header) token without consuming input - bufio.Scanner then never terminates.
func TestD29SplitBMPShortLength(t *testing.T) {
	data := []byte{3, 0, 0, 0, 0, 4} // version 3, length 0, type 4
	s := bufio.NewScanner(bytes.NewReader(data))
	s.Split(SplitBMP)
	n := 0
	for s.Scan() {
		if len(s.Bytes()) < BMP_HEADER_SIZE {
			n++
			if n > 1000 {
				t.Fatalf("SplitBMP keeps returning tokens of %d octets without consuming input", len(s.Bytes()))
			}
		}
	}
}
