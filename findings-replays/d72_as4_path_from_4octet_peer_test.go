package server

import (
	"context"
	"log/slog"
	"net"
	"net/netip"
	"sync"
	"testing"
	"time"

	"github.com/eapache/channels"
	"github.com/osrg/gobgp/v4/pkg/config/oc"
	"github.com/osrg/gobgp/v4/pkg/packet/bgp"
)

type findingTCPConn struct {
	net.Conn
}

func (findingTCPConn) RemoteAddr() net.Addr {
	return &net.TCPAddr{IP: net.ParseIP("192.0.2.1").To4(), Port: 179}
}

func (findingTCPConn) LocalAddr() net.Addr {
	return &net.TCPAddr{IP: net.ParseIP("192.0.2.2").To4(), Port: 10179}
}

// Both sides announced the 4-octet AS capability, so the session uses the
// 4-octet AS_PATH encoding and nothing else: AS4_PATH / the AS_TRANS
// reconstruction of RFC 6793 4.2.3 belong to sessions with an OLD speaker
// only. RFC 6793 section 6: "A NEW BGP speaker that receives the AS4_PATH
// attribute in an UPDATE message from another NEW BGP speaker MUST discard
// this path attribute and continue processing the UPDATE message."
//
// recvMessageloop calls table.UpdatePathAttrs4ByteAs unconditionally, i.e.
// also when fsm.twoByteAsTrans is false, so the AS_PATH the peer sent in
// 4-octet encoding is overwritten with the contents of AS4_PATH.
func TestD72As4FromNewSpeaker(t *testing.T) {
	g := &oc.Global{Config: oc.GlobalConfig{As: 65000, RouterId: netip.MustParseAddr("10.0.0.1")}}
	n := &oc.Neighbor{Config: oc.NeighborConfig{NeighborAddress: netip.MustParseAddr("192.0.2.1"), PeerAs: 65001}}
	if err := oc.SetDefaultNeighborConfigValues(n, nil, g); err != nil {
		t.Fatal(err)
	}

	local, remote := net.Pipe()
	defer local.Close()
	defer remote.Close()

	var mu sync.Mutex
	var updates []*bgp.BGPUpdate
	fsm := newFSM(g, n, bgp.BGP_FSM_OPENCONFIRM, slog.Default())
	fsm.conn = findingTCPConn{local}
	h := &fsmHandler{fsm: fsm, outgoing: channels.NewInfiniteChannel(), callback: func(m *fsmMsg) {
		if bm, ok := m.MsgData.(*bgp.BGPMessage); ok && bm.Header.Type == bgp.BGP_MSG_UPDATE {
			mu.Lock()
			updates = append(updates, bm.Body.(*bgp.BGPUpdate))
			mu.Unlock()
		}
	}}
	fsm.h = h
	defer h.outgoing.Close()

	// OPEN of a NEW speaker: 4-octet AS capability present
	open, _ := bgp.NewBGPOpenMessage(65001, 90, netip.MustParseAddr("10.0.0.2"),
		[]bgp.OptionParameterInterface{bgp.NewOptionParameterCapability(
			[]bgp.ParameterCapabilityInterface{
				bgp.NewCapMultiProtocol(bgp.RF_IPv4_UC),
				bgp.NewCapFourOctetASNumber(65001),
			})})
	if next, _, _ := fsm.handleOpen(&fsmMsg{MsgType: fsmMsgBGPMessage, MsgData: open}); next != bgp.BGP_FSM_OPENCONFIRM {
		t.Fatalf("OPEN not accepted: %v", next)
	}
	fsm.recvOpen = open
	fsm.stateChange(bgp.BGP_FSM_ESTABLISHED, newfsmStateReason(fsmOpenMsgNegotiated, nil, nil))
	if fsm.twoByteAsTrans {
		t.Fatalf("4-octet AS must be negotiated")
	}

	ctx, cancel := context.WithCancel(context.Background())
	wg := &sync.WaitGroup{}
	wg.Add(1)
	go h.recvMessageloop(ctx, fsm.conn, make(chan struct{}, 2), make(chan fsmStateReason, 3), wg)

	// UPDATE in 4-octet encoding: AS_PATH 65001 65010 65020, plus an AS4_PATH 65001 64999 64998
	nh, _ := bgp.NewPathAttributeNextHop(netip.MustParseAddr("192.0.2.1"))
	nlri, _ := bgp.NewIPAddrPrefix(netip.MustParsePrefix("203.0.113.0/24"))
	sentPath := []uint32{65001, 65010, 65020}
	upd := bgp.NewBGPUpdateMessage(nil, []bgp.PathAttributeInterface{
		bgp.NewPathAttributeOrigin(0),
		bgp.NewPathAttributeAsPath([]bgp.AsPathParamInterface{bgp.NewAs4PathParam(bgp.BGP_ASPATH_ATTR_TYPE_SEQ, sentPath)}),
		nh,
		bgp.NewPathAttributeAs4Path([]*bgp.As4PathParam{bgp.NewAs4PathParam(bgp.BGP_ASPATH_ATTR_TYPE_SEQ, []uint32{65001, 64999, 64998})}),
	}, []bgp.PathNLRI{{NLRI: nlri}})
	b, err := upd.Serialize()
	if err != nil {
		t.Fatal(err)
	}
	go remote.Write(b)

	deadline := time.Now().Add(3 * time.Second)
	for time.Now().Before(deadline) {
		mu.Lock()
		l := len(updates)
		mu.Unlock()
		if l > 0 {
			break
		}
		time.Sleep(20 * time.Millisecond)
	}
	cancel()
	local.Close()
	wg.Wait()

	mu.Lock()
	defer mu.Unlock()
	if len(updates) != 1 {
		t.Fatalf("expected the UPDATE to be delivered, got %d", len(updates))
	}
	var got []uint32
	for _, a := range updates[0].PathAttributes {
		switch p := a.(type) {
		case *bgp.PathAttributeAsPath:
			for _, seg := range p.Value {
				got = append(got, seg.GetAS()...)
			}
		case *bgp.PathAttributeAs4Path:
			t.Errorf("AS4_PATH from a NEW speaker was kept")
		}
	}
	if len(got) != len(sentPath) || got[0] != sentPath[0] || got[1] != sentPath[1] || got[2] != sentPath[2] {
		t.Errorf("4-octet AS was negotiated and the peer sent AS_PATH %v, but the session delivered AS_PATH %v (taken from AS4_PATH, which must be discarded on such a session)", sentPath, got)
	}
}
