package server

import (
	"context"
	"fmt"
	"testing"
	"time"

	"github.com/osrg/gobgp/v4/api"
	"github.com/osrg/gobgp/v4/pkg/apiutil"
	"github.com/osrg/gobgp/v4/pkg/packet/bgp"
)

// With an RPKI cache configured, listing a neighbour's Adj-RIB-In (or -Out)
// with a prefix filter the table cannot evaluate must return the error to the
// caller. Instead the error path of getAdjRib hands the nil table to
// validateTable, which dereferences it inside the server's main goroutine.
func TestD103AdjRibListingNilTable(t *testing.T) {
	s := NewBgpServer()
	panicked := make(chan any, 1)
	go func() {
		defer func() {
			if r := recover(); r != nil {
				panicked <- r
			}
		}()
		s.Serve()
	}()

	ctx := context.Background()
	if err := s.StartBgp(ctx, &api.StartBgpRequest{
		Global: &api.Global{Asn: 65000, RouterId: "1.1.1.1", ListenPort: -1},
	}); err != nil {
		t.Fatal(err)
	}
	if err := s.AddPeer(ctx, &api.AddPeerRequest{Peer: &api.Peer{
		Conf:      &api.PeerConf{NeighborAddress: "127.0.0.2", PeerAsn: 65001},
		Transport: &api.Transport{PassiveMode: true},
	}}); err != nil {
		t.Fatal(err)
	}

	list := func() (err error, crashed any) {
		done := make(chan error, 1)
		go func() {
			done <- s.ListPath(apiutil.ListPathRequest{
				TableType: api.TableType_TABLE_TYPE_ADJ_IN,
				Family:    bgp.RF_IPv4_UC,
				Name:      "127.0.0.2",
				Prefixes:  []*apiutil.LookupPrefix{{Prefix: "10.0.0.0/33"}},
			}, func(bgp.NLRI, []*apiutil.Path) {})
		}()
		select {
		case err := <-done:
			return err, nil
		case r := <-panicked:
			return nil, r
		case <-time.After(10 * time.Second):
			return nil, fmt.Errorf("ListPath did not return")
		}
	}

	// without an RPKI cache the malformed filter is reported as an error
	err, crashed := list()
	if crashed != nil || err == nil {
		t.Fatalf("without RPKI: want an error, got err=%v crashed=%v", err, crashed)
	}

	// configure one RPKI cache (nothing needs to listen there)
	if err := s.AddRpki(ctx, &api.AddRpkiRequest{Address: "127.0.0.1", Port: 1}); err != nil {
		t.Fatal(err)
	}

	err, crashed = list()
	if crashed != nil {
		t.Fatalf("with an RPKI cache configured the same request crashes the server goroutine: %v", crashed)
	}
	if err == nil {
		t.Fatalf("want an error for the malformed prefix filter")
	}
	s.StopBgp(ctx, &api.StopBgpRequest{})
}
