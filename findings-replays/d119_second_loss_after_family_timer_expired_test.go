package server

import (
	"context"
	"net/netip"
	"testing"
	"time"

	"github.com/stretchr/testify/require"

	"github.com/osrg/gobgp/v4/api"
	"github.com/osrg/gobgp/v4/pkg/config/oc"
	"github.com/osrg/gobgp/v4/pkg/packet/bgp"
)

// Long-lived graceful restart with a second loss while the long-lived timers
// of the first loss are running.
//
// The peer negotiates LLGR for ipv4-unicast (long-lived stale time 2s) and
// ipv6-unicast (long-lived stale time 120s), restart time 1s.
//
//	t0       session lost (transport failure)
//	t0+1s    restart timer expires: routes LLGR-stale, long-lived timers start
//	t0+3s    ipv4 long-lived timer expires: stale ipv4 route removed
//	~t0+6s   the peer is back, announces its ipv4 and ipv6 route again; before
//	         it has sent End-of-RIB the session is lost again (t1)
//	t1+1s    restart timer expires
//
// The long-lived timers are not restarted by the second loss. The ipv6 one is
// still running and bounds the life of the ipv6 route. The ipv4 one has
// expired: nothing is left that would ever remove the ipv4 route, it has to go
// now (and in no reading later than a full ipv4 long-lived stale time, 2s,
// after the restart timer).
func TestD119SecondLossAfterFamilyTimerExpired(t *testing.T) {
	const peerAddr = "10.0.0.1"
	ctx := context.Background()

	s := NewBgpServer()
	go s.Serve()
	require.NoError(t, s.StartBgp(ctx, &api.StartBgpRequest{
		Global: &api.Global{Asn: 65001, RouterId: "192.168.1.1", ListenPort: -1},
	}))
	defer s.StopBgp(ctx, &api.StopBgpRequest{})

	family := func(name oc.AfiSafiType) oc.AfiSafi {
		return oc.AfiSafi{
			Config:                   oc.AfiSafiConfig{AfiSafiName: name, Enabled: true},
			MpGracefulRestart:        oc.MpGracefulRestart{Config: oc.MpGracefulRestartConfig{Enabled: true}},
			LongLivedGracefulRestart: oc.LongLivedGracefulRestart{Config: oc.LongLivedGracefulRestartConfig{Enabled: true, RestartTime: 60}},
		}
	}
	neighbor := &oc.Neighbor{
		Config:    oc.NeighborConfig{NeighborAddress: netip.MustParseAddr(peerAddr), PeerAs: 65001},
		Transport: oc.Transport{Config: oc.TransportConfig{PassiveMode: true}},
		Timers:    oc.Timers{Config: oc.TimersConfig{HoldTime: 90}},
		GracefulRestart: oc.GracefulRestart{Config: oc.GracefulRestartConfig{
			Enabled: true, RestartTime: 60, LongLivedEnabled: true,
		}},
		AfiSafis: []oc.AfiSafi{family(oc.AFI_SAFI_TYPE_IPV4_UNICAST), family(oc.AFI_SAFI_TYPE_IPV6_UNICAST)},
	}
	require.NoError(t, s.AddPeer(ctx, &api.AddPeerRequest{Peer: oc.NewPeerFromConfigStruct(neighbor)}))

	var p *peer
	require.NoError(t, s.mgmtOperation(func() error {
		p = s.neighborMap[netip.MustParseAddr(peerAddr)]
		return nil
	}, true))
	require.NotNil(t, p)

	openMsg := func() *bgp.BGPMessage {
		m, err := bgp.NewBGPOpenMessage(65001, 90, netip.MustParseAddr(peerAddr), []bgp.OptionParameterInterface{
			bgp.NewOptionParameterCapability([]bgp.ParameterCapabilityInterface{
				bgp.NewCapMultiProtocol(bgp.RF_IPv4_UC),
				bgp.NewCapMultiProtocol(bgp.RF_IPv6_UC),
				bgp.NewCapFourOctetASNumber(65001),
				bgp.NewCapGracefulRestart(false, false, 1, []*bgp.CapGracefulRestartTuple{
					bgp.NewCapGracefulRestartTuple(bgp.RF_IPv4_UC, true),
					bgp.NewCapGracefulRestartTuple(bgp.RF_IPv6_UC, true),
				}),
				bgp.NewCapLongLivedGracefulRestart([]*bgp.CapLongLivedGracefulRestartTuple{
					bgp.NewCapLongLivedGracefulRestartTuple(bgp.RF_IPv4_UC, true, 2),
					bgp.NewCapLongLivedGracefulRestartTuple(bgp.RF_IPv6_UC, true, 120),
				}),
			}),
		})
		require.NoError(t, err)
		return m
	}
	attrs := func() []bgp.PathAttributeInterface {
		return []bgp.PathAttributeInterface{
			bgp.NewPathAttributeOrigin(0),
			bgp.NewPathAttributeAsPath([]bgp.AsPathParamInterface{}),
			bgp.NewPathAttributeLocalPref(100),
		}
	}
	v4Update := func() *bgp.BGPMessage {
		nlri, _ := bgp.NewIPAddrPrefix(netip.MustParsePrefix("10.10.0.0/24"))
		nh, _ := bgp.NewPathAttributeNextHop(netip.MustParseAddr(peerAddr))
		a := attrs()
		// ORIGIN, AS_PATH, NEXT_HOP, LOCAL_PREF
		return bgp.NewBGPUpdateMessage(nil, []bgp.PathAttributeInterface{a[0], a[1], nh, a[2]}, []bgp.PathNLRI{{NLRI: nlri}})
	}
	v6Update := func() *bgp.BGPMessage {
		nlri, _ := bgp.NewIPAddrPrefix(netip.MustParsePrefix("2001:db8:10::/48"))
		mp, err := bgp.NewPathAttributeMpReachNLRI(bgp.RF_IPv6_UC, []bgp.PathNLRI{{NLRI: nlri}}, netip.MustParseAddr("2001:db8::1"))
		require.NoError(t, err)
		return bgp.NewBGPUpdateMessage(nil, append(attrs(), mp), nil)
	}
	count := func(f bgp.Family) int {
		n := 0
		require.NoError(t, s.mgmtOperation(func() error {
			n = p.adjRibIn.Count([]bgp.Family{f})
			return nil
		}, false))
		return n
	}
	session := func(complete bool) *MockConnection {
		// a passive peer takes a connection in ACTIVE only
		require.Eventually(t, func() bool { return p.fsm.state.Load() == bgp.BGP_FSM_ACTIVE },
			20*time.Second, 20*time.Millisecond, "peer does not get to ACTIVE")
		m := NewMockConnection()
		m.SetRemoteAddr(peerAddr)
		t.Cleanup(func() { m.Close() })
		p.fsm.connCh <- m
		m.PushBgpMessage(openMsg())
		m.PushBgpMessage(bgp.NewBGPKeepAliveMessage())
		require.Eventually(t, func() bool { return p.fsm.state.Load() == bgp.BGP_FSM_ESTABLISHED },
			10*time.Second, 10*time.Millisecond, "session does not come up")
		m.PushBgpMessage(v4Update())
		m.PushBgpMessage(v6Update())
		if complete {
			m.PushBgpMessage(bgp.NewEndOfRib(bgp.RF_IPv4_UC))
			m.PushBgpMessage(bgp.NewEndOfRib(bgp.RF_IPv6_UC))
		}
		require.Eventually(t, func() bool { return count(bgp.RF_IPv4_UC) == 1 && count(bgp.RF_IPv6_UC) == 1 },
			5*time.Second, 10*time.Millisecond, "routes of the peer not received")
		if complete {
			// the End-of-RIB markers processed
			require.Eventually(t, func() bool {
				return p.allNegotiatedEORReceived() && !p.fsm.pConf.ReadOnly().GracefulRestart.State.PeerRestarting
			}, 5*time.Second, 10*time.Millisecond)
		}
		return m
	}

	fresh := func(f bgp.Family) bool {
		ok := false
		require.NoError(t, s.mgmtOperation(func() error {
			l := p.adjRibIn.PathList([]bgp.Family{f}, false)
			ok = len(l) == 1 && !l[0].IsStale() && !l[0].IsLLGRStale()
			return nil
		}, false))
		return ok
	}

	// first session, lost: restart timer 1s, then the ipv4 long-lived timer
	// (2s) expires and takes the stale ipv4 route, the ipv6 one (120s) runs
	m1 := session(true)
	m1.Close()
	require.Eventually(t, func() bool { return count(bgp.RF_IPv4_UC) == 0 && count(bgp.RF_IPv6_UC) == 1 },
		15*time.Second, 50*time.Millisecond, "first loss: the LLGR-stale ipv4 route is not removed when its timer expires")
	require.True(t, p.fsm.pConf.ReadOnly().GracefulRestart.State.PeerRestarting, "the ipv6 long-lived timer is running")

	// the peer is back and announces both routes again, no End-of-RIB yet
	m2 := session(false)
	require.True(t, fresh(bgp.RF_IPv4_UC), "the ipv4 route announced again is fresh")
	lost := time.Now()
	m2.Close()

	// 1s restart time, 2s ipv4 long-lived stale time, and a generous margin
	deadline := lost.Add(12 * time.Second)
	for time.Now().Before(deadline) {
		if count(bgp.RF_IPv4_UC) == 0 {
			return
		}
		time.Sleep(100 * time.Millisecond)
	}
	var stale, llgrStale bool
	for _, path := range p.adjRibIn.PathList([]bgp.Family{bgp.RF_IPv4_UC}, false) {
		stale = stale || path.IsStale()
		llgrStale = llgrStale || path.IsLLGRStale()
	}
	t.Fatalf("second loss: %.0fs after it the ipv4 route of the peer is still there (stale=%v LLGR_STALE=%v) though the restart time is 1s and the ipv4 long-lived stale time 2s: its long-lived timer expired before the second loss and no timer is left to remove it",
		time.Since(lost).Seconds(), stale, llgrStale)
}
