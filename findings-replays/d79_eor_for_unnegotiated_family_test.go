package server

import (
	"context"
	"io"
	"net"
	"net/netip"
	"sync"
	"testing"
	"time"

	"github.com/osrg/gobgp/v4/api"
	"github.com/osrg/gobgp/v4/pkg/config/oc"
	"github.com/osrg/gobgp/v4/pkg/packet/bgp"
)

// C08: a session carries exactly the address families both OPENs announced,
// and messages are emitted under exactly the negotiated options.
//
// The local speaker is configured with ipv4-unicast and ipv6-unicast and
// graceful restart; the remote speaker (played by this test over a real TCP
// connection) announces ipv4-unicast only (and graceful restart). The session
// therefore runs with ipv4-unicast only. A "soft reset out" must not make the
// local speaker emit anything for ipv6-unicast.
func TestD79EorForUnnegotiatedFamily(t *testing.T) {
	const port = 11791
	ctx := context.Background()

	s := NewBgpServer()
	go s.Serve()
	if err := s.StartBgp(ctx, &api.StartBgpRequest{Global: &api.Global{
		Asn: 65001, RouterId: "1.1.1.1", ListenPort: port, ListenAddresses: []string{"127.0.0.1"},
	}}); err != nil {
		t.Fatal(err)
	}
	defer s.StopBgp(ctx, &api.StopBgpRequest{})

	n := &oc.Neighbor{
		Config: oc.NeighborConfig{NeighborAddress: netip.MustParseAddr("127.0.0.1"), PeerAs: 65002},
		Transport: oc.Transport{Config: oc.TransportConfig{PassiveMode: true}},
		GracefulRestart: oc.GracefulRestart{Config: oc.GracefulRestartConfig{Enabled: true, RestartTime: 120}},
		AfiSafis: []oc.AfiSafi{
			{
				Config:            oc.AfiSafiConfig{AfiSafiName: oc.AFI_SAFI_TYPE_IPV4_UNICAST, Enabled: true},
				MpGracefulRestart: oc.MpGracefulRestart{Config: oc.MpGracefulRestartConfig{Enabled: true}},
			},
			{
				Config:            oc.AfiSafiConfig{AfiSafiName: oc.AFI_SAFI_TYPE_IPV6_UNICAST, Enabled: true},
				MpGracefulRestart: oc.MpGracefulRestart{Config: oc.MpGracefulRestartConfig{Enabled: true}},
			},
		},
	}
	if err := s.AddPeer(ctx, &api.AddPeerRequest{Peer: oc.NewPeerFromConfigStruct(n)}); err != nil {
		t.Fatal(err)
	}

	// the remote speaker
	var conn net.Conn
	var err error
	for i := 0; i < 50; i++ {
		conn, err = net.Dial("tcp", net.JoinHostPort("127.0.0.1", "11791"))
		if err == nil {
			break
		}
		time.Sleep(100 * time.Millisecond)
	}
	if err != nil {
		t.Fatal(err)
	}
	defer conn.Close()

	readMsg := func() (*bgp.BGPMessage, error) {
		hdr := make([]byte, bgp.BGP_HEADER_LENGTH)
		if _, err := io.ReadFull(conn, hdr); err != nil {
			return nil, err
		}
		h := &bgp.BGPHeader{}
		if err := h.DecodeFromBytes(hdr); err != nil {
			return nil, err
		}
		body := make([]byte, int(h.Len)-bgp.BGP_HEADER_LENGTH)
		if _, err := io.ReadFull(conn, body); err != nil {
			return nil, err
		}
		return bgp.ParseBGPBody(h, body)
	}
	write := func(m *bgp.BGPMessage) {
		b, err := m.Serialize()
		if err != nil {
			t.Fatal(err)
		}
		if _, err := conn.Write(b); err != nil {
			t.Fatal(err)
		}
	}

	// remote OPEN: ipv4-unicast only, 4-octet AS, graceful restart for ipv4-unicast
	caps := []bgp.ParameterCapabilityInterface{
		bgp.NewCapMultiProtocol(bgp.RF_IPv4_UC),
		bgp.NewCapFourOctetASNumber(65002),
		bgp.NewCapGracefulRestart(false, false, 120, []*bgp.CapGracefulRestartTuple{bgp.NewCapGracefulRestartTuple(bgp.RF_IPv4_UC, true)}),
	}
	open, _ := bgp.NewBGPOpenMessage(65002, 90, netip.MustParseAddr("2.2.2.2"),
		[]bgp.OptionParameterInterface{bgp.NewOptionParameterCapability(caps)})
	write(open)

	conn.SetReadDeadline(time.Now().Add(10 * time.Second))
	m, err := readMsg()
	if err != nil || m.Header.Type != bgp.BGP_MSG_OPEN {
		t.Fatalf("expected OPEN from the local speaker: %v %v", m, err)
	}
	// sanity: the local speaker did announce both families
	announced := map[bgp.Family]bool{}
	for _, p := range m.Body.(*bgp.BGPOpen).OptParams {
		if pc, ok := p.(*bgp.OptionParameterCapability); ok {
			for _, c := range pc.Capability {
				if mp, ok := c.(*bgp.CapMultiProtocol); ok {
					announced[mp.CapValue] = true
				}
			}
		}
	}
	if !announced[bgp.RF_IPv4_UC] || !announced[bgp.RF_IPv6_UC] {
		t.Fatalf("unexpected local OPEN: %v", announced)
	}
	write(bgp.NewBGPKeepAliveMessage())
	m, err = readMsg()
	if err != nil || m.Header.Type != bgp.BGP_MSG_KEEPALIVE {
		t.Fatalf("expected KEEPALIVE from the local speaker: %v %v", m, err)
	}
	conn.SetReadDeadline(time.Time{})

	// collect what the local speaker sends from now on
	var mu sync.Mutex
	var got []*bgp.BGPMessage
	go func() {
		for {
			m, err := readMsg()
			if err != nil {
				return
			}
			mu.Lock()
			got = append(got, m)
			mu.Unlock()
		}
	}()

	// wait for ESTABLISHED on the local side
	established := func() bool {
		ok := false
		_ = s.ListPeer(ctx, &api.ListPeerRequest{Address: "127.0.0.1"}, func(p *api.Peer) {
			ok = p.State.SessionState == api.PeerState_SESSION_STATE_ESTABLISHED
		})
		return ok
	}
	deadline := time.Now().Add(10 * time.Second)
	for !established() {
		if time.Now().After(deadline) {
			t.Fatal("session not established")
		}
		time.Sleep(50 * time.Millisecond)
	}

	// the negotiated families, as the local speaker sees them
	var negotiated []bgp.Family
	_ = s.mgmtOperation(func() error {
		negotiated = s.neighborMap[netip.MustParseAddr("127.0.0.1")].negotiatedRFList()
		return nil
	}, false)
	if len(negotiated) != 1 || negotiated[0] != bgp.RF_IPv4_UC {
		t.Fatalf("negotiated families: %v", negotiated)
	}

	time.Sleep(500 * time.Millisecond)

	if err := s.ResetPeer(ctx, &api.ResetPeerRequest{Address: "127.0.0.1", Soft: true, Direction: api.ResetPeerRequest_DIRECTION_OUT}); err != nil {
		t.Fatal(err)
	}

	time.Sleep(1500 * time.Millisecond)

	mu.Lock()
	defer mu.Unlock()
	for _, m := range got {
		if m.Header.Type != bgp.BGP_MSG_UPDATE {
			continue
		}
		for _, a := range m.Body.(*bgp.BGPUpdate).PathAttributes {
			switch p := a.(type) {
			case *bgp.PathAttributeMpUnreachNLRI:
				if f := bgp.NewFamily(p.AFI, p.SAFI); f != bgp.RF_IPv4_UC {
					t.Errorf("UPDATE with MP_UNREACH_NLRI for %s sent on a session that negotiated only %v", f, negotiated)
				}
			case *bgp.PathAttributeMpReachNLRI:
				if f := bgp.NewFamily(p.AFI, p.SAFI); f != bgp.RF_IPv4_UC {
					t.Errorf("UPDATE with MP_REACH_NLRI for %s sent on a session that negotiated only %v", f, negotiated)
				}
			}
		}
	}
}
