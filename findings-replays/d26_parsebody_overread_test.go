package bgp

import (
	"testing"
)

// ParseBGPBody (the "body-with-header" entry point used by the FSM) only
// checks that the supplied buffer is NOT SHORTER than the length declared in
// the header; it never bounds the buffer to that length.  The body decoders
// then consume every byte they are given, so bytes that lie after the end of
// the declared message are parsed as if they belonged to it.
func TestD26ParseBodyOverread(t *testing.T) {
	// What a caller holds after reading a header from a byte stream: the
	// 4-byte body of this message (an End-of-RIB UPDATE: withdrawn routes
	// length 0, total path attribute length 0) immediately followed by bytes
	// that belong to whatever comes next on the stream.
	stream := []byte{
		0x00, 0x00, 0x00, 0x00, // the declared message body (4 bytes)
		0x18, 0x0a, 0x00, 0x01, // NOT part of this message
	}
	h := &BGPHeader{Len: BGP_HEADER_LENGTH + 4, Type: BGP_MSG_UPDATE}

	msg, err := ParseBGPBody(h, stream)
	if err != nil {
		t.Skipf("rejected (that would be fine): %v", err)
	}
	u := msg.Body.(*BGPUpdate)
	if len(u.NLRI) != 0 {
		t.Fatalf("C05 violated: header declares a %d-byte message (4-byte body) but the parser read past it and returned NLRI %v taken from bytes outside the declared message", h.Len, u.NLRI)
	}

	// the same bytes through the whole-message entry point are framed
	// correctly, which shows what the expected behaviour is.
	whole := make([]byte, 0, 19+len(stream))
	for i := 0; i < 16; i++ {
		whole = append(whole, 0xff)
	}
	whole = append(whole, 0x00, 0x17, BGP_MSG_UPDATE)
	whole = append(whole, stream...)
	msg2, err := ParseBGPMessage(whole)
	if err != nil {
		t.Fatal(err)
	}
	if n := len(msg2.Body.(*BGPUpdate).NLRI); n != 0 {
		t.Fatalf("ParseBGPMessage over-read too: %d NLRI", n)
	}
}
