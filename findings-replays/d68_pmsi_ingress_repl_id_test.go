package bgp

import (
	"bytes"
	"encoding/binary"
	"testing"
)

// C06: RFC 6514 5 - a PMSI Tunnel attribute whose Tunnel Identifier cannot be
// parsed as an identifier of the given Tunnel Type is malformed, and the UPDATE
// is treated as withdrawn (gobgp's own table maps PMSI_TUNNEL errors to
// treat-as-withdraw). For Ingress Replication (type 6) the identifier is an
// IPv4 or IPv6 address. An identifier of any other length is accepted: the
// address silently becomes the invalid netip.Addr{}, the route is installed,
// and the attribute is propagated with the identifier cut off.
func TestD68PmsiIngressReplId(t *testing.T) {
	pmsi := []byte{
		0xc0, 0x16, 0x0a, // PMSI_TUNNEL, length 10
		0x00,             // flags
		0x06,             // tunnel type: ingress replication
		0x00, 0x00, 0x10, // label
		1, 2, 3, 4, 5, // 5 octet tunnel identifier: neither IPv4 nor IPv6
	}
	attrs := []byte{
		0x40, 0x01, 0x01, 0x00,
		0x40, 0x02, 0x06, 0x02, 0x01, 0x00, 0x00, 0xfd, 0xe9,
		0x40, 0x03, 0x04, 10, 0, 0, 1,
	}
	attrs = append(attrs, pmsi...)
	nlri := []byte{24, 10, 0, 0}

	body := []byte{0, 0, 0, 0}
	binary.BigEndian.PutUint16(body[2:], uint16(len(attrs)))
	body = append(body, attrs...)
	body = append(body, nlri...)
	raw := make([]byte, 19)
	for i := 0; i < 16; i++ {
		raw[i] = 0xff
	}
	binary.BigEndian.PutUint16(raw[16:], uint16(19+len(body)))
	raw[18] = BGP_MSG_UPDATE
	raw = append(raw, body...)

	families := map[Family]BGPAddPathMode{RF_IPv4_UC: BGP_ADD_PATH_NONE}
	m, err := ParseBGPMessage(raw, &MarshallingOption{AddPath: families})
	if m == nil {
		t.Fatalf("the message is not decoded at all: %v", err)
	}
	update := m.Body.(*BGPUpdate)
	if err == nil {
		_, err = ValidateUpdateMsg(update, families, true, false, false)
	}
	if err == nil {
		for _, a := range update.PathAttributes {
			if p, ok := a.(*PathAttributePmsiTunnel); ok {
				out, _ := p.Serialize()
				t.Errorf("malformed PMSI_TUNNEL accepted as %s; received %x, would be sent as %x (equal: %v)",
					p, pmsi, out, bytes.Equal(pmsi, out))
			}
		}
		t.Fatalf("an UPDATE with an unparsable PMSI tunnel identifier is accepted as well-formed")
	}
	if h := err.(*MessageError).ErrorHandling; h < ERROR_HANDLING_TREAT_AS_WITHDRAW {
		t.Fatalf("malformed PMSI_TUNNEL must be at least treat-as-withdraw, got handling %d (%v)", h, err)
	}
}
