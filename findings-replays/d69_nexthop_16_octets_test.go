package server

import (
	"context"
	"encoding/binary"
	"sync"
	"testing"
	"time"

	"github.com/osrg/gobgp/v4/internal/pkg/table"
	"github.com/osrg/gobgp/v4/pkg/packet/bgp"
)

// findingRecvUpdate feeds one raw UPDATE to the receive loop of an established
// eBGP session (IPv4 unicast negotiated, 4-octet AS numbers) and returns
// either the message the loop hands to the peer (callback) or the
// NOTIFICATION it queues when it resets the session.
func findingRecvUpdate(t *testing.T, raw []byte, treatAsWithdraw bool) (*fsmMsg, *bgp.BGPMessage) {
	t.Helper()
	m := NewMockConnection()
	_, h := makePeerAndHandler(m)
	t.Cleanup(func() { cleanPeerAndHandler(&peer{fsm: h.fsm}, h) })

	h.fsm.familyMap.Store(map[bgp.Family]bgp.BGPAddPathMode{bgp.RF_IPv4_UC: bgp.BGP_ADD_PATH_NONE})
	h.fsm.isEBGP = true
	h.fsm.isTreatAsWithdraw = treatAsWithdraw
	h.fsm.state.Store(bgp.BGP_FSM_ESTABLISHED)

	delivered := make(chan *fsmMsg, 1)
	h.callback = func(e *fsmMsg) { delivered <- e }

	ctx, cancel := context.WithCancel(context.Background())
	wg := &sync.WaitGroup{}
	wg.Add(1)
	go h.recvMessageloop(ctx, m.Conn, make(chan struct{}, 2), make(chan fsmStateReason, 2), wg)
	t.Cleanup(func() {
		cancel()
		_ = m.Conn.SetReadDeadline(time.Now())
		wg.Wait()
	})

	go func() { _, _ = m.remote.Write(raw) }()

	select {
	case e := <-delivered:
		return e, nil
	case n := <-h.fsm.notification:
		return nil, n
	case <-time.After(5 * time.Second):
		t.Fatal("the receive loop neither delivered the UPDATE nor reset the session")
	}
	return nil, nil
}

func findingRawUpdate(attrs, nlri []byte) []byte {
	body := []byte{0, 0, 0, 0}
	binary.BigEndian.PutUint16(body[2:], uint16(len(attrs)))
	body = append(body, attrs...)
	body = append(body, nlri...)
	raw := make([]byte, 19)
	for i := 0; i < 16; i++ {
		raw[i] = 0xff
	}
	binary.BigEndian.PutUint16(raw[16:], uint16(19+len(body)))
	raw[18] = bgp.BGP_MSG_UPDATE
	return append(raw, body...)
}

// C06: RFC 4271 4.3 / RFC 7606 7.3 - a NEXT_HOP attribute whose length is not 4
// is malformed: treat-as-withdraw, or a session reset when revised error
// handling is off. A NEXT_HOP of 16 octets passes the decoder and the
// validator, so the receive loop hands the UPDATE on as well-formed and
// 10.0.0.0/24 is installed with the next hop 2001:db8::1.
func TestD69Nexthop16Octets(t *testing.T) {
	raw := findingRawUpdate([]byte{
		0x40, 0x01, 0x01, 0x00, // ORIGIN IGP
		0x40, 0x02, 0x06, 0x02, 0x01, 0x00, 0x00, 0xfd, 0xe9, // AS_PATH SEQ(65001)
		0x40, 0x03, 0x10, // NEXT_HOP, length 16
		0x20, 0x01, 0x0d, 0xb8, 0, 0, 0, 0, 0, 0, 0, 0, 0, 0, 0, 0x01,
	}, []byte{24, 10, 0, 0})

	t.Run("control: the same UPDATE with a 4 octet NEXT_HOP is delivered", func(t *testing.T) {
		good := findingRawUpdate([]byte{
			0x40, 0x01, 0x01, 0x00,
			0x40, 0x02, 0x06, 0x02, 0x01, 0x00, 0x00, 0xfd, 0xe9,
			0x40, 0x03, 0x04, 10, 0, 0, 1,
		}, []byte{24, 10, 0, 0})
		e, n := findingRecvUpdate(t, good, true)
		if n != nil || e.handling != bgp.ERROR_HANDLING_NONE {
			t.Fatalf("well-formed UPDATE penalised: notification %v", n)
		}
	})

	t.Run("revised error handling on", func(t *testing.T) {
		e, n := findingRecvUpdate(t, raw, true)
		if n != nil {
			return // a session reset is stronger than required, but contains the route
		}
		if e.handling != bgp.ERROR_HANDLING_TREAT_AS_WITHDRAW {
			for _, p := range table.ProcessMessage(e.MsgData.(*bgp.BGPMessage), &table.PeerInfo{}, time.Now(), false) {
				t.Errorf("route that would be installed: %s next hop %s withdraw=%v", p.GetNlri(), p.GetNexthop(), p.IsWithdraw)
			}
			t.Fatalf("UPDATE with a 16 octet NEXT_HOP handed to the peer with handling %d, want treat-as-withdraw (%d)",
				e.handling, bgp.ERROR_HANDLING_TREAT_AS_WITHDRAW)
		}
	})

	t.Run("revised error handling off", func(t *testing.T) {
		e, n := findingRecvUpdate(t, raw, false)
		if n == nil {
			t.Fatalf("UPDATE with a 16 octet NEXT_HOP did not reset the session; handed to the peer with handling %d: %v",
				e.handling, e.MsgData.(*bgp.BGPMessage).Body.(*bgp.BGPUpdate).PathAttributes)
		}
		body := n.Body.(*bgp.BGPNotification)
		if body.ErrorCode != bgp.BGP_ERROR_UPDATE_MESSAGE_ERROR {
			t.Fatalf("NOTIFICATION code %d/%d, want an UPDATE Message Error", body.ErrorCode, body.ErrorSubcode)
		}
	})
}
