//go:build verif

// Contracts (//@ comments, read by /verif/govc) and proof harnesses for package bfd.
// Built only with -tags verif; never part of the normal build.
package bfd

//@ props C19

//@ func byteToBool
//@   inline
//@ func boolToByte
//@   inline

//@ func (*BFDHeader).Validate
//@   modifies nothing
//@   ensures err == nil <==> (h.Version <= 7 && h.Diagnostic <= 31 && h.State <= 3)

//@ func (*BFDHeader).UnmarshalBinary
//@   modifies h.*
//@   ensures err == nil ==> len(buf) >= 24 && len(buf) == int(buf[3])
//@   ensures err == nil ==> h.Version <= 7 && h.Diagnostic <= 31 && h.State <= 3      // decoded values are re-serialisable

//@ func (*BFDHeader).MarshalBinary
//@   modifies nothing
//@   ensures err == nil <==> (h.Version <= 7 && h.Diagnostic <= 31 && h.State <= 3)
//@   ensures err == nil ==> len(result0) == 24 && result0[3] == 24 && fresh(result0)

// verifRoundTripBFD: decode(encode(h)) == h for every header the package accepts (C19 "every message those
// packages can construct serialises to bytes that parse back to an equal message"). Loop-free; both real
// bodies are inlined by the verifier, so the proof is over the code that runs.
//
//@ func verifRoundTripBFD
//@   requires h != nil
//@   inline-calls
//@   modifies nothing
//@   ensures result
func verifRoundTripBFD(h *BFDHeader) bool {
	b, err := h.MarshalBinary()
	if err != nil {
		return true
	}
	var g BFDHeader
	if err := g.UnmarshalBinary(b); err != nil {
		return false
	}
	return g == *h
}

//@ invariant ErrInvalidPacketLength != nil && ErrInvalidHeader != nil && ErrInvalidVersion != nil
//@ invariant ErrInvalidDiagnostic != nil && ErrInvalidState != nil
