//go:build verif

// Contracts (//@ comments, read by /verif/govc) and proof harnesses for package bmp. Built only with -tags verif.
package bmp

//@ props C19

//@ func (*BMPPeerHeader).hasVFlag
//@   inline

//@ func (*BMPHeader).DecodeFromBytes
//@   modifies h.*
//@   ensures err == nil ==> len(data) >= 6 && h.Version == 3

//@ func (*BMPHeader).Serialize
//@   modifies nothing
//@   ensures err == nil && len(result0) == 6 && fresh(result0)

//@ func (*BMPPeerHeader).DecodeFromBytes
//@   modifies h.*
//@   ensures err == nil ==> len(data) >= 42

//@ func SplitBMP
//@   strict-len
//@   modifies nothing
//@   ensures 0 <= advance && advance <= len(data)
//@   ensures len(token) <= len(data)
//@   ensures token != nil ==> advance == len(token)

//@ func (*BMPStatsTLV32).ParseValue
//@   requires len(data) >= int(s.Length)
//@   modifies s.*
//@ func (*BMPStatsTLV64).ParseValue
//@   requires len(data) >= int(s.Length)
//@   modifies s.*
//@ func (*BMPStatsTLVPerAfiSafi64).ParseValue
//@   requires len(data) >= int(s.Length)
//@   modifies s.*

// decode(encode(h)) == h for the BMP common header (version 3 is the only one the decoder accepts).
//@ func verifRoundTripBMPHeader
//@   requires h != nil
//@   inline-calls
//@   modifies nothing
//@   ensures result
func verifRoundTripBMPHeader(h *BMPHeader) bool {
	if h.Version != BMP_VERSION {
		return true
	}
	b, err := h.Serialize()
	if err != nil {
		return false
	}
	var g BMPHeader
	if err := g.DecodeFromBytes(b); err != nil {
		return false
	}
	return g == *h
}
