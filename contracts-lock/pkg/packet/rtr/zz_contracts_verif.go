//go:build verif

// Contracts for package rtr (comment-only; read by /verif/govc, never compiled into the build).
package rtr

//@ props C19

//@ func (*RTRCommon).DecodeFromBytes
//@   modifies m.*
//@   ensures err == nil ==> len(data) >= 12
//@   ensures err == nil ==> m.Version == data[0] && m.Type == data[1]

//@ func (*RTRReset).DecodeFromBytes
//@   modifies m.*
//@   ensures err == nil ==> len(data) >= 8

//@ func (*RTRCacheResponse).DecodeFromBytes
//@   modifies m.*
//@   ensures err == nil ==> len(data) >= 8

//@ func (*RTRIPPrefix).DecodeFromBytes
//@   modifies m.*
//@   ensures err == nil ==> len(data) >= 20
//@   ensures err == nil ==> m.PrefixLen <= m.MaxLen

//@ func (*RTRErrorReport).DecodeFromBytes
//@   modifies m.*
//@   ensures err == nil ==> len(data) >= 16

//@ func ParseRTR
//@   modifies nothing
