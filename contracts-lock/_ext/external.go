//go:build verif

// Trusted contracts of external (standard library / third-party) functions. Assumed, never proved;
// every one that a proof uses is listed in the evidence file of the property.
package ext

//@ trusted func net/netip.(Prefix).Bits
//@   pure
//@   ensures result >= -1 && result <= 128 && (p.IsValid() <==> result >= 0)
//@   ensures (p.Addr().Is4() ==> result <= 32) && (!p.Addr().IsValid() ==> result < 0)

//@ trusted func net/netip.(Addr).BitLen
//@   pure
//@   ensures result == 0 || result == 32 || result == 128
//@   ensures (ip.Is4() ==> result == 32) && (ip.Is6() ==> result == 128) && (!ip.IsValid() ==> result == 0)

//@ trusted func net/netip.AddrFromSlice
//@   pure
//@   ensures len(slice) == 4 ==> result0.Is4() && result1
//@   ensures len(slice) == 16 ==> result0.Is6() && result1
//@   ensures len(slice) != 4 && len(slice) != 16 ==> !result1

//@ trusted func net/netip.IPv4Unspecified
//@   pure
//@   ensures result.IsValid() && result.Is4()

// logging helpers of the repository itself (stringer-generated / fmt-based String methods used only in log
// calls): assumed free of side effects, not verified
//@ trusted func github.com/osrg/gobgp/v4/pkg/packet/bgp.(FSMState).String
//@   pure
//@ trusted func github.com/osrg/gobgp/v4/pkg/server.(fsmStateReason).String
//@   pure

// packValues (pkg/packet/mrt) writes its operands with encoding/binary.Write (reflection, outside the engine):
// assumed - one uint32 operand gives 4 octets, one uint16 operand 2 octets, no error, nothing else written
//@ trusted func github.com/osrg/gobgp/v4/pkg/packet/mrt.packValues
//@   modular
//@   modifies nothing
//@   ensures len(values) == 1 && typeOf(values[0]) == (uint32) ==> result1 == nil && len(result0) == 4 && fresh(result0)
//@   ensures len(values) == 1 && typeOf(values[0]) == (uint16) ==> result1 == nil && len(result0) == 2 && fresh(result0)
