#!/usr/bin/env python3
# Generates MANIFEST.json from the table below (kept in one place so that it stays valid).
import json, subprocess, sys

CLAIMED = {
 # id: (level text, level_note, technique, design_ref)
}
NA = {}
exec(open('/verif/manifest_table.py').read())

hooks_commits = subprocess.run(['git','-C','/repo','log','--format=%H %s'],capture_output=True,text=True).stdout.splitlines()
hook_shas = [l.split()[0] for l in hooks_commits if ' verif-hook:' in l or l.split(' ',1)[1].startswith('verif-hook')]

checks=[]
for pid,(text,note,tech,ref) in sorted(CLAIMED.items()):
    checks.append({
     "property_id": pid,
     "quick_cmd": f"/verif/bin/govc check {pid} --tier quick",
     "thorough_cmd": f"/verif/bin/govc check {pid} --tier thorough",
     "evidence_file": f"/verif/evidence/{pid}.json",
     "replay_cmd_template": "/verif/bin/govc replay {path}",
     "engine": "govc",
     "level_claimed": {"category":"proof","text":text,"design_ref":ref},
     "level_note": note,
     "technique": tech,
    })
m={
 "version":1,
 "setup_cmd":"cd /verif/govc && GOFLAGS=-mod=vendor GOPROXY=off go build -o /verif/bin/govc . && mkdir -p /verif/.work",
 "hooks":{
   "guard":"verif",
   "enable":"-tags verif (the hook files are comment-only contract files zz_contracts_verif.go; govc reads them as text)",
   "baseline_off_cmd":"cd /repo && GOFLAGS=-mod=mod GOPROXY=off go test -json -vet=off -count=1 -timeout 25m ./...",
   "source_commits":hook_shas,
   "add_only":True},
 "engines":[{"name":"govc","path":"/verif/govc","serves_properties":sorted(CLAIMED),
   "kind_free_text":"contract-based deductive verifier for Go written for this task: weakest-precondition style VC generation over go/ssa of /repo's working tree (passive block-predicate encoding, Burstall field heaps, wrapped mathematical integers), contracts in //@ comment files, obligations discharged by z3 5.1 / cvc5 / z3 4.8, counterexamples replayed on the real code via go test -overlay"}],
 "checks":checks,
 "not_applicable":[{"property_id":k,"reason":v} for k,v in sorted(NA.items())],
 "notes":"Exit codes of a check: 0 all claimed obligations discharged (KNOWN-FINDING lines possible), 1 VIOLATION, 2 BROKEN (vacuity / contract no longer evaluates), 3 UNDECIDED (contract target missing). See DESIGN.md."
}
json.dump(m,open('/verif/MANIFEST.json','w'),indent=1)
print("claimed",sorted(CLAIMED),"na",sorted(NA))
