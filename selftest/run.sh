#!/bin/bash
# Must-fail selftest: every patch under selftest/mutants/<prop>/ and seeded/<id>/patch.diff must make
# `govc check <prop>` exit 1 on a scratch worktree (outside /repo and /verif), which is removed afterwards.
# usage: selftest/run.sh [prop ...]
set -u
export GOFLAGS=-mod=mod GOPROXY=off
WT=${TMPDIR:-/tmp}/govc-selftest-$$
git -C /repo worktree add -q --detach "$WT" HEAD || exit 2
trap 'git -C /repo worktree remove --force "$WT" >/dev/null 2>&1; rm -rf "$WT"' EXIT
fail=0; n=0
props="$*"
run_one() { # prop patch
  local prop=$1 patch=$2
  git -C "$WT" checkout -q -- . ; git -C "$WT" clean -fdq
  if ! git -C "$WT" apply "$patch" 2>/dev/null; then echo "SELFTEST-SKIP $patch (does not apply)"; return; fi
  if ! (cd "$WT" && go build ./... >/dev/null 2>&1); then echo "SELFTEST-SKIP $patch (does not build)"; return; fi
  n=$((n+1))
  out=$(GOVC_REPO="$WT" GOVC_NOEVIDENCE=1 /verif/bin/govc check "$prop" 2>&1); rc=$?
  if [ $rc -eq 1 ]; then echo "SELFTEST-OK   $prop $(basename $patch) -> $(echo "$out" | grep -c '^VIOLATION') violation line(s)";
  else echo "SELFTEST-MISS $prop $patch (exit $rc)"; fail=$((fail+1)); fi
}
for d in /verif/selftest/mutants/*/; do
  prop=$(basename "$d")
  if [ -n "$props" ] && ! echo " $props " | grep -q " $prop "; then continue; fi
  for p in "$d"*.patch; do [ -e "$p" ] && run_one "$prop" "$p"; done
done
for d in /verif/seeded/*/; do
  [ -e "$d/meta.json" ] || continue
  prop=$(python3 -c "import json,sys;print(json.load(open('$d/meta.json'))['property'])")
  if [ -n "$props" ] && ! echo " $props " | grep -q " $prop "; then continue; fi
  det=$(python3 -c "import json,sys;print(json.load(open('$d/meta.json')).get('detected',True))")
  [ "$det" = "True" ] && run_one "$prop" "$d/patch.diff"
done
echo "selftest: $n mutants, $fail missed"
[ $fail -eq 0 ]
