#!/bin/bash
# Runs every claimed check's quick command on /repo without touching the evidence files; prints one line per property.
cd /verif
ids=$(python3 -c "import json;print(' '.join(c['property_id'] for c in json.load(open('MANIFEST.json'))['checks']))" 2>/dev/null || echo "C03 C05 C06 C07 C08 C09 C10 C11 C14 C16 C17 C19")
rc=0
for p in $ids; do
  out=$(GOVC_NOEVIDENCE=1 bin/govc check $p 2>&1); e=$?
  echo "$p exit=$e $(echo "$out" | grep -c '^KNOWN-FINDING') known; $(echo "$out" | grep '^govc:' | sed 's/govc: //')"
  if [ $e -ne 0 ]; then rc=1; echo "$out" | grep -v '^replay' | tail -5; fi
done
exit $rc
