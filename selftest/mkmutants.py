#!/usr/bin/env python3
"""Generates the must-fail corpus: one patch per deliberately broken body (all compile).
Run from a clean scratch worktree of /repo: mkmutants.py <worktree>"""
import subprocess, sys, os
wt = sys.argv[1]
out = '/verif/selftest/mutants'
M = [
 # (name, property, file, old, new)
 ("rtr_ipprefix_len", "C19", "pkg/packet/rtr/rtr.go", "if len(data) < RTR_IPV4_PREFIX_LEN {", "if len(data) < RTR_MIN_LEN {"),
 ("rtr_errreport_pdulen", "C19", "pkg/packet/rtr/rtr.go", "if m.PDULen > uint32(len(data)-12-4) {", "if m.PDULen > uint32(len(data)-12) {"),
 ("bfd_final_bit", "C19", "pkg/packet/bfd/bfd.go", "h.Final = byteToBool(buf[1] >> 4 & 1)", "h.Final = byteToBool(buf[1] >> 3 & 1)"),
 ("bfd_len_check", "C19", "pkg/packet/bfd/bfd.go", "if len(buf) < packetSizeMin {", "if len(buf) < packetSizeMin-4 {"),
 ("mrt_split_cap", "C19", "pkg/packet/mrt/mrt.go", "if len(data) < MRT_COMMON_HEADER_LEN { // read more", "if cap(data) < MRT_COMMON_HEADER_LEN { // read more"),
 ("bmp_split_len", "C19", "pkg/packet/bmp/bmp.go", "if len(data) < int(tmpHdr.Length) {", "if cap(data) < int(tmpHdr.Length) {"),
 ("bmp_peerhdr_len", "C19", "pkg/packet/bmp/bmp.go", "if len(data) < BMP_PEER_HEADER_SIZE {", "if len(data) < BMP_PEER_HEADER_SIZE-2 {"),
 ("bgp_cap_gr_len", "C05", "pkg/packet/bgp/bgp.go", "\tif c.CapLen < 2 {\n\t\treturn NewMessageError(BGP_ERROR_OPEN_MESSAGE_ERROR, BGP_ERROR_SUB_UNSUPPORTED_CAPABILITY, nil, \"Not all CapabilityGracefulRestart", "\tif c.CapLen < 1 {\n\t\treturn NewMessageError(BGP_ERROR_OPEN_MESSAGE_ERROR, BGP_ERROR_SUB_UNSUPPORTED_CAPABILITY, nil, \"Not all CapabilityGracefulRestart"),
 ("bgp_open_paramlen", "C05", "pkg/packet/bgp/bgp.go", "\t\tif paramlen >= 254 || rest < paramlen+2 {", "\t\tif rest < paramlen+2 {"),
 ("bgp_optparam_caplen", "C05", "pkg/packet/bgp/bgp.go", "\t\tif c.Len() == 0 || len(data) < c.Len() {", "\t\tif c.Len() == 0 || len(data) < c.Len()-1 {"),
 ("bgp_defcap_len", "C05", "pkg/packet/bgp/bgp.go", "\tif len(data) < 2+int(c.CapLen) {\n\t\treturn NewMessageError(BGP_ERROR_OPEN_MESSAGE_ERROR, BGP_ERROR_SUB_UNSUPPORTED_CAPABILITY, nil, \"Not all DefaultParameterCapability", "\tif len(data) < 1+int(c.CapLen) {\n\t\treturn NewMessageError(BGP_ERROR_OPEN_MESSAGE_ERROR, BGP_ERROR_SUB_UNSUPPORTED_CAPABILITY, nil, \"Not all DefaultParameterCapability"),
 ("bgp_addpath_loop", "C05", "pkg/packet/bgp/bgp.go", "\tfor capLen >= 4 {\n\t\tt := &CapAddPathTuple{", "\tfor capLen >= 3 {\n\t\tt := &CapAddPathTuple{"),
 ("bgp_update_attr_short", "C05", "pkg/packet/bgp/bgp.go", "\t\tif len(data) < p.Len(options...) {\n\t\t\te = NewMessageErrorWithErrorHandling(", "\t\tif len(data)+1 < p.Len(options...) {\n\t\t\te = NewMessageErrorWithErrorHandling("),
 ("bgp_pathattr_extlen", "C05", "pkg/packet/bgp/bgp.go", "\t\tif len(data) < 4 {\n\t\t\treturn nil, NewMessageError(eCode, eSubCode, data, \"attribute header length is short\")", "\t\tif len(data) < 3 {\n\t\t\treturn nil, NewMessageError(eCode, eSubCode, data, \"attribute header length is short\")"),
 ("bgp_aspathparam_len", "C05", "pkg/packet/bgp/bgp.go", "\tif len(data) < int(a.Num)*2 {", "\tif len(data) < int(a.Num) {"),
 ("bgp_prefix_bitlen", "C05", "pkg/packet/bgp/bgp.go", "\tif int(bitlen) > addrlen*8 {", "\tif int(bitlen) > addrlen*8+8 {"),
 ("bgp_mpreach_nhlen", "C05", "pkg/packet/bgp/bgp.go", "\tif len(value) < 1+nexthoplen {", "\tif len(value) < nexthoplen {"),
 ("bgp_errtype_plain", "C05", "pkg/packet/bgp/bgp.go", "\t\treturn NewMessageError(eCode, eSubCode, nil, \"med length isn't correct\")", "\t\treturn fmt.Errorf(\"med length isn't correct %d %d\", eCode, eSubCode)"),
 ("bgp_vpn_rdlen", "C05", "pkg/packet/bgp/bgp.go", "\tif len(data) < l.Labels.Len()+8 {", "\tif len(data) < l.Labels.Len()+7 {"),
]
for name, prop, f, old, new in M:
    subprocess.run(['git','-C',wt,'checkout','-q','--','.'],check=True)
    p=os.path.join(wt,f); s=open(p).read()
    if s.count(old)!=1:
        print("SKIP (pattern count %d): %s"%(s.count(old),name)); continue
    open(p,'w').write(s.replace(old,new))
    d=subprocess.run(['git','-C',wt,'diff'],capture_output=True,text=True).stdout
    os.makedirs(os.path.join(out,prop),exist_ok=True)
    open(os.path.join(out,prop,name+'.patch'),'w').write(d)
subprocess.run(['git','-C',wt,'checkout','-q','--','.'],check=True)
print("done")
