CLAIMED = {
 "C19": ("Proof, for all byte strings and with no bound on length, that the RPKI-RTR PDU decoders (ParseRTR and the five DecodeFromBytes bodies) never index or slice out of range, never dereference nil, write only to the receiver (caller's buffer unmodified) and establish the stated length postconditions; uint32 length arithmetic is modelled with wrap-around.",
         "Partial: only pkg/packet/rtr is under contract so far (MRT/BMP/ZAPI/BFD decoders and every round-trip sentence are not decided). Trusted: go/ssa, the VC generator, the SMT solvers, models of encoding/binary; sequential semantics.",
         "deductive verification: WP over go/ssa + SMT (z3/cvc5)", "DESIGN.md 4 C19"),
}
_pending = "not decided yet by the contract engine in this revision (claimed in DESIGN.md, contracts not written yet)"
NA = {
 "C01": "quiescence over histories x schedules; no per-call contract expresses it (DESIGN.md 4 C01)",
 "C13": "oracle is Go regexp semantics over arbitrary pattern text (DESIGN.md 4 C13)",
 "C15": "metamorphic relation over histories with concurrent changes (DESIGN.md 4 C15)",
 "C18": "text/protobuf round trips; nothing beyond assumed axioms would be proved (DESIGN.md 4 C18)",
 "C20": "races, deadlocks, leaks are schedule properties; sequential WP cannot see them (DESIGN.md 4 C20)",
}
for p in ["C02","C03","C04","C05","C06","C07","C08","C09","C10","C11","C12","C14","C16","C17"]:
    NA[p] = _pending
