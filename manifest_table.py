CLAIMED = {
 "C19": ("Proof, for all byte strings and with no bound on length, that the RPKI-RTR PDU decoders (ParseRTR and the five DecodeFromBytes bodies) never index or slice out of range, never dereference nil, write only to the receiver (caller's buffer unmodified) and establish the stated length postconditions; uint32 length arithmetic is modelled with wrap-around.",
         "Partial: only pkg/packet/rtr is under contract so far (MRT/BMP/ZAPI/BFD decoders and every round-trip sentence are not decided). Trusted: go/ssa, the VC generator, the SMT solvers, models of encoding/binary; sequential semantics.",
         "deductive verification: WP over go/ssa + SMT (z3/cvc5)", "DESIGN.md 4 C19"),

 "C05": ("Proof, for every byte string (message body up to 65535 octets) and every option set, that the BGP decoders under contract never index/slice out of range, never dereference nil, never fail a type assertion, terminate (a decreases clause on every loop), write only to the receiver / fresh memory (caller's buffer unmodified), and return only *MessageError errors (the UPDATE decoder asserts that type unchecked): header, OPEN with all capability types, UPDATE with the core path attributes, AS_PATH/AS4_PATH segments, MP_REACH/MP_UNREACH, extended communities, IPv4/IPv6/labeled/VPN NLRI, NOTIFICATION, ROUTE-REFRESH, ParseBGPMessage/parseBody.",
         "Partial: non-core families and attributes (EVPN, FlowSpec, BGP-LS, MUP, SR-policy, VPLS, tunnel-encap, prefix-SID, PMSI, AIGP, IP6 ext-communities) are havoc callees / assumed refinements (listed in the evidence); String/JSON rendering and re-serialisation of decoded values not decided; recvMessageWithError not under contract. Trusted: go/ssa, VC generator, solvers, models of encoding/binary, netip (pure), fmt/errors constructors.",
         "deductive verification: WP over go/ssa + SMT (z3/cvc5), Houdini-inferred loop invariants", "DESIGN.md 4 C05"),
 "C03": ("Proof that each step of the real comparator chain equals the corresponding key of the documented decision process for all routes and all three selection options (LLGR-stale, reachable next hop, LOCAL_PREF, local origin, AS_PATH length, ORIGIN, MED when comparable, eBGP over iBGP, age/router-id, neighbour address), that the closure insertSort hands to sort.Search equals the lexicographic order specPref built from those keys, and (lemmas, proved by the solver over uninterpreted route features) that specPref is total and - when MED is comparable - transitive, i.e. a total preorder, which is what makes binary insertion independent of arrival order up to full ties.",
         "Known findings D3 (confederation-member paths: age/router-id steps inconsistent with the eBGP-over-iBGP step). Not yet under contract: insertSort's use of sort.Search/slices.Insert (sortedness is argued from the lemmas, not machine-checked), getMultiBestPath (D4), Path.Compare. Route features (GetLocalPref, GetAsPathLen, IsLLGRStale, getPathAttr, GetSource, GetTimestamp, firstAS closure) are specification vocabulary: uninterpreted, their bodies are not verified. Trusted axioms: netip.Addr.Compare is a total order.",
         "deductive verification: WP over go/ssa + SMT lemmas over uninterpreted features", "DESIGN.md 4 C03"),
}
_pending = "not decided yet by the contract engine in this revision (claimed in DESIGN.md, contracts not written yet)"
NA = {
 "C01": "quiescence over histories x schedules; no per-call contract expresses it (DESIGN.md 4 C01)",
 "C13": "oracle is Go regexp semantics over arbitrary pattern text (DESIGN.md 4 C13)",
 "C15": "metamorphic relation over histories with concurrent changes (DESIGN.md 4 C15)",
 "C18": "text/protobuf round trips; nothing beyond assumed axioms would be proved (DESIGN.md 4 C18)",
 "C20": "races, deadlocks, leaks are schedule properties; sequential WP cannot see them (DESIGN.md 4 C20)",
}
for p in ["C02","C04","C06","C07","C08","C09","C10","C11","C12","C14","C16","C17"]:
    NA[p] = _pending
