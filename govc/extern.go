package main

// Trusted models of external (stdlib / third-party) functions. Every use is recorded in the evidence.

import (
	"fmt"
	"go/constant"
	"go/token"
	"go/types"
	"math/big"
	"strings"

	"golang.org/x/tools/go/ssa"
)

type externModel func(f *Frame, instr ssa.Instruction, st *State, args []Val, pos token.Pos) []Val

var externModels = map[string]externModel{}
var externEffects = map[string]func(lm *loopMods){}

func init() {
	for _, order := range []string{"bigEndian", "littleEndian"} {
		big := order == "bigEndian"
		for _, n := range []int{2, 4, 8} {
			n := n
			name := fmt.Sprintf("Uint%d", n*8)
			externModels["encoding/binary.("+order+")."+name] = func(f *Frame, instr ssa.Instruction, st *State, args []Val, pos token.Pos) []Val {
				return f.beGet(st, args[1], n, big, pos)
			}
			pname := fmt.Sprintf("PutUint%d", n*8)
			key := "encoding/binary.(" + order + ")." + pname
			externModels[key] = func(f *Frame, instr ssa.Instruction, st *State, args []Val, pos token.Pos) []Val {
				f.bePut(st, args[1], args[2], n, big, pos)
				return nil
			}
			externEffects[key] = func(lm *loopMods) {
				lm.tok = true
				lm.nonFresh = true
				lm.curDirty = true
				lm.addType(types.Typ[types.Uint8], false)
				lm.curDirty = false
			}
			aname := fmt.Sprintf("AppendUint%d", n*8)
			_ = aname
		}
	}
	nonNilErr := func(f *Frame, instr ssa.Instruction, st *State, args []Val, pos token.Pos) []Val {
		g := f.g
		v := g.freshVal("err", errorType())
		g.assume(boolLit(true), tEq(v.Comps[0], intLit(tagOf(errorStringType()))))
		g.assume(boolLit(true), tCmp(">=", v.Comps[1], intLit(1)))
		return []Val{v}
	}
	externModels["errors.New"] = nonNilErr
	externModels["fmt.Errorf"] = nonNilErr
	str := func(f *Frame, instr ssa.Instruction, st *State, args []Val, pos token.Pos) []Val {
		g := f.g
		v := g.freshVal("str", types.Typ[types.String])
		return []Val{v}
	}
	externModels["fmt.Sprintf"] = func(f *Frame, instr ssa.Instruction, st *State, args []Val, pos token.Pos) []Val {
		g := f.g
		v := g.freshVal("str", types.Typ[types.String])
		// a constant format that starts with a literal character yields a non-empty string
		if ci, ok := instr.(ssa.CallInstruction); ok && len(ci.Common().Args) > 0 {
			if c, ok := ci.Common().Args[0].(*ssa.Const); ok && c.Value != nil && c.Value.Kind() == constant.String {
				if fs := constant.StringVal(c.Value); len(fs) > 0 && fs[0] != '%' {
					g.assume(boolLit(true), tCmp(">=", app("strlen", SInt, v.Comps[0]), intLit(1)))
					g.assume(boolLit(true), tNot(tEq(v.Comps[0], g.strLit(""))))
				}
			}
		}
		return []Val{v}
	}
	externModels["fmt.Sprint"] = str
	externModels["fmt.Sprintln"] = str
	externModels["bytes.Equal"] = func(f *Frame, instr ssa.Instruction, st *State, args []Val, pos token.Pos) []Val {
		g := f.g
		v := g.freshVal("beq", tBool)
		a, b := args[0], args[1]
		// equal contents imply equal length; identical slices are equal
		g.assume(st.cond, tImp(v.Comps[0], tEq(a.Comps[1], b.Comps[1])))
		g.assume(st.cond, tImp(tAnd(tEq(a.Comps[0], b.Comps[0]), tEq(a.Comps[1], b.Comps[1])), v.Comps[0]))
		return []Val{v}
	}
	// netip.Addr.AsSlice: a fresh slice whose length and bytes are functions of the address value
	externModels["net/netip.(Addr).AsSlice"] = func(f *Frame, instr ssa.Instruction, st *State, args []Val, pos token.Pos) []Val {
		g := f.g
		a := args[0]
		ln := g.addrFacts(a, st)
		v := Val{Comps: []Term{g.alloc(st, intLit(16)), ln, ln}}
		k := compKey(elemKey(types.Typ[types.Uint8]), 0)
		arr := g.heapGet(st, k, arrSort(SInt))
		for i := 0; i < 16; i++ {
			arr = tStore(arr, tAdd(v.Comps[0], intLit(int64(i))), g.addrByte(a, i))
		}
		g.heapSet(st, k, arr)
		// nil for the zero Addr
		ptr := g.name("asl", tIte(tEq(ln, intLit(0)), intLit(0), v.Comps[0]))
		return []Val{{Typ: instrType(instr), Comps: []Term{ptr, ln, ln}}}
	}
	// netip.AddrFromSlice: the address whose canonical bytes are the slice (4 or 16 octets), else the zero Addr
	externModels["net/netip.AddrFromSlice"] = func(f *Frame, instr ssa.Instruction, st *State, args []Val, pos token.Pos) []Val {
		g := f.g
		s := args[0]
		addrT := instr.(ssa.Value).Type().(*types.Tuple).At(0).Type()
		r := g.freshVal("addr", addrT)
		ok := g.name("afs_ok", tOr(tEq(s.Comps[1], intLit(4)), tEq(s.Comps[1], intLit(16))))
		ln := g.addrFacts(r, st)
		g.assume(st.cond, tImp(ok, tEq(ln, s.Comps[1])))
		var zero []Term
		for _, c := range r.Comps {
			zero = append(zero, tEq(c, intLit(0)))
		}
		g.assume(st.cond, tImp(tNot(ok), tAnd(zero...)))
		arr := g.heapGet(st, compKey(elemKey(types.Typ[types.Uint8]), 0), arrSort(SInt))
		for i := 0; i < 16; i++ {
			g.assume(st.cond, tImp(tAnd(ok, tCmp("<", intLit(int64(i)), s.Comps[1])), tEq(g.addrByte(r, i), tSelect(arr, tAdd(s.Comps[0], intLit(int64(i))), SInt))))
		}
		return []Val{r, {Typ: tBool, Comps: []Term{ok}}}
	}
	// logging: the logger is assumed effect-free on program state (arguments are still evaluated by the caller)
	for _, m := range []string{"Debug", "Info", "Warn", "Error", "Log", "DebugContext", "InfoContext", "WarnContext", "ErrorContext"} {
		externModels["log/slog.(*Logger)."+m] = func(f *Frame, instr ssa.Instruction, st *State, args []Val, pos token.Pos) []Val { return nil }
	}
	for _, m := range []string{"String", "Int", "Int64", "Uint64", "Any", "Bool", "Duration", "Time", "Float64", "Group"} {
		externModels["log/slog."+m] = func(f *Frame, instr ssa.Instruction, st *State, args []Val, pos token.Pos) []Val {
			return []Val{f.g.freshVal("attr", instr.(ssa.Value).Type())}
		}
	}
	// sync primitives: sequential semantics (assumption A5)
	for _, k := range []string{
		"(*sync.Mutex).Lock", "(*sync.Mutex).Unlock", "(*sync.RWMutex).Lock", "(*sync.RWMutex).Unlock",
		"(*sync.RWMutex).RLock", "(*sync.RWMutex).RUnlock", "(*sync.WaitGroup).Add", "(*sync.WaitGroup).Done",
	} {
		externModels["sync."+k[strings.Index(k, "sync.")+5:]] = func(f *Frame, instr ssa.Instruction, st *State, args []Val, pos token.Pos) []Val { return nil }
	}
	for _, k := range []string{"(*Mutex).Lock", "(*Mutex).Unlock", "(*RWMutex).Lock", "(*RWMutex).Unlock", "(*RWMutex).RLock", "(*RWMutex).RUnlock", "(*WaitGroup).Add", "(*WaitGroup).Done"} {
		externModels["sync."+k] = func(f *Frame, instr ssa.Instruction, st *State, args []Val, pos token.Pos) []Val { return nil }
	}
}

var errT, errStrT types.Type

func errorType() types.Type {
	if errT == nil {
		errT = types.Universe.Lookup("error").Type()
	}
	return errT
}

func errorStringType() types.Type {
	if errStrT == nil {
		tn := types.NewTypeName(token.NoPos, nil, "errors.errorString", nil)
		errStrT = types.NewPointer(types.NewNamed(tn, types.NewStruct(nil, nil), nil))
	}
	return errStrT
}

func (f *Frame) beGet(st *State, b Val, n int, bigEnd bool, pos token.Pos) []Val {
	g := f.g
	src := f.text(pos)
	g.oblige(st, "bounds", pos, src+" :: needs "+fmt.Sprint(n)+" bytes", tCmp(">=", b.Comps[1], intLit(int64(n))))
	arr := g.heapGet(st, compKey(elemKey(types.Typ[types.Uint8]), 0), arrSort(SInt))
	byteC := Comp{Sort: SInt, Kind: KInt, Typ: types.Typ[types.Uint8]}
	r := intLit(0)
	for i := 0; i < n; i++ {
		bt := g.typedLoad(tSelect(arr, tAdd(b.Comps[0], intLit(int64(i))), SInt), byteC)
		var sh uint
		if bigEnd {
			sh = uint(8 * (n - 1 - i))
		} else {
			sh = uint(8 * i)
		}
		r = tAdd(r, tMul(bt, bigLit(pow2(sh))))
	}
	r.Lo = big.NewInt(0)
	r.Hi = new(big.Int).Sub(pow2(uint(8*n)), bigOne)
	var t types.Type
	switch n {
	case 2:
		t = types.Typ[types.Uint16]
	case 4:
		t = types.Typ[types.Uint32]
	default:
		t = types.Typ[types.Uint64]
	}
	return []Val{{Typ: t, Comps: []Term{g.name("be", r)}}}
}

func (f *Frame) bePut(st *State, b Val, v Val, n int, bigEnd bool, pos token.Pos) {
	g := f.g
	src := f.text(pos)
	g.oblige(st, "bounds", pos, src+" :: needs "+fmt.Sprint(n)+" bytes", tCmp(">=", b.Comps[1], intLit(int64(n))))
	g.frameStore(st, elemKey(types.Typ[types.Uint8]), b.Comps[0], intLit(int64(n)), pos, src)
	k := compKey(elemKey(types.Typ[types.Uint8]), 0)
	arr := g.heapGet(st, k, arrSort(SInt))
	sum := intLit(0)
	for i := 0; i < n; i++ {
		var sh uint
		if bigEnd {
			sh = uint(8 * (n - 1 - i))
		} else {
			sh = uint(8 * i)
		}
		bt := g.name("byte", tModE(tDivE(v.Comps[0], bigLit(pow2(sh))), intLit(256)))
		sum = tAdd(sum, tMul(bt, bigLit(pow2(sh))))
		arr = tStore(arr, tAdd(b.Comps[0], intLit(int64(i))), bt)
	}
	// arithmetic fact (a theorem for 0 <= v < 2^(8n)): the bytes recompose to the value
	if g.noName == 0 && n > 2 {
		g.assume(boolLit(true), tEq(v.Comps[0], sum))
	}
	g.heapSet(st, k, arr)
	g.bumpTokAt(st, &b.Comps[0], false)
}

// pureExternal: external functions known to have no effect on caller-visible memory; their results are
// deterministic functions of their arguments (and the heap token).
func pureExternal(key string) bool {
	for _, p := range []string{
		"net/netip.", "strings.", "strconv.", "math/bits.", "math.", "unicode.", "unicode/utf8.",
		"slices.Contains", "slices.Index", "slices.Equal", "bytes.Compare", "bytes.HasPrefix", "bytes.Contains", "bytes.Index",
		"net.IP.", "net.(IP).", "net.(IPMask).", "net.CIDRMask", "net.ParseIP", "net.IPv4",
		"time.Now", "time.(Time).", "time.(Duration).", "time.Unix", "time.Since",
		"github.com/dgryski/go-farm.",
	} {
		if strings.HasPrefix(key, p) {
			return true
		}
	}
	return false
}

func instrType(instr ssa.Instruction) types.Type {
	if v, ok := instr.(ssa.Value); ok {
		return v.Type()
	}
	return types.NewSlice(types.Typ[types.Uint8])
}

func addrSorts(a Val) []string {
	var s []string
	for _, c := range a.Comps {
		s = append(s, c.Sort)
	}
	return s
}

// addrByte: the i-th byte of the canonical (AsSlice) form of an address, an uninterpreted function of its value.
func (g *Gen) addrByte(a Val, i int) Term {
	g.declareFun("addr_byte", append(addrSorts(a), SInt), SInt)
	t := app("addr_byte", SInt, append(append([]Term{}, a.Comps...), intLit(int64(i)))...)
	if g.noName == 0 {
		t = g.name("ab", t)
		g.emit("(assert (and (<= 0 " + t.S + ") (<= " + t.S + " 255)))")
		t.Lo, t.Hi = big.NewInt(0), big.NewInt(255)
	}
	return t
}

// addrBE32: big-endian value of the first four AsSlice bytes (the BGP identifier as an integer).
func (g *Gen) addrBE32(a Val) Term {
	r := intLit(0)
	for i := 0; i < 4; i++ {
		r = tAdd(r, tMul(g.addrByte(a, i), bigLit(pow2(uint(8*(3-i))))))
	}
	return r
}

// addrFacts: length of the canonical form and its relation to Is4/Is6/IsValid; the zero Addr has length 0;
// IPv4 addresses are determined by their four bytes (trusted facts about net/netip).
func (g *Gen) addrFacts(a Val, st *State) Term {
	g.declareFun("addr_len", addrSorts(a), SInt)
	ln := g.name("alen", app("addr_len", SInt, a.Comps...))
	g.assume(boolLit(true), tOr(tEq(ln, intLit(0)), tEq(ln, intLit(4)), tEq(ln, intLit(16))))
	ln.Lo, ln.Hi = big.NewInt(0), big.NewInt(16)
	is4 := g.pureApp("(net/netip.Addr).Is4", []Val{a}, tBool, st)
	is6 := g.pureApp("(net/netip.Addr).Is6", []Val{a}, tBool, st)
	valid := g.pureApp("(net/netip.Addr).IsValid", []Val{a}, tBool, st)
	g.assume(boolLit(true), tAnd(tEq(is4.Comps[0], tEq(ln, intLit(4))), tEq(is6.Comps[0], tEq(ln, intLit(16))), tEq(valid.Comps[0], tNot(tEq(ln, intLit(0))))))
	if !g.declared["addr_axioms"] {
		g.declared["addr_axioms"] = true
		g.declareFun("addr_byte", append(addrSorts(a), SInt), SInt)
		g.emit("(assert (= (addr_len 0 0 0) 0))")
		g.emit("(assert (forall ((h1 Int) (l1 Int) (z1 Int)) (! (=> (= (addr_len h1 l1 z1) 0) (and (= h1 0) (= l1 0) (= z1 0))) :pattern ((addr_len h1 l1 z1)))))")
		g.emit("(assert (forall ((h1 Int) (l1 Int) (z1 Int) (h2 Int) (l2 Int) (z2 Int)) (! (=> (and (= (addr_len h1 l1 z1) 4) (= (addr_len h2 l2 z2) 4) (= (addr_byte h1 l1 z1 0) (addr_byte h2 l2 z2 0)) (= (addr_byte h1 l1 z1 1) (addr_byte h2 l2 z2 1)) (= (addr_byte h1 l1 z1 2) (addr_byte h2 l2 z2 2)) (= (addr_byte h1 l1 z1 3) (addr_byte h2 l2 z2 3))) (and (= h1 h2) (= l1 l2) (= z1 z2))) :pattern ((addr_len h1 l1 z1) (addr_len h2 l2 z2)))))")
		g.usedTrusted["net/netip: an IPv4 Addr is determined by its 4 bytes; the zero Addr is invalid"] = true
	}
	return ln
}

func init() {
	// sort.Search(n, f): least index in [0,n] at which the (monotone) predicate f becomes true.
	// The closure must be under a contract `ensures result == X(i)`; the model demands monotonicity of X on
	// [0,n) as an obligation (sort.Search's documented precondition) and returns the boundary.
	externModels["sort.Search"] = func(f *Frame, instr ssa.Instruction, st *State, args []Val, pos token.Pos) []Val {
		g := f.g
		src := f.text(pos)
		n := args[0].Comps[0]
		var ci *closureInfo
		if len(f.curCallArgs) == 2 {
			ci = f.closures[f.curCallArgs[1]]
			if ci == nil {
				if fn, ok := f.curCallArgs[1].(*ssa.Function); ok {
					ci = &closureInfo{fn: fn}
				}
			}
		}
		r := g.freshVal("search", tInt)
		g.assume(st.cond, tAnd(tCmp("<=", intLit(0), r.Comps[0]), tCmp("<=", r.Comps[0], n)))
		if ci == nil {
			g.havocCallees["sort.Search with an unresolved predicate in "+shortKey(g.ctx.funcKey(f.fn))] = true
			return []Val{r}
		}
		ct := g.ctx.contracts[g.ctx.funcKey(ci.fn)]
		var X SExpr
		if ct != nil {
			for _, e := range ct.Ensures {
				if b, ok := e.Expr.(*SBinary); ok && b.Op == "==" {
					if id, ok := b.X.(*SIdent); ok && id.Name == "result" {
						X = b.Y
					}
				}
			}
		}
		if X == nil {
			g.havocCallees["sort.Search predicate without `ensures result == ...` contract: "+shortKey(g.ctx.funcKey(ci.fn))] = true
			return []Val{r}
		}
		g.usedContracts[g.ctx.funcKey(ci.fn)] = true
		evalAt := func(name string) (Term, Term, []string, error) {
			bn := fmt.Sprintf("q_%s_%d", name, g.nsym)
			g.nsym++
			iv := Val{Typ: tInt, Comps: []Term{{S: bn, Sort: SInt}}}
			f.curBindings = ci.bindings
			ev := f.calleeEval(ci.fn, st, nil, []Val{iv}, nil)
			f.curBindings = nil
			g.noName++
			t, err := ev.evalBool(X)
			var reqs []Term
			for _, rq := range ct.Requires {
				rt, e2 := ev.evalBool(rq.Expr)
				if e2 != nil && err == nil {
					err = e2
				}
				reqs = append(reqs, rt)
			}
			g.noName--
			return t, tAnd(reqs...), []string{bn}, err
		}
		xi, reqi, bi, err := evalAt("i")
		xj, _, bj, err2 := evalAt("j")
		if err != nil || err2 != nil {
			if err == nil {
				err = err2
			}
			g.specErrs = append(g.specErrs, fmt.Sprintf("sort.Search predicate contract of %s: %v", shortKey(g.ctx.funcKey(ci.fn)), err))
			return []Val{r}
		}
		i, j := Term{S: bi[0], Sort: SInt}, Term{S: bj[0], Sort: SInt}
		inRange := func(x Term) Term { return tAnd(tCmp("<=", intLit(0), x), tCmp("<", x, n)) }
		// obligations
		g.oblige(st, "pre", pos, src+" :: predicate precondition on [0,n)", raw(fmt.Sprintf("(forall ((%s Int)) %s)", i.S, tImp(inRange(i), reqi).S), SBool))
		g.oblige(st, "pre", pos, src+" :: predicate monotone on [0,n)", raw(fmt.Sprintf("(forall ((%s Int) (%s Int)) %s)", i.S, j.S,
			tImp(tAnd(inRange(i), inRange(j), tCmp("<", i, j), xi), xj).S), SBool))
		// ground instances of the boundary facts (seeds for E-matching): at 0, r-1 and r
		evalGround := func(at Term) (Term, bool) {
			f.curBindings = ci.bindings
			ev := f.calleeEval(ci.fn, st, nil, []Val{{Typ: tInt, Comps: []Term{at}}}, nil)
			f.curBindings = nil
			g.noName++
			t, err := ev.evalBool(X)
			g.noName--
			return t, err == nil
		}
		rr := r.Comps[0]
		if x0, ok := evalGround(intLit(0)); ok {
			g.assume(st.cond, tImp(tCmp(">", n, intLit(0)), tEq(x0, tCmp("<=", rr, intLit(0)))))
		}
		if xp, ok := evalGround(tSub(rr, intLit(1))); ok {
			g.assume(st.cond, tImp(tCmp(">", rr, intLit(0)), tNot(xp)))
		}
		if xr, ok := evalGround(rr); ok {
			g.assume(st.cond, tImp(tCmp("<", rr, n), xr))
		}
		// result
		g.emit("(assert " + tImp(st.cond, raw(fmt.Sprintf("(forall ((%s Int)) %s)", i.S,
			tAnd(tImp(tAnd(tCmp("<=", intLit(0), i), tCmp("<", i, r.Comps[0])), tNot(xi)), tImp(tAnd(tCmp("<=", r.Comps[0], i), tCmp("<", i, n)), xi)).S), SBool)).S + ")")
		return []Val{r}
	}
}

func init() {
	// slices.Insert(s, i, v...): the elements of s with v inserted at index i; may reuse s's backing array.
	externModels["slices.Insert[]"] = func(f *Frame, instr ssa.Instruction, st *State, args []Val, pos token.Pos) []Val {
		g := f.g
		src := f.text(pos)
		s, idx, v := args[0], args[1].Comps[0], args[2]
		sl := under(instr.(ssa.Value).Type()).(*types.Slice)
		elem := sl.Elem()
		cs := cellSize(elem)
		g.oblige(st, "bounds", pos, src+" :: 0 <= i <= len(s)", tAnd(tCmp("<=", intLit(0), idx), tCmp("<=", idx, s.Comps[1])))
		n := v.Comps[1]
		newLen := g.name("ilen", tAdd(s.Comps[1], n))
		inPlace := g.name("inplace", tCmp("<=", newLen, s.Comps[2]))
		ncap := g.freshComp("ncap", Comp{Sort: SInt, Kind: KSliceCap})
		g.assume(boolLit(true), tCmp(">=", ncap, newLen))
		nptr := g.alloc(st, tMul(ncap, intLit(cs)))
		rptr := g.name("iptr", tIte(inPlace, s.Comps[0], nptr))
		rcap := g.name("icap", tIte(inPlace, s.Comps[2], ncap))
		g.frameStore(st, "", rptr, tMul(newLen, intLit(cs)), pos, src)
		if cs != 1 {
			g.unsupp("slices.Insert on aggregate elements")
		}
		var ls []leafRef
		leaves(elem, 0, &ls)
		for _, l := range ls {
			for ci, c := range l.Comp {
				k := compKey(l.Key, ci)
				old := g.heapGet(st, k, arrSort(c.Sort))
				nn := g.sym("Hi_" + k)
				g.declare(nn, arrSort(c.Sort))
				// cell a of the result: index j = a - rptr
				g.emit(fmt.Sprintf("(assert (forall ((a Int)) (! (= (select %s a) (ite (and (<= %s a) (< a (+ %s %s))) (ite (< (- a %s) %s) (select %s (+ %s (- a %s))) (ite (< (- a %s) (+ %s %s)) (select %s (+ %s (- (- a %s) %s))) (select %s (+ %s (- (- a %s) %s))))) (select %s a))) :pattern ((select %s a)))))",
					nn, rptr.S, rptr.S, newLen.S,
					rptr.S, idx.S, old.S, s.Comps[0].S, rptr.S,
					rptr.S, idx.S, n.S, old.S, v.Comps[0].S, rptr.S, idx.S,
					old.S, s.Comps[0].S, rptr.S, n.S,
					old.S, nn))
				st.heap[k] = Term{S: nn, Sort: arrSort(c.Sort)}
				if g.topC == nil || !g.topC.IndexFn {
					continue
				}
				// the same facts index-wise (for E-matching on shifted indices)
				ix := func(p, i Term) string { return g.idxTerm(p, i, cs).S }
				kk := Term{S: "k", Sort: SInt}
				g.emit(fmt.Sprintf("(assert (forall ((k Int)) (! (=> (and (<= 0 k) (< k %s)) (= (select %s %s) (ite (< k %s) (select %s %s) (ite (< k (+ %s %s)) (select %s %s) (select %s %s))))) :pattern ((select %s %s)))))",
					newLen.S, nn, ix(rptr, kk),
					idx.S, old.S, ix(s.Comps[0], kk),
					idx.S, n.S, old.S, ix(v.Comps[0], tSub(kk, idx)),
					old.S, ix(s.Comps[0], tSub(kk, n)),
					nn, ix(rptr, kk)))
				// and backwards: every old element is found in the result
				g.emit(fmt.Sprintf("(assert (forall ((k Int)) (! (=> (and (<= 0 k) (< k %s)) (= (select %s %s) (select %s (ite (< k %s) %s %s)))) :pattern ((select %s %s)))))",
					s.Comps[1].S, old.S, ix(s.Comps[0], kk), nn, idx.S, ix(rptr, kk), ix(rptr, tAdd(kk, n)), old.S, ix(s.Comps[0], kk)))
			}
		}
		g.bumpTokAt(st, &rptr, hasPtrComps(elem))
		return []Val{{Typ: instr.(ssa.Value).Type(), Comps: []Term{rptr, newLen, rcap}}}
	}
}

func init() {
	// sync/atomic typed values: sequential semantics (assumption A5): Load/Store of the value field
	for _, tn := range []string{"Uint64", "Uint32", "Int64", "Int32", "Bool", "Value"} {
		tn := tn
		field := func(f *Frame, instr ssa.Instruction) (types.Type, int, types.Type, bool) {
			call, ok := instr.(ssa.CallInstruction)
			if !ok || call.Common().StaticCallee() == nil {
				return nil, 0, nil, false
			}
			recv := call.Common().StaticCallee().Signature.Recv()
			if recv == nil {
				return nil, 0, nil, false
			}
			pt, ok := under(recv.Type()).(*types.Pointer)
			if !ok {
				return nil, 0, nil, false
			}
			st, ok := under(pt.Elem()).(*types.Struct)
			if !ok {
				return nil, 0, nil, false
			}
			for i := 0; i < st.NumFields(); i++ {
				if st.Field(i).Name() == "v" {
					return pt.Elem(), i, st.Field(i).Type(), true
				}
			}
			return nil, 0, nil, false
		}
		externModels["sync/atomic.(*"+tn+").Store"] = func(f *Frame, instr ssa.Instruction, st *State, args []Val, pos token.Pos) []Val {
			g := f.g
			T, i, ft, ok := field(f, instr)
			if !ok {
				g.havocAll(st)
				return nil
			}
			g.frameStore(st, fieldKey(T, i), args[0].Comps[0], intLit(1), pos, f.text(pos))
			sv := args[1].Comps
			if len(sv) == 1 && sv[0].Sort == SBool {
				// atomic.Bool keeps its value in a uint32
				sv = []Term{tIte(sv[0], intLit(1), intLit(0))}
			}
			g.storeLeaf(st, fieldKey(T, i), args[0].Comps[0], Val{Typ: ft, Comps: sv})
			g.bumpTokAt(st, &args[0].Comps[0], false)
			return nil
		}
		externEffects["sync/atomic.(*"+tn+").Store"] = func(lm *loopMods) { lm.all = true }
		externModels["sync/atomic.(*"+tn+").Load"] = func(f *Frame, instr ssa.Instruction, st *State, args []Val, pos token.Pos) []Val {
			g := f.g
			T, i, ft, ok := field(f, instr)
			if !ok {
				return []Val{g.freshVal("atomic", instr.(ssa.Value).Type())}
			}
			lv := g.loadLeaf(st, fieldKey(T, i), args[0].Comps[0], ft)
			if rt := instr.(ssa.Value).Type(); len(lv.Comps) == 1 && lv.Comps[0].Sort == SInt {
				if b, ok := under(rt).(*types.Basic); ok && b.Kind() == types.Bool {
					lv = Val{Typ: rt, Comps: []Term{tNot(tEq(lv.Comps[0], intLit(0)))}}
				}
			}
			return []Val{lv}
		}
	}
	// slices.Concat(ss...): a freshly allocated slice (never aliases its arguments)
	externModels["slices.Concat[]"] = func(f *Frame, instr ssa.Instruction, st *State, args []Val, pos token.Pos) []Val {
		g := f.g
		sl := under(instr.(ssa.Value).Type()).(*types.Slice)
		n := g.freshComp("clen", Comp{Sort: SInt, Kind: KSliceLen})
		v := g.makeSlice(st, sl.Elem(), n, n)
		g.havocRange(st, sl.Elem(), v.Comps[0], n)
		v.Typ = instr.(ssa.Value).Type()
		return []Val{v}
	}
}
