package main

// Which symbols of the entry state are asked from the solver on "sat" (counterexample extraction).

import (
	"fmt"
	"go/types"
	"strings"
)

const modelBytes = 64

func (vc *FuncVC) initHeapSym(key string, o *Obligation) (string, bool) {
	n := "H1_" + sanitize(key)
	// the symbol must be declared inside the obligation's prelude
	decl := "(declare-const " + n + " "
	for _, l := range vc.Lines[:o.PreludeLen] {
		if strings.HasPrefix(l, decl) {
			return n, true
		}
	}
	return n, false
}

func (vc *FuncVC) modelQueries(o *Obligation) []modelQuery {
	var qs []modelQuery
	fn := vc.Fn
	if fn == nil {
		for i, pi := range vc.ParamInfo {
			t := vc.lemmaTypes[i]
			ly := layout(t)
			for j, c := range pi.Comps {
				qs = append(qs, modelQuery{Desc: pi.Name + "." + ly[j].Name, Expr: c})
			}
		}
		return qs
	}
	params := fn.Params
	k := 0
	for _, pi := range vc.ParamInfo {
		var t types.Type
		if k < len(params) {
			t = params[k].Type()
		} else if k-len(params) < len(fn.FreeVars) {
			t = fn.FreeVars[k-len(params)].Type()
		}
		k++
		ly := layout(t)
		for i, c := range pi.Comps {
			qs = append(qs, modelQuery{Desc: pi.Name + "." + ly[i].Name, Expr: c})
		}
		vc.deepQueries(o, pi.Name, t, pi.Comps, 0, &qs)
	}
	return qs
}

// deepQueries adds queries for memory reachable from a value (bounded depth).
func (vc *FuncVC) deepQueries(o *Obligation, name string, t types.Type, comps []string, depth int, qs *[]modelQuery) {
	if depth > 2 || len(*qs) > 600 {
		return
	}
	switch u := under(t).(type) {
	case *types.Slice:
		if b, ok := under(u.Elem()).(*types.Basic); ok && b.Info()&types.IsInteger != 0 {
			if h, ok := vc.initHeapSym(compKey(elemKey(u.Elem()), 0), o); ok {
				for j := 0; j < modelBytes; j++ {
					*qs = append(*qs, modelQuery{Desc: fmt.Sprintf("%s[%d]", name, j), Expr: fmt.Sprintf("(select %s (+ %s %d))", h, comps[0], j)})
				}
			}
		}
	case *types.Pointer:
		st, ok := under(u.Elem()).(*types.Struct)
		if !ok {
			return
		}
		vc.structQueries(o, name, u.Elem(), st, comps[0], depth, qs)
	case *types.Struct:
		k := 0
		for i := 0; i < u.NumFields(); i++ {
			n := ncomps(u.Field(i).Type())
			vc.deepQueries(o, name+"."+u.Field(i).Name(), u.Field(i).Type(), comps[k:k+n], depth+1, qs)
			k += n
		}
	}
}

func (vc *FuncVC) structQueries(o *Obligation, name string, T types.Type, st *types.Struct, addr string, depth int, qs *[]modelQuery) {
	for i := 0; i < st.NumFields(); i++ {
		ft := st.Field(i).Type()
		fname := name + "." + st.Field(i).Name()
		if isAggregate(ft) {
			if ist, ok := under(ft).(*types.Struct); ok && depth < 2 {
				vc.structQueries(o, fname, ft, ist, fmt.Sprintf("(+ %s %d)", addr, fieldOffset(st, i)), depth+1, qs)
			}
			continue
		}
		var cs []string
		okAll := true
		for ci, c := range layout(ft) {
			h, ok := vc.initHeapSym(compKey(fieldKey(T, i), ci), o)
			if !ok {
				okAll = false
				break
			}
			e := fmt.Sprintf("(select %s %s)", h, addr)
			cs = append(cs, e)
			*qs = append(*qs, modelQuery{Desc: fname + "." + c.Name, Expr: e})
		}
		if okAll {
			vc.deepQueries(o, fname, ft, cs, depth+1, qs)
		}
	}
}
