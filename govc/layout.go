package main

// Mapping of Go types to flattened SMT components, struct cell sizes/offsets, heap keys.

import (
	"fmt"
	"sync"
	"go/types"
	"math/big"
	"regexp"
	"strings"
)

type CompKind int

const (
	KInt CompKind = iota
	KBool
	KReal
	KStr
	KPtr
	KSlicePtr
	KSliceLen
	KSliceCap
	KIfaceTag
	KIfacePay
	KOpaque // map, chan, func ids
	KArray  // whole-array value component
)

type Comp struct {
	Name string
	Sort string
	Kind CompKind
	Typ  types.Type // for KInt: the basic type; KPtr: pointee; KSlice*: elem; KArray: elem
	N    int64      // KArray length
}

type Val struct {
	Typ   types.Type
	Comps []Term
	Loc   *Loc // pointer to a scalar struct field (generator-level)
}

// Loc: address of a scalar-like struct field: heap arrays "F|T|i|c" indexed by Addr.
type Loc struct {
	Key  string // "F|<T>|<i>"
	Addr Term
	Typ  types.Type // field type
}

var layoutCache = map[types.Type][]Comp{}

func under(t types.Type) types.Type {
	for {
		u := t.Underlying()
		if a, ok := t.(*types.Alias); ok {
			t = types.Unalias(a)
			continue
		}
		if tp, ok := u.(*types.TypeParam); ok {
			_ = tp
			return u
		}
		return u
	}
}

func intRange(b *types.Basic) (lo, hi *big.Int, ok bool) {
	switch b.Kind() {
	case types.Int8:
		return big.NewInt(-128), big.NewInt(127), true
	case types.Int16:
		return big.NewInt(-32768), big.NewInt(32767), true
	case types.Int32, types.UntypedRune:
		return big.NewInt(-1 << 31), big.NewInt(1<<31 - 1), true
	case types.Int, types.Int64, types.UntypedInt:
		return new(big.Int).Neg(pow2(63)), new(big.Int).Sub(pow2(63), bigOne), true
	case types.Uint8:
		return big.NewInt(0), big.NewInt(255), true
	case types.Uint16:
		return big.NewInt(0), big.NewInt(65535), true
	case types.Uint32:
		return big.NewInt(0), big.NewInt(1<<32 - 1), true
	case types.Uint, types.Uint64, types.Uintptr:
		return big.NewInt(0), new(big.Int).Sub(pow2(64), bigOne), true
	}
	return nil, nil, false
}

func intBits(b *types.Basic) (bits uint, signed bool) {
	switch b.Kind() {
	case types.Int8:
		return 8, true
	case types.Int16:
		return 16, true
	case types.Int32, types.UntypedRune:
		return 32, true
	case types.Int, types.Int64, types.UntypedInt:
		return 64, true
	case types.Uint8:
		return 8, false
	case types.Uint16:
		return 16, false
	case types.Uint32:
		return 32, false
	case types.Uint, types.Uint64, types.Uintptr:
		return 64, false
	}
	return 0, false
}

func isIntType(t types.Type) (*types.Basic, bool) {
	b, ok := under(t).(*types.Basic)
	if !ok {
		return nil, false
	}
	if b.Info()&types.IsInteger != 0 {
		return b, true
	}
	return nil, false
}

var layoutMu sync.Mutex

func layout(t types.Type) []Comp {
	layoutMu.Lock()
	c, ok := layoutCache[t]
	layoutMu.Unlock()
	if ok {
		return c
	}
	c = layout1(t)
	layoutMu.Lock()
	layoutCache[t] = c
	layoutMu.Unlock()
	return c
}

func layout1(t types.Type) []Comp {
	switch u := under(t).(type) {
	case *types.Basic:
		switch {
		case u.Info()&types.IsInteger != 0:
			return []Comp{{Name: "i", Sort: SInt, Kind: KInt, Typ: u}}
		case u.Info()&types.IsBoolean != 0:
			return []Comp{{Name: "b", Sort: SBool, Kind: KBool}}
		case u.Info()&types.IsFloat != 0:
			return []Comp{{Name: "r", Sort: SReal, Kind: KReal}}
		case u.Info()&types.IsString != 0:
			return []Comp{{Name: "s", Sort: SInt, Kind: KStr}}
		case u.Kind() == types.UnsafePointer:
			return []Comp{{Name: "p", Sort: SInt, Kind: KOpaque}}
		case u.Kind() == types.UntypedNil:
			return []Comp{{Name: "nil", Sort: SInt, Kind: KOpaque}}
		case u.Info()&types.IsComplex != 0:
			return []Comp{{Name: "c", Sort: SInt, Kind: KOpaque}}
		default:
			return []Comp{{Name: "x", Sort: SInt, Kind: KOpaque}}
		}
	case *types.Pointer:
		return []Comp{{Name: "p", Sort: SInt, Kind: KPtr, Typ: u.Elem()}}
	case *types.Slice:
		return []Comp{
			{Name: "ptr", Sort: SInt, Kind: KSlicePtr, Typ: u.Elem()},
			{Name: "len", Sort: SInt, Kind: KSliceLen, Typ: u.Elem()},
			{Name: "cap", Sort: SInt, Kind: KSliceCap, Typ: u.Elem()},
		}
	case *types.Interface:
		return []Comp{{Name: "tag", Sort: SInt, Kind: KIfaceTag}, {Name: "pay", Sort: SInt, Kind: KIfacePay}}
	case *types.Map:
		return []Comp{{Name: "id", Sort: SInt, Kind: KOpaque, Typ: u}}
	case *types.Chan, *types.Signature:
		return []Comp{{Name: "id", Sort: SInt, Kind: KOpaque}}
	case *types.Struct:
		var cs []Comp
		for i := 0; i < u.NumFields(); i++ {
			for _, c := range layout(u.Field(i).Type()) {
				c.Name = u.Field(i).Name() + "." + c.Name
				cs = append(cs, c)
			}
		}
		return cs
	case *types.Tuple:
		var cs []Comp
		for i := 0; i < u.Len(); i++ {
			for _, c := range layout(u.At(i).Type()) {
				c.Name = fmt.Sprintf("%d.%s", i, c.Name)
				cs = append(cs, c)
			}
		}
		return cs
	case *types.Array:
		var cs []Comp
		for _, c := range layout(u.Elem()) {
			cs = append(cs, Comp{Name: "arr." + c.Name, Sort: arrSort(c.Sort), Kind: KArray, Typ: u.Elem(), N: u.Len()})
		}
		return cs
	case *types.TypeParam:
		return []Comp{{Name: "tp", Sort: SInt, Kind: KOpaque}}
	}
	panic(fmt.Sprintf("layout: unsupported type %v (%T)", t, under(t)))
}

func ncomps(t types.Type) int { return len(layout(t)) }

// cellSize: number of address cells a value of type t occupies in the flat address space.
func cellSize(t types.Type) int64 {
	switch u := under(t).(type) {
	case *types.Struct:
		n := int64(1)
		for i := 0; i < u.NumFields(); i++ {
			n += fieldCells(u.Field(i).Type())
		}
		return n
	case *types.Array:
		return u.Len() * cellSize(u.Elem())
	}
	return 1
}

// fieldCells: extra cells a field contributes to its enclosing struct (only inline
// aggregates — nested structs and arrays — have addresses of their own).
func fieldCells(ft types.Type) int64 {
	switch under(ft).(type) {
	case *types.Struct, *types.Array:
		return cellSize(ft)
	}
	return 0
}

func fieldOffset(st *types.Struct, i int) int64 {
	off := int64(1)
	for j := 0; j < i; j++ {
		off += fieldCells(st.Field(j).Type())
	}
	return off
}

func isAggregate(t types.Type) bool {
	switch under(t).(type) {
	case *types.Struct, *types.Array:
		return true
	}
	return false
}

var byteRe = regexp.MustCompile(`\bbyte\b`)
var runeRe = regexp.MustCompile(`\brune\b`)

func typeKey(t types.Type) string {
	s := types.TypeString(types.Unalias(t), nil)
	if strings.Contains(s, "byte") {
		s = byteRe.ReplaceAllString(s, "uint8")
	}
	if strings.Contains(s, "rune") {
		s = runeRe.ReplaceAllString(s, "int32")
	}
	return s
}

func fieldKey(structT types.Type, i int) string {
	return fmt.Sprintf("F|%s|%d", typeKey(structT), i)
}

func elemKey(t types.Type) string { return "E|" + typeKey(t) }

// type tags for interface values
var (
	tagTable = map[string]int64{}
	tagTypes = map[int64]types.Type{}
)

func tagOf(t types.Type) int64 {
	k := typeKey(t)
	if n, ok := tagTable[k]; ok {
		return n
	}
	n := int64(len(tagTable) + 1)
	tagTable[k] = n
	tagTypes[n] = t
	return n
}

// payloadIsDirect: pointer-like and scalar dynamic types are stored directly in the payload.
func payloadIsDirect(t types.Type) bool {
	switch u := under(t).(type) {
	case *types.Pointer, *types.Map, *types.Chan, *types.Signature:
		return true
	case *types.Basic:
		return u.Info()&(types.IsInteger|types.IsBoolean|types.IsString) != 0
	}
	return false
}
