package main

// Refinement obligations: each implementation of an interface method under an interface-level contract
// must satisfy that contract ("self" names the receiver).

import (
	"go/types"
	"os"
	"path/filepath"
	"strings"
)

func (c *Ctx) genRefinements(ct *Contract) ([]*FuncVC, []string) {
	// key: <pkgpath>.<Iface>.<Method>
	i := strings.LastIndex(ct.Key, ".")
	j := strings.LastIndex(ct.Key[:i], ".")
	pkgPath, ifaceName, method := ct.Key[:j], ct.Key[j+1:i], ct.Key[i+1:]
	p := c.typPkgs[pkgPath]
	if p == nil {
		return nil, []string{shortKey(ct.Key) + ": package not loaded"}
	}
	tn, ok := p.Types.Scope().Lookup(ifaceName).(*types.TypeName)
	if !ok {
		return nil, []string{shortKey(ct.Key) + ": interface not found"}
	}
	iface, ok := under(tn.Type()).(*types.Interface)
	if !ok {
		return nil, []string{shortKey(ct.Key) + ": not an interface"}
	}
	var m *types.Func
	for k := 0; k < iface.NumMethods(); k++ {
		if iface.Method(k).Name() == method {
			m = iface.Method(k)
		}
	}
	if m == nil {
		return nil, []string{shortKey(ct.Key) + ": method not found"}
	}
	var out []*FuncVC
	seen := map[string]bool{}
	for _, cd := range c.implementers(tn.Type(), m, p.Types) {
		if len(cd.fn.Blocks) == 0 {
			continue
		}
		skip := false
		for _, u := range ct.Unverified {
			tn := typeKey(cd.typ)
			if strings.HasSuffix(tn, "."+u) || strings.HasSuffix(tn, "."+strings.TrimPrefix(u, "*")) {
				skip = true
			}
		}
		if skip {
			continue
		}
		fk := c.funcKey(cd.fn)
		if seen[fk] {
			continue
		}
		seen[fk] = true
		rc := *ct
		rc.Key = fk
		rc.IsIface = false
		if cc := c.contracts[fk]; cc != nil {
			// loop annotations come from the implementation's own contract
			rc.LoopInv, rc.LoopDec, rc.LoopStep = cc.LoopInv, cc.LoopDec, cc.LoopStep
		}
		vc := c.genFunc(cd.fn, &rc, c.houdini(cd.fn, &rc, c.workDir()))
		vc.Key = fk + "~refines~" + ifaceName + "." + method
		for _, o := range vc.Obls {
			o.Name = strings.Replace(o.Name, "#", "#refine:", 1)
		}
		out = append(out, vc)
	}
	return out, nil
}

func (c *Ctx) workDir() string {
	d := filepath.Join(verifDir, ".work", "refine")
	os.MkdirAll(d, 0o755)
	return d
}
