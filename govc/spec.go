package main

// Contract files: "//@"-comment syntax, expression parser.

import (
	"fmt"
	"math/big"
	"os"
	"strconv"
	"strings"
)

// ---- expression AST

type SExpr interface{}

type (
	SIdent    struct{ Name string }
	SLit      struct{ Val *big.Int }
	SFloatLit struct{ Val float64 }
	SStrLit   struct{ Val string }
	SSel      struct {
		X   SExpr
		Sel string
	}
	SCall struct {
		Fun  SExpr
		Args []SExpr
	}
	SIndex struct{ X, I SExpr }
	SSlice struct{ X, Lo, Hi SExpr }
	SUnary struct {
		Op string
		X  SExpr
	}
	SBinary struct {
		Op   string
		X, Y SExpr
	}
	SCond  struct{ C, A, B SExpr }
	SQuant struct {
		Forall bool
		Vars   []SVar
		Body   SExpr
	}
	SVar struct{ Name, Type string }
	// STypeExpr: a parenthesised type used as conversion target or in typeOf comparisons, e.g. (*MessageError)
	STypeExpr struct{ Type string }
)

type Clause struct {
	Text string
	Expr SExpr
	Line int
	Note string
}

type Contract struct {
	Key                string // full key: <pkgpath>.<FuncRel>
	File               string
	Line               int
	Requires           []*Clause
	Ensures            []*Clause
	Modifies           []string
	HasModifies        bool
	LoopInv            map[int][]*Clause
	LoopDec            map[int]*Clause
	LoopStep           map[int][]*Clause // per-iteration assertions checked at every back edge; header(x) = value at loop head
	Pure               bool
	Inline             bool
	Trusted            bool
	StrictLen          bool
	AssumeChecks       bool // after a run-time check of a Go statement (bounds, nil, ...) the rest of the path holds the checked condition
	AddressQuant       bool // restate single-variable slice quantifiers over element addresses (see addressQuant)
	ThreadLocal        bool
	NoPanicOnly        bool
	Props              []string
	Houdini            bool
	Replay             string
	AllocBound         *Clause
	NilRecvOK          bool
	SpecOnly           bool
	Unverified         []string        // interface contract: implementing types whose refinement is assumed, not proved
	AtCall             []*AtCall       // assertions that must hold immediately before matching call sites
	AtReturn           []*Clause       // assertions at every return over the locals in scope; ret0.. = returned values
	IndexFn            bool            // spec-level slice indexing through an uninterpreted index function (E-matching aid)
	Hide               map[string]bool // spec functions kept opaque (uninterpreted) in this function's VC
	Using              []string        // axioms / proved lemmas assumed in this function's VC
	Claims             map[string]bool // if set: only these obligation kinds are generated (the others are listed as not claimed)
	AssumeCalleeFrames bool            // havoc callees are assumed not to write caller-visible memory (listed in the evidence)
	MathInt            bool            // + and - on values of type int are not wrapped at 64 bits (assumption listed in the evidence)
	Modular            bool            // used by contract even from harnesses that inline their callees
	CheckAlias         bool            // emit alias obligations on append into non-fresh spare capacity (C09/C10)
	IsIface            bool            // interface-level contract: <Iface>.<Method>
	InlineAll          bool            // harness: same-package callees are inlined instead of used by contract
}

// AtCall: `at-call <text> requires <expr>`: at every call whose source text contains <text>.
type AtCall struct {
	Match  string
	Clause *Clause
	Reach  bool // `at-call <text> reachable <expr>`: some execution reaches the call with <expr> true (must be SAT)
}

type SpecFn struct {
	Name   string
	Params []SVar
	Result string
	Body   SExpr
	Text   string
	Pkg    string
}

type Lemma struct {
	Name  string
	Expr  SExpr
	Text  string
	Props []string
	Pkg   string
	Line  int
	Func  string // function whose scope/pkg is used for name resolution
	Known string
}

type SpecSet struct {
	Contracts map[string]*Contract
	Fns       map[string]*SpecFn
	Lemmas    []*Lemma
	Axioms    []*Lemma
	Ghosts    map[string]*SpecFn // uninterpreted specification functions (defined by axioms)
	Aliases   map[string]string  // spec name -> function key (pure closures referred to by name)
	Invs      []*Lemma           // package-level invariants over globals (established by init, never written elsewhere)
	Order     []string
}

func newSpecSet() *SpecSet {
	return &SpecSet{Contracts: map[string]*Contract{}, Fns: map[string]*SpecFn{}, Aliases: map[string]string{}, Ghosts: map[string]*SpecFn{}}
}

// parseSpecFile parses one contract file belonging to package pkgPath.
func (ss *SpecSet) parseSpecFile(path, pkgPath string) error {
	b, err := os.ReadFile(path)
	if err != nil {
		return err
	}
	return ss.parseSpec(string(b), path, pkgPath)
}

func (ss *SpecSet) parseSpec(text, path, pkgPath string) error {
	var cur *Contract
	var defaultProps []string
	lines := strings.Split(text, "\n")
	for ln := 0; ln < len(lines); ln++ {
		raw := strings.TrimSpace(lines[ln])
		if !strings.HasPrefix(raw, "//@") {
			continue
		}
		s := strings.TrimSpace(raw[3:])
		for strings.HasSuffix(s, "\\") && ln+1 < len(lines) {
			ln++
			nx := strings.TrimSpace(lines[ln])
			nx = strings.TrimSpace(strings.TrimPrefix(nx, "//@"))
			s = strings.TrimSuffix(s, "\\") + " " + nx
		}
		if s == "" {
			continue
		}
		note := ""
		if i := strings.Index(s, " // "); i >= 0 {
			note = strings.TrimSpace(s[i+4:])
			s = strings.TrimSpace(s[:i])
		}
		kw, rest := splitKw(s)
		fail := func(e error) error { return fmt.Errorf("%s:%d: %v", path, ln+1, e) }
		if cur != nil && !cur.Trusted && !cur.IsIface {
			switch kw {
			case "requires", "ensures", "modifies", "loop", "at-return", "at-call", "allocbound":
				// locals renamed since the committed version (and nothing else changed in shape): read the clause
				// with the new names (rebind.go)
				rest = renameIdents(rest, theRebinder.renaming(path, cur.Key))
			}
		}
		switch kw {
		case "props":
			defaultProps = strings.Fields(rest)
		case "func", "trusted", "interface":
			name := rest
			trusted := kw == "trusted"
			if trusted {
				name = strings.TrimSpace(strings.TrimPrefix(rest, "func"))
			}
			key := name
			if pkgPath != "" && (!strings.Contains(name, "/") || strings.HasPrefix(name, "(")) {
				key = pkgPath + "." + name
			}
			if trusted && strings.Contains(name, "/") {
				key = name
			}
			cur = &Contract{Key: key, File: path, Line: ln + 1, LoopInv: map[int][]*Clause{}, LoopDec: map[int]*Clause{}, LoopStep: map[int][]*Clause{}, Trusted: trusted,
				Props: append([]string(nil), defaultProps...), IsIface: kw == "interface"}
			if _, dup := ss.Contracts[key]; dup {
				return fail(fmt.Errorf("duplicate contract for %s", key))
			}
			ss.Contracts[key] = cur
			ss.Order = append(ss.Order, key)
		case "requires", "ensures", "allocbound":
			if cur == nil {
				return fail(fmt.Errorf("clause outside func"))
			}
			e, err := parseExpr(rest)
			if err != nil {
				return fail(err)
			}
			c := &Clause{Text: rest, Expr: e, Line: ln + 1, Note: note}
			switch kw {
			case "requires":
				cur.Requires = append(cur.Requires, c)
			case "ensures":
				cur.Ensures = append(cur.Ensures, c)
			case "allocbound":
				cur.AllocBound = c
			}
		case "modifies":
			if cur == nil {
				return fail(fmt.Errorf("clause outside func"))
			}
			cur.HasModifies = true
			for _, m := range strings.Split(rest, ",") {
				m = strings.TrimSpace(m)
				if m != "" && m != "nothing" {
					cur.Modifies = append(cur.Modifies, m)
				}
			}
		case "loop":
			if cur == nil {
				return fail(fmt.Errorf("clause outside func"))
			}
			f := strings.Fields(rest)
			if len(f) < 3 {
				return fail(fmt.Errorf("bad loop clause"))
			}
			n, err := strconv.Atoi(f[0])
			if err != nil {
				return fail(err)
			}
			body := strings.TrimSpace(strings.TrimPrefix(strings.TrimSpace(strings.TrimPrefix(rest, f[0])), f[1]))
			e, err := parseExpr(body)
			if err != nil {
				return fail(err)
			}
			c := &Clause{Text: body, Expr: e, Line: ln + 1, Note: note}
			switch f[1] {
			case "invariant":
				cur.LoopInv[n] = append(cur.LoopInv[n], c)
			case "decreases":
				cur.LoopDec[n] = c
			case "step":
				cur.LoopStep[n] = append(cur.LoopStep[n], c)
			default:
				return fail(fmt.Errorf("bad loop clause kind %s", f[1]))
			}
		case "pure":
			cur.Pure = true
		case "inline":
			cur.Inline = true
		case "inline-calls":
			cur.InlineAll = true
		case "unverified":
			cur.Unverified = append(cur.Unverified, strings.Fields(rest)...)
		case "claims":
			cur.Claims = map[string]bool{}
			for _, k := range strings.Fields(rest) {
				cur.Claims[k] = true
			}
		case "assume-callee-frames":
			cur.AssumeCalleeFrames = true
		case "math-int":
			cur.MathInt = true
		case "modular":
			cur.Modular = true
		case "no-alias-writes":
			cur.CheckAlias = true
		case "spec-only":
			cur.SpecOnly = true
		case "nil-receiver-ok":
			cur.NilRecvOK = true
		case "strict-len":
			cur.StrictLen = true
		case "assume-checks":
			cur.AssumeChecks = true
		case "address-quant":
			cur.AddressQuant = true
		case "thread-local":
			cur.ThreadLocal = true
		case "houdini":
			cur.Houdini = true
		case "replay":
			cur.Replay = rest
		case "tag":
			cur.Props = strings.Fields(rest)
		case "spec":
			// spec name(a T, b U) R = expr
			fn, err := parseSpecFn(rest)
			if err != nil {
				return fail(err)
			}
			fn.Pkg = pkgPath
			ss.Fns[fn.Name] = fn
			cur = nil
		case "ghost":
			// ghost name(a T, b U) R   -- uninterpreted; its meaning is given by axioms
			fn, err := parseSpecFn(rest + " = 0")
			if err != nil {
				return fail(err)
			}
			fn.Pkg = pkgPath
			ss.Ghosts[fn.Name] = fn
			cur = nil
		case "at-return":
			if cur == nil || !strings.HasPrefix(rest, "requires ") {
				return fail(fmt.Errorf("at-return requires <expr>"))
			}
			body := strings.TrimSpace(strings.TrimPrefix(rest, "requires "))
			e, err := parseExpr(body)
			if err != nil {
				return fail(err)
			}
			cur.AtReturn = append(cur.AtReturn, &Clause{Text: body, Expr: e, Line: ln + 1, Note: note})
		case "at-call":
			if j := strings.Index(rest, " reachable "); cur != nil && j >= 0 && !strings.Contains(rest, " requires ") {
				e, err := parseExpr(strings.TrimSpace(rest[j+11:]))
				if err != nil {
					return fail(err)
				}
				cur.AtCall = append(cur.AtCall, &AtCall{Match: strings.TrimSpace(rest[:j]), Reach: true, Clause: &Clause{Text: strings.TrimSpace(rest[j+11:]), Expr: e, Line: ln + 1, Note: note}})
				break
			}
			i := strings.Index(rest, " requires ")
			if cur == nil || i < 0 {
				return fail(fmt.Errorf("at-call <text> requires <expr>"))
			}
			e, err := parseExpr(strings.TrimSpace(rest[i+10:]))
			if err != nil {
				return fail(err)
			}
			cur.AtCall = append(cur.AtCall, &AtCall{Match: strings.TrimSpace(rest[:i]), Clause: &Clause{Text: strings.TrimSpace(rest[i+10:]), Expr: e, Line: ln + 1, Note: note}})
		case "index-function":
			cur.IndexFn = true
		case "hide":
			if cur == nil {
				return fail(fmt.Errorf("hide outside func"))
			}
			if cur.Hide == nil {
				cur.Hide = map[string]bool{}
			}
			for _, h := range strings.Fields(rest) {
				cur.Hide[h] = true
			}
		case "using":
			if cur == nil {
				return fail(fmt.Errorf("using outside func"))
			}
			cur.Using = append(cur.Using, strings.Fields(rest)...)
		case "alias":
			// alias name = FuncKey
			f := strings.SplitN(rest, "=", 2)
			if len(f) != 2 {
				return fail(fmt.Errorf("alias needs name = function"))
			}
			ss.Aliases[strings.TrimSpace(f[0])] = pkgPath + "." + strings.TrimSpace(f[1])
			cur = nil
		case "invariant":
			e, err := parseExpr(rest)
			if err != nil {
				return fail(err)
			}
			ss.Invs = append(ss.Invs, &Lemma{Name: fmt.Sprintf("inv@%d", ln+1), Expr: e, Text: rest, Pkg: pkgPath, Line: ln + 1, Props: append([]string(nil), defaultProps...)})
			cur = nil
		case "lemma", "axiom":
			i := strings.Index(rest, ":")
			if i < 0 {
				return fail(fmt.Errorf("lemma needs name:"))
			}
			hdr := strings.Fields(rest[:i])
			e, err := parseExpr(strings.TrimSpace(rest[i+1:]))
			if err != nil {
				return fail(err)
			}
			l := &Lemma{Name: hdr[0], Expr: e, Text: strings.TrimSpace(rest[i+1:]), Pkg: pkgPath, Line: ln + 1, Props: append([]string(nil), defaultProps...)}
			for _, h := range hdr[1:] {
				if strings.HasPrefix(h, "in=") {
					l.Func = strings.TrimPrefix(h, "in=")
				}
				if strings.HasPrefix(h, "props=") {
					l.Props = strings.Split(strings.TrimPrefix(h, "props="), ",")
				}
			}
			if kw == "lemma" {
				ss.Lemmas = append(ss.Lemmas, l)
			} else {
				ss.Axioms = append(ss.Axioms, l)
			}
			cur = nil
		default:
			return fail(fmt.Errorf("unknown keyword %q", kw))
		}
	}
	return nil
}

func splitKw(s string) (string, string) {
	i := strings.IndexAny(s, " \t")
	if i < 0 {
		return s, ""
	}
	return s[:i], strings.TrimSpace(s[i+1:])
}

func parseSpecFn(s string) (*SpecFn, error) {
	eq := strings.Index(s, " = ")
	if eq < 0 {
		return nil, fmt.Errorf("spec fn needs ' = '")
	}
	head, body := strings.TrimSpace(s[:eq]), strings.TrimSpace(s[eq+3:])
	lp := strings.Index(head, "(")
	rp := strings.LastIndex(head, ")")
	if lp < 0 || rp < lp {
		return nil, fmt.Errorf("bad spec fn head")
	}
	fn := &SpecFn{Name: strings.TrimSpace(head[:lp]), Result: strings.TrimSpace(head[rp+1:]), Text: s}
	ps := strings.TrimSpace(head[lp+1 : rp])
	if ps != "" {
		for _, p := range strings.Split(ps, ",") {
			f := strings.Fields(strings.TrimSpace(p))
			if len(f) != 2 {
				return nil, fmt.Errorf("bad spec fn param %q", p)
			}
			fn.Params = append(fn.Params, SVar{Name: f[0], Type: f[1]})
		}
	}
	e, err := parseExpr(body)
	if err != nil {
		return nil, err
	}
	fn.Body = e
	return fn, nil
}

// ---- tokenizer

type tok struct {
	k string // "id", "num", "str", "op", "eof"
	s string
}

func lex(s string) ([]tok, error) {
	var ts []tok
	i := 0
	ops := []string{"<==>", "==>", "===", "!==", "&&", "||", "==", "!=", "<=", ">=", "<<", ">>", "&^", "::",
		"+", "-", "*", "/", "%", "&", "|", "^", "<", ">", "!", "(", ")", "[", "]", ",", ".", "?", ":", "{", "}"}
	for i < len(s) {
		c := s[i]
		switch {
		case c == ' ' || c == '\t':
			i++
		case c == '_' || c >= 'a' && c <= 'z' || c >= 'A' && c <= 'Z':
			j := i
			for j < len(s) && (s[j] == '_' || s[j] == '$' || s[j] >= 'a' && s[j] <= 'z' || s[j] >= 'A' && s[j] <= 'Z' || s[j] >= '0' && s[j] <= '9') {
				j++
			}
			ts = append(ts, tok{"id", s[i:j]})
			i = j
		case c >= '0' && c <= '9':
			j := i
			for j < len(s) && (s[j] >= '0' && s[j] <= '9' || s[j] >= 'a' && s[j] <= 'f' || s[j] >= 'A' && s[j] <= 'F' || s[j] == 'x' || s[j] == 'X' || s[j] == '_') {
				j++
			}
			if j+1 < len(s) && s[j] == '.' && s[j+1] >= '0' && s[j+1] <= '9' {
				// decimal floating-point literal (8.2)
				j++
				for j < len(s) && s[j] >= '0' && s[j] <= '9' {
					j++
				}
				ts = append(ts, tok{"fnum", s[i:j]})
				i = j
				break
			}
			ts = append(ts, tok{"num", s[i:j]})
			i = j
		case c == '"':
			j := i + 1
			for j < len(s) && s[j] != '"' {
				j++
			}
			if j >= len(s) {
				return nil, fmt.Errorf("unterminated string")
			}
			ts = append(ts, tok{"str", s[i+1 : j]})
			i = j + 1
		default:
			matched := false
			for _, op := range ops {
				if strings.HasPrefix(s[i:], op) {
					ts = append(ts, tok{"op", op})
					i += len(op)
					matched = true
					break
				}
			}
			if !matched {
				return nil, fmt.Errorf("unexpected character %q in %q", c, s)
			}
		}
	}
	ts = append(ts, tok{"eof", ""})
	return ts, nil
}

type parser struct {
	ts  []tok
	p   int
	src string
}

func parseExpr(s string) (SExpr, error) {
	ts, err := lex(s)
	if err != nil {
		return nil, err
	}
	p := &parser{ts: ts, src: s}
	e, err := p.expr(0)
	if err != nil {
		return nil, fmt.Errorf("%v in %q", err, s)
	}
	if p.peek().k != "eof" {
		return nil, fmt.Errorf("trailing tokens at %q in %q", p.peek().s, s)
	}
	return e, nil
}

func (p *parser) peek() tok { return p.ts[p.p] }
func (p *parser) next() tok { t := p.ts[p.p]; p.p++; return t }
func (p *parser) isOp(s string) bool {
	t := p.peek()
	return t.k == "op" && t.s == s
}
func (p *parser) expect(s string) error {
	if !p.isOp(s) {
		return fmt.Errorf("expected %q, got %q", s, p.peek().s)
	}
	p.p++
	return nil
}

var binPrec = map[string]int{
	"<==>": 1, "==>": 2,
	"||": 4, "&&": 5,
	"==": 6, "!=": 6, "<": 6, "<=": 6, ">": 6, ">=": 6, "===": 6, "!==": 6,
	"+": 7, "-": 7, "|": 7, "^": 7,
	"*": 8, "/": 8, "%": 8, "<<": 8, ">>": 8, "&": 8, "&^": 8,
}

func (p *parser) expr(minPrec int) (SExpr, error) {
	// quantifier
	if t := p.peek(); t.k == "id" && (t.s == "forall" || t.s == "exists") {
		p.next()
		q := &SQuant{Forall: t.s == "forall"}
		for {
			n := p.next()
			if n.k != "id" {
				return nil, fmt.Errorf("quantifier variable expected")
			}
			// type: tokens up to , or ::
			var ty strings.Builder
			for !p.isOp(",") && !p.isOp("::") && p.peek().k != "eof" {
				ty.WriteString(p.next().s)
			}
			q.Vars = append(q.Vars, SVar{Name: n.s, Type: ty.String()})
			if p.isOp(",") {
				p.next()
				continue
			}
			break
		}
		if err := p.expect("::"); err != nil {
			return nil, err
		}
		body, err := p.expr(0)
		if err != nil {
			return nil, err
		}
		q.Body = body
		return q, nil
	}
	lhs, err := p.unary()
	if err != nil {
		return nil, err
	}
	for {
		t := p.peek()
		if t.k == "op" && t.s == "?" && minPrec <= 3 {
			p.next()
			a, err := p.expr(0)
			if err != nil {
				return nil, err
			}
			if err := p.expect(":"); err != nil {
				return nil, err
			}
			b, err := p.expr(3)
			if err != nil {
				return nil, err
			}
			lhs = &SCond{lhs, a, b}
			continue
		}
		prec, ok := binPrec[t.s]
		if t.k != "op" || !ok || prec < minPrec {
			return lhs, nil
		}
		p.next()
		var rhs SExpr
		if t.s == "==>" || t.s == "<==>" {
			rhs, err = p.expr(prec) // right assoc
		} else {
			rhs, err = p.expr(prec + 1)
		}
		if err != nil {
			return nil, err
		}
		lhs = &SBinary{t.s, lhs, rhs}
	}
}

func (p *parser) unary() (SExpr, error) {
	t := p.peek()
	if t.k == "op" {
		switch t.s {
		case "!", "-", "*", "^":
			p.next()
			x, err := p.unary()
			if err != nil {
				return nil, err
			}
			return &SUnary{t.s, x}, nil
		}
	}
	return p.postfix()
}

func (p *parser) postfix() (SExpr, error) {
	var x SExpr
	t := p.next()
	switch t.k {
	case "num":
		n := new(big.Int)
		if _, ok := n.SetString(strings.ReplaceAll(t.s, "_", ""), 0); !ok {
			return nil, fmt.Errorf("bad number %q", t.s)
		}
		x = &SLit{n}
	case "fnum":
		f, err := strconv.ParseFloat(t.s, 64)
		if err != nil {
			return nil, fmt.Errorf("bad number %q", t.s)
		}
		x = &SFloatLit{f}
	case "str":
		x = &SStrLit{t.s}
	case "id":
		x = &SIdent{t.s}
	case "op":
		if t.s == "(" {
			// parenthesised type like (*T) ?
			if p.isOp("*") {
				save := p.p
				p.next()
				var ty strings.Builder
				ty.WriteString("*")
				okType := true
				for !p.isOp(")") {
					n := p.next()
					if n.k == "eof" || (n.k == "op" && n.s != "." && n.s != "*" && n.s != "[" && n.s != "]") {
						okType = false
						break
					}
					ty.WriteString(n.s)
				}
				if okType && p.isOp(")") {
					// it is a type expression only if followed by "(" (conversion) or used in typeOf ==; decide: treat as type
					p.next()
					x = &STypeExpr{ty.String()}
					break
				}
				p.p = save
			}
			e, err := p.expr(0)
			if err != nil {
				return nil, err
			}
			if err := p.expect(")"); err != nil {
				return nil, err
			}
			x = e
		} else {
			return nil, fmt.Errorf("unexpected %q", t.s)
		}
	default:
		return nil, fmt.Errorf("unexpected end")
	}
	for {
		switch {
		case p.isOp("."):
			p.next()
			if p.isOp("(") { // type assertion x.(T)
				p.next()
				var ty strings.Builder
				depth := 0
				for !(p.isOp(")") && depth == 0) {
					n := p.next()
					if n.k == "eof" {
						return nil, fmt.Errorf("unterminated type assertion")
					}
					if n.s == "(" {
						depth++
					}
					if n.s == ")" {
						depth--
					}
					ty.WriteString(n.s)
				}
				p.next()
				x = &SCall{Fun: &SIdent{"__assert"}, Args: []SExpr{x, &STypeExpr{ty.String()}}}
				continue
			}
			n := p.next()
			if n.k != "id" {
				return nil, fmt.Errorf("selector expected after '.'")
			}
			x = &SSel{x, n.s}
		case p.isOp("("):
			p.next()
			var args []SExpr
			for !p.isOp(")") {
				a, err := p.expr(0)
				if err != nil {
					return nil, err
				}
				args = append(args, a)
				if p.isOp(",") {
					p.next()
				} else if !p.isOp(")") {
					return nil, fmt.Errorf("expected , or ) in call")
				}
			}
			p.next()
			x = &SCall{x, args}
		case p.isOp("["):
			p.next()
			var lo, hi SExpr
			var err error
			if !p.isOp(":") {
				lo, err = p.expr(0)
				if err != nil {
					return nil, err
				}
			}
			if p.isOp(":") {
				p.next()
				if !p.isOp("]") {
					hi, err = p.expr(0)
					if err != nil {
						return nil, err
					}
				}
				if err := p.expect("]"); err != nil {
					return nil, err
				}
				x = &SSlice{x, lo, hi}
			} else {
				if err := p.expect("]"); err != nil {
					return nil, err
				}
				x = &SIndex{x, lo}
			}
		default:
			return x, nil
		}
	}
}

// allClauseTexts: the source text of every clause of the contract (for listing what a specification refers to).
func (ct *Contract) allClauseTexts() []string {
	var out []string
	add := func(cs []*Clause) {
		for _, c := range cs {
			if c != nil {
				out = append(out, c.Text)
			}
		}
	}
	add(ct.Requires)
	add(ct.Ensures)
	add(ct.AtReturn)
	for _, a := range ct.AtCall {
		if a != nil && a.Clause != nil {
			out = append(out, a.Clause.Text)
		}
	}
	for _, cs := range ct.LoopInv {
		add(cs)
	}
	for _, cs := range ct.LoopStep {
		add(cs)
	}
	return out
}
