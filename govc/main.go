package main

import (
	"flag"
	"fmt"
	"os"
	"path/filepath"
	"sort"
	"strings"
	"time"
)

var (
	repoDir  = "/repo"
	verifDir = "/verif"
)

func main() {
	if len(os.Args) < 2 {
		usage()
	}
	if d := os.Getenv("GOVC_REPO"); d != "" {
		repoDir = d
	}
	if d := os.Getenv("GOVC_VERIF"); d != "" {
		verifDir = d
	}
	switch os.Args[1] {
	case "func":
		cmdFunc(os.Args[2:])
	case "check":
		os.Exit(cmdCheck(os.Args[2:]))
	case "replay":
		os.Exit(cmdReplay(os.Args[2:]))
	case "sync":
		os.Exit(cmdSync(os.Args[2:]))
	case "selftest":
		os.Exit(cmdSelftest(os.Args[2:]))
	default:
		usage()
	}
}

func usage() {
	fmt.Fprintln(os.Stderr, "usage: govc check <Cxx> [--tier quick|thorough] | func <key-substring> | replay <file> | sync | selftest")
	os.Exit(2)
}

// loadContracts reads the contract files (repo copies, falling back to the locked mirror on drift).
func loadContracts() (*SpecSet, []string, error) {
	ss := newSpecSet()
	var drift []string
	lock := filepath.Join(verifDir, "contracts-lock")
	err := filepath.Walk(lock, func(p string, info os.FileInfo, err error) error {
		if err != nil || info.IsDir() || !strings.HasSuffix(p, ".go") {
			return err
		}
		rel, _ := filepath.Rel(lock, p)
		dir := filepath.Dir(rel)
		pkgPath := modPath + "/" + filepath.ToSlash(dir)
		if strings.HasPrefix(dir, "_ext") {
			pkgPath = ""
		}
		lb, _ := os.ReadFile(p)
		rp := filepath.Join(repoDir, rel)
		rb, rerr := os.ReadFile(rp)
		if !strings.HasPrefix(dir, "_ext") && (rerr != nil || string(rb) != string(lb)) {
			drift = append(drift, rel)
		}
		return ss.parseSpec(string(lb), p, pkgPath)
	})
	return ss, drift, err
}

func pkgPatternsFor(ss *SpecSet, keys []string) []string {
	set := map[string]bool{}
	for _, k := range keys {
		c := ss.Contracts[k]
		if c == nil || c.Trusted {
			continue
		}
		set[pkgOfKey(k)] = true
	}
	var out []string
	for p := range set {
		out = append(out, p)
	}
	sort.Strings(out)
	return out
}

func pkgOfKey(k string) string {
	// "<pkgpath>.(*T).M" or "<pkgpath>.F"
	if i := strings.Index(k, ".("); i >= 0 {
		return k[:i]
	}
	i := strings.LastIndex(k, "/")
	j := strings.Index(k[i+1:], ".")
	return k[:i+1+j]
}

func cmdFunc(args []string) {
	fs := flag.NewFlagSet("func", flag.ExitOnError)
	to := fs.Float64("timeout", 10, "per-obligation timeout (s)")
	dump := fs.String("dump", "", "write the SMT prelude to this file")
	verbose := fs.Bool("v", false, "print every obligation")
	fs.Parse(args)
	ss, drift, err := loadContracts()
	if err != nil {
		fmt.Fprintln(os.Stderr, "contracts:", err)
		os.Exit(2)
	}
	for _, d := range drift {
		fmt.Println("CONTRACT-DRIFT", d)
	}
	var keys []string
	for _, k := range ss.Order {
		for _, pat := range fs.Args() {
			if strings.Contains(k, pat) && !ss.Contracts[k].Trusted && !ss.Contracts[k].SpecOnly && !ss.Contracts[k].Inline {
				keys = append(keys, k)
			}
		}
	}
	if len(keys) == 0 {
		fmt.Fprintln(os.Stderr, "no contract matches")
		os.Exit(2)
	}
	t0 := time.Now()
	ctx, err := loadCtx(repoDir, pkgPatternsFor(ss, keys))
	if err != nil {
		fmt.Fprintln(os.Stderr, err)
		os.Exit(2)
	}
	ctx.contracts = ss.Contracts
	ctx.specs = ss
	fmt.Printf("loaded in %.1fs\n", time.Since(t0).Seconds())
	work, _ := os.MkdirTemp(filepath.Join(verifDir, ".work"), "func-")
	var vcs []*FuncVC
	for _, k := range keys {
		if ss.Contracts[k].IsIface {
			rv, und := ctx.genRefinements(ss.Contracts[k])
			for _, u := range und {
				fmt.Println("UNDECIDED:", u)
			}
			vcs = append(vcs, rv...)
			continue
		}
		fn := ctx.lookupFunc(k)
		if fn == nil {
			fmt.Println("UNDECIDED: no such function", k)
			continue
		}
		vc := ctx.genFunc(fn, ss.Contracts[k], ctx.houdini(fn, ss.Contracts[k], work))
		vcs = append(vcs, vc)
		if *dump != "" {
			os.WriteFile(*dump, []byte(strings.Join(vc.Lines, "\n")), 0o644)
		}
	}
	solveAll(vcs, SolveOpts{TimeoutS: *to, WorkDir: work}, true)
	for _, vc := range vcs {
		fmt.Printf("== %s: %d obligations, %d prelude lines\n", shortKey(vc.Key), len(vc.Obls), len(vc.Lines))
		for _, e := range vc.SpecErrs {
			fmt.Println("  SPEC-ERROR", e)
		}
		for _, u := range vc.Unsupported {
			fmt.Println("  UNSUPPORTED", u)
		}
		for _, n := range vc.Notes {
			fmt.Println("  note:", n)
		}
		for _, h := range vc.HavocCallees {
			fmt.Println("  havoc-callee:", h)
		}
		for _, o := range vc.Covers {
			if o.Status != "sat" {
				fmt.Printf("  COVER-FAIL %s: %s\n", o.Name, o.Status)
			}
		}
		for _, o := range vc.Obls {
			if o.Status != "unsat" || *verbose {
				fmt.Printf("  %-7s %s  [%s %.2fs] %s\n", o.Status, shortKey(o.Name), o.Solver, o.TimeS, o.Pos)
				if o.Status == "sat" || o.Candidate {
					var ks []string
					for k := range o.Model {
						ks = append(ks, k)
					}
					sort.Strings(ks)
					n := 0
					for _, k := range ks {
						if n < 30 && !strings.Contains(k, "[") {
							fmt.Printf("      %s = %s\n", k, o.Model[k])
							n++
						}
					}
				}
				if o.Status == "error" {
					fmt.Println("      ", strings.SplitN(o.Output, "\n", 3)[0])
				}
			}
		}
	}
	fmt.Printf("work dir %s, total %.1fs\n", work, time.Since(t0).Seconds())
}
