package main

// Counterexample replay against the real code: the solver's entry-state model is turned into an
// in-package Go test that is injected with `go test -overlay` (nothing is written to /repo).

import (
	"bytes"
	"context"
	"encoding/json"
	"fmt"
	"go/types"
	"os"
	"os/exec"
	"path/filepath"
	"sort"
	"strconv"
	"strings"
	"time"

	"golang.org/x/tools/go/ssa"
)

type ReplayFile struct {
	Property   string            `json:"property"`
	Obligation string            `json:"obligation"`
	Kind       string            `json:"kind"`
	Function   string            `json:"function"`
	Position   string            `json:"position"`
	Status     string            `json:"solver_status"`
	Solver     string            `json:"solver"`
	Output     string            `json:"solver_output"`
	Model      map[string]string `json:"model,omitempty"`
	Test       string            `json:"generated_test,omitempty"`
	Package    string            `json:"package,omitempty"`
	Replay     string            `json:"replay_result"`
	Confirmed  bool              `json:"confirmed"`
	Query      string            `json:"smt_query_file,omitempty"`
}

func replayName(o *Obligation) string {
	var sb strings.Builder
	last := byte('_')
	for _, r := range shortKey(o.Name) {
		c := byte('_')
		if r < 128 && (r >= 'a' && r <= 'z' || r >= 'A' && r <= 'Z' || r >= '0' && r <= '9' || r == '.' || r == '-') {
			c = byte(r)
		}
		if c == '_' && last == '_' {
			continue
		}
		sb.WriteByte(c)
		last = c
	}
	s := strings.Trim(sb.String(), "_")
	if len(s) > 150 {
		s = s[:150]
	}
	return s
}

func writeReplay(ctx *Ctx, vc *FuncVC, o *Obligation, prop string) (string, bool) {
	dir := filepath.Join(verifDir, "replays", prop)
	if os.Getenv("GOVC_NOEVIDENCE") != "" {
		dir = filepath.Join(verifDir, ".work", "selftest-replays", prop)
	}
	os.MkdirAll(dir, 0o755)
	path := filepath.Join(dir, replayName(o)+".json")
	out := o.Output
	if len(out) > 4000 {
		out = out[:4000] + "..."
	}
	rf := &ReplayFile{Property: prop, Obligation: o.Name, Kind: o.Kind, Function: o.Fn, Position: o.Pos, Status: o.Status,
		Solver: o.Solver, Output: out, Model: o.Model}
	if (o.Status == "sat" || o.Candidate) && vc.Fn != nil {
		test, pkgDir, why := genReplayTest(ctx, vc, o)
		if test != "" {
			rf.Test = test
			rf.Package = pkgDir
			kind := o.Kind
			if kind == "post" && o.Src == "result" {
				kind = "post-result-true"
			}
			rf.Kind = kind
			res, confirmed := runReplay(test, pkgDir, kind)
			rf.Replay, rf.Confirmed = res, confirmed
		} else {
			rf.Replay = "no replay template: " + why
		}
	} else if o.Status != "sat" {
		rf.Replay = "solver gave no model (" + o.Status + "): obligation passed on the unchanged tree and is no longer discharged"
	}
	b, _ := json.MarshalIndent(rf, "", " ")
	os.WriteFile(path, b, 0o644)
	if rf.Test != "" {
		fmt.Printf("replay: %s -> %s\n", shortKey(o.Name), firstLine(rf.Replay))
	}
	return path, rf.Confirmed
}

func firstLine(s string) string {
	if i := strings.Index(s, "\n"); i >= 0 {
		return s[:i]
	}
	return s
}

type testGen struct {
	pkg     *types.Package
	imports map[string]string // path -> name
	model   map[string]string
	fail    string
}

func (tg *testGen) qual(p *types.Package) string {
	if p == tg.pkg {
		return ""
	}
	tg.imports[p.Path()] = p.Name()
	return p.Name()
}

func (tg *testGen) typeStr(t types.Type) string { return types.TypeString(t, tg.qual) }

func (tg *testGen) intOf(key string) (int64, bool) {
	s, ok := tg.model[key]
	if !ok {
		return 0, false
	}
	n, err := strconv.ParseInt(s, 10, 64)
	if err != nil {
		return 0, false
	}
	return n, true
}

// value returns Go source constructing the model's value for name of type t.
func (tg *testGen) value(name string, t types.Type, depth int) string {
	switch u := under(t).(type) {
	case *types.Basic:
		switch {
		case u.Info()&types.IsInteger != 0:
			if s, ok := tg.model[name+".i"]; ok {
				return fmt.Sprintf("%s(%s)", tg.typeStr(t), s)
			}
			return fmt.Sprintf("%s(0)", tg.typeStr(t))
		case u.Info()&types.IsBoolean != 0:
			if s, ok := tg.model[name+".b"]; ok {
				return fmt.Sprintf("%s(%s)", tg.typeStr(t), s)
			}
			return "false"
		}
	case *types.Slice:
		if b, ok := under(u.Elem()).(*types.Basic); ok && b.Info()&types.IsInteger != 0 {
			ln, ok1 := tg.intOf(name + ".len")
			cp, ok2 := tg.intOf(name + ".cap")
			ptr, _ := tg.intOf(name + ".ptr")
			if !ok1 || !ok2 {
				return fmt.Sprintf("%s(nil)", tg.typeStr(t))
			}
			if ptr == 0 && cp == 0 {
				return fmt.Sprintf("%s(nil)", tg.typeStr(t))
			}
			if cp > 1<<20 || ln > cp {
				tg.fail = fmt.Sprintf("model needs a %d-element slice for %s", cp, name)
				return "nil"
			}
			var el []string
			for j := int64(0); j < ln; j++ {
				v := "0"
				if s, ok := tg.model[fmt.Sprintf("%s[%d]", name, j)]; ok {
					if n, err := strconv.ParseInt(s, 10, 64); err == nil {
						bits, _ := intBits(b)
						m := int64(1) << bits
						if bits >= 63 {
							m = 0
						}
						if m > 0 {
							n = ((n % m) + m) % m
						}
						v = strconv.FormatInt(n, 10)
					}
				}
				if j < modelBytes {
					el = append(el, v)
				}
			}
			return fmt.Sprintf("func() %s { s := make(%s, %d, %d); copy(s, %s{%s}); return s }()", tg.typeStr(t), tg.typeStr(t), ln, cp, tg.typeStr(t), strings.Join(el, ", "))
		}
	case *types.Pointer:
		if st, ok := under(u.Elem()).(*types.Struct); ok && depth < 3 {
			p, _ := tg.intOf(name + ".p")
			if _, has := tg.model[name+".p"]; has && p == 0 {
				return fmt.Sprintf("(%s)(nil)", tg.typeStr(t))
			}
			var b strings.Builder
			fmt.Fprintf(&b, "func() %s { v := new(%s); ", tg.typeStr(t), tg.typeStr(u.Elem()))
			tg.fields(&b, "v", name, u.Elem(), st, depth)
			b.WriteString("return v }()")
			return b.String()
		}
	}
	return fmt.Sprintf("*new(%s)", tg.typeStr(t))
}

func (tg *testGen) fields(b *strings.Builder, lhs, name string, T types.Type, st *types.Struct, depth int) {
	for i := 0; i < st.NumFields(); i++ {
		f := st.Field(i)
		if !f.Exported() && f.Pkg() != tg.pkg {
			continue
		}
		fn := name + "." + f.Name()
		switch ft := under(f.Type()).(type) {
		case *types.Basic, *types.Slice:
			has := false
			for k := range tg.model {
				if strings.HasPrefix(k, fn+".") {
					has = true
					break
				}
			}
			if has {
				fmt.Fprintf(b, "%s.%s = %s; ", lhs, f.Name(), tg.value(fn, f.Type(), depth+1))
			}
		case *types.Struct:
			if depth < 3 {
				tg.fields(b, lhs+"."+f.Name(), fn, f.Type(), ft, depth+1)
			}
		}
	}
}

func genReplayTest(ctx *Ctx, vc *FuncVC, o *Obligation) (test, pkgDir, why string) {
	fn := vc.Fn
	if fn.Parent() != nil {
		return "", "", "closure"
	}
	if fn.Pkg == nil || fn.Object() == nil {
		return "", "", "synthetic function"
	}
	pkg := fn.Pkg.Pkg
	tg := &testGen{pkg: pkg, imports: map[string]string{}, model: o.Model}
	var argSrc []string
	var decl strings.Builder
	for i, p := range fn.Params {
		v := tg.value(p.Name(), p.Type(), 0)
		fmt.Fprintf(&decl, "\ta%d := %s\n", i, v)
		argSrc = append(argSrc, fmt.Sprintf("a%d", i))
	}
	if tg.fail != "" {
		return "", "", tg.fail
	}
	var call string
	sig := fn.Signature
	if sig.Recv() != nil {
		call = fmt.Sprintf("a0.%s(%s)", fn.Name(), strings.Join(argSrc[1:], ", "))
	} else {
		call = fmt.Sprintf("%s(%s)", fn.Name(), strings.Join(argSrc, ", "))
	}
	if sig.Variadic() {
		call = strings.TrimSuffix(call, ")") + "...)"
	}
	// snapshot []byte params to detect writes into the caller's buffer
	var snap, cmp strings.Builder
	for i, p := range fn.Params {
		if sl, ok := under(p.Type()).(*types.Slice); ok {
			if b, ok := under(sl.Elem()).(*types.Basic); ok && b.Kind() == types.Uint8 {
				fmt.Fprintf(&snap, "\ts%d := append([]byte(nil), a%d[:cap(a%d)]...)\n", i, i, i)
				fmt.Fprintf(&cmp, "\tif !bytes.Equal(s%d, a%d[:cap(a%d)]) { fmt.Println(\"VERIF-REPLAY: buffer-modified param %s\") }\n", i, i, i, p.Name())
				tg.imports["bytes"] = "bytes"
			}
		}
	}
	tg.imports["fmt"] = "fmt"
	tg.imports["testing"] = "testing"
	var imp []string
	for p := range tg.imports {
		imp = append(imp, p)
	}
	sort.Strings(imp)
	var b strings.Builder
	fmt.Fprintf(&b, "package %s\n\nimport (\n", pkg.Name())
	for _, p := range imp {
		fmt.Fprintf(&b, "\t%q\n", p)
	}
	b.WriteString(")\n\n")
	fmt.Fprintf(&b, "// replay of %s\nfunc TestVerifReplay(t *testing.T) {\n", o.Name)
	b.WriteString(decl.String())
	b.WriteString(snap.String())
	b.WriteString("\tfunc() {\n\t\tdefer func() {\n\t\t\tif r := recover(); r != nil {\n\t\t\t\tfmt.Printf(\"VERIF-REPLAY: panic %v\\n\", r)\n\t\t\t}\n\t\t}()\n")
	switch sig.Results().Len() {
	case 0:
		fmt.Fprintf(&b, "\t\t%s\n\t\tfmt.Println(\"VERIF-REPLAY: returned\")\n\t}()\n", call)
	case 1:
		fmt.Fprintf(&b, "\t\tr0 := %s\n\t\tfmt.Printf(\"VERIF-REPLAY: returned %%v\\n\", r0)\n\t}()\n", call)
	case 2:
		fmt.Fprintf(&b, "\t\tr0, r1 := %s\n\t\tfmt.Printf(\"VERIF-REPLAY: returned %%v | %%v\\n\", r0, r1)\n\t}()\n", call)
	default:
		fmt.Fprintf(&b, "\t\t%s\n\t\tfmt.Println(\"VERIF-REPLAY: returned\")\n\t}()\n", call)
	}
	b.WriteString(cmp.String())
	b.WriteString("}\n")
	rel := strings.TrimPrefix(pkg.Path(), modPath+"/")
	return b.String(), rel, ""
}

// runReplay injects the test into the package (overlay) and runs it on /repo's working tree.
func runReplay(test, pkgDir, kind string) (string, bool) {
	tmp, err := os.MkdirTemp(filepath.Join(verifDir, ".work"), "replay-")
	if err != nil {
		return "cannot create work dir: " + err.Error(), false
	}
	defer os.RemoveAll(tmp)
	tf := filepath.Join(tmp, "zz_verif_replay_test.go")
	os.WriteFile(tf, []byte(test), 0o644)
	ov := map[string]map[string]string{"Replace": {filepath.Join(repoDir, pkgDir, "zz_verif_replay_test.go"): tf}}
	ob, _ := json.Marshal(ov)
	ovf := filepath.Join(tmp, "ov.json")
	os.WriteFile(ovf, ob, 0o644)
	c, cancel := context.WithTimeout(context.Background(), 300*time.Second)
	defer cancel()
	cmd := exec.CommandContext(c, "go", "test", "-overlay", ovf, "-tags", "verif", "-vet=off", "-count=1", "-v", "-timeout", "60s", "-run", "^TestVerifReplay$", "./"+pkgDir)
	cmd.Dir = repoDir
	cmd.Env = append(os.Environ(), "GOFLAGS=-mod=mod", "GOPROXY=off")
	var out bytes.Buffer
	cmd.Stdout, cmd.Stderr = &out, &out
	_ = cmd.Run()
	s := out.String()
	var lines []string
	for _, l := range strings.Split(s, "\n") {
		if strings.HasPrefix(l, "VERIF-REPLAY:") {
			lines = append(lines, l)
		}
	}
	if len(lines) == 0 {
		if len(s) > 1500 {
			s = s[:1500]
		}
		return "replay did not run: " + s, false
	}
	res := strings.Join(lines, "\n")
	confirmed := false
	switch kind {
	case "bounds", "nil", "panic", "div0", "make", "assert", "pre":
		confirmed = strings.Contains(res, "VERIF-REPLAY: panic")
	case "frame", "alias":
		confirmed = strings.Contains(res, "buffer-modified")
	case "post-result-true":
		confirmed = strings.Contains(res, "VERIF-REPLAY: returned false")
	}
	if confirmed {
		res = "CONFIRMED on the real code: " + res
	} else {
		res = "not confirmed by the generic template: " + res
	}
	return res, confirmed
}

func cmdReplay(args []string) int {
	if len(args) < 1 {
		fmt.Fprintln(os.Stderr, "usage: govc replay <file.json>")
		return 2
	}
	b, err := os.ReadFile(args[0])
	if err != nil {
		fmt.Fprintln(os.Stderr, err)
		return 2
	}
	var rf ReplayFile
	if err := json.Unmarshal(b, &rf); err != nil {
		fmt.Fprintln(os.Stderr, err)
		return 2
	}
	fmt.Printf("obligation: %s\nsolver: %s (%s)\n", rf.Obligation, rf.Status, rf.Solver)
	if rf.Test == "" {
		fmt.Println("no generated test:", rf.Replay)
		fmt.Println(rf.Output)
		return 1
	}
	res, confirmed := runReplay(rf.Test, rf.Package, rf.Kind)
	fmt.Println(res)
	if confirmed {
		return 1
	}
	return 0
}

var _ = ssa.NaiveForm
