package main

import "golang.org/x/tools/go/ssa"

// houdini: candidate loop invariants from templates, kept only if proved inductive (filled in later).
func (ctx *Ctx) houdini(fn *ssa.Function, ct *Contract, work string) map[int][]*Clause { return nil }
