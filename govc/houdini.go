package main

// Houdini-style inference of simple loop invariants: candidates from fixed templates over the loop's
// header phis are assumed together and repeatedly pruned until every survivor is proved inductive.
// Only proved candidates are used; a loop whose safety does not follow stays unproved.

import (
	"fmt"
	"go/types"
	"math/big"
	"os"
	"path/filepath"
	"strings"

	"golang.org/x/tools/go/ssa"
)

func houdiniCandidates(fn *ssa.Function) map[int][]*Clause {
	out := map[int][]*Clause{}
	loops := findLoops(fn)
	for _, li := range loops {
		var ints, slices []string
		for _, in := range li.Header.Instrs {
			p, ok := in.(*ssa.Phi)
			if !ok {
				break
			}
			_, isInt := isIntType(p.Type())
			_, isSlice := under(p.Type()).(*types.Slice)
			switch {
			case isInt && strings.HasPrefix(p.Comment, "rangeindex"):
				out[li.Ordinal] = append(out[li.Ordinal], &Clause{Text: "__iter >= -1 && __iter <= 1099511627776 (auto)",
					Expr: &SBinary{"&&", &SBinary{">=", &SIdent{"__iter"}, &SUnary{"-", &SLit{big.NewInt(1)}}}, &SBinary{"<=", &SIdent{"__iter"}, &SLit{pow2(40)}}}})
			case isInt && strings.HasPrefix(p.Comment, "rangeint"):
				out[li.Ordinal] = append(out[li.Ordinal], &Clause{Text: "__iter >= 0 (auto)", Expr: &SBinary{">=", &SIdent{"__iter"}, &SLit{big.NewInt(0)}}})
				if rangeIntBound(li) != nil {
					out[li.Ordinal] = append(out[li.Ordinal], &Clause{Text: "__iter < __bound (auto)", Expr: &SBinary{"<", &SIdent{"__iter"}, &SIdent{"__bound"}}})
				}
			case isInt && isIdent(p.Comment):
				ints = append(ints, p.Comment)
				out[li.Ordinal] = append(out[li.Ordinal], &Clause{Text: p.Comment + " >= 0 (auto)", Expr: &SBinary{">=", &SIdent{p.Comment}, &SLit{big.NewInt(0)}}})
			case isSlice && isIdent(p.Comment):
				slices = append(slices, p.Comment)
				// ownership: the slice lives in memory allocated by this call (or is empty)
				fe := &SBinary{"||", &SCall{Fun: &SIdent{"fresh"}, Args: []SExpr{&SIdent{p.Comment}}}, &SBinary{"==", &SCall{Fun: &SIdent{"cap"}, Args: []SExpr{&SIdent{p.Comment}}}, &SLit{big.NewInt(0)}}}
				out[li.Ordinal] = append(out[li.Ordinal], &Clause{Text: fmt.Sprintf("fresh(%s) || cap(%s) == 0 (auto)", p.Comment, p.Comment), Expr: fe})
			}
		}
		// slice-typed parameters are loop-invariant candidates for upper bounds
		var sliceParams []string
		for _, p := range fn.Params {
			if _, ok := under(p.Type()).(*types.Slice); ok && isIdent(p.Name()) {
				sliceParams = append(sliceParams, p.Name())
			}
		}
		for _, x := range ints {
			for _, s := range append(append([]string{}, slices...), sliceParams...) {
				e := &SBinary{"<=", &SCall{Fun: &SIdent{"int"}, Args: []SExpr{&SIdent{x}}}, &SCall{Fun: &SIdent{"len"}, Args: []SExpr{&SIdent{s}}}}
				out[li.Ordinal] = append(out[li.Ordinal], &Clause{Text: fmt.Sprintf("int(%s) <= len(%s) (auto)", x, s), Expr: e})
			}
		}
		for _, s := range slices {
			for _, x := range ints {
				e := &SBinary{">=", &SCall{Fun: &SIdent{"len"}, Args: []SExpr{&SIdent{s}}}, &SCall{Fun: &SIdent{"int"}, Args: []SExpr{&SIdent{x}}}}
				out[li.Ordinal] = append(out[li.Ordinal], &Clause{Text: fmt.Sprintf("len(%s) >= int(%s) (auto)", s, x), Expr: e})
			}
		}
	}
	return out
}

func isIdent(s string) bool {
	if s == "" {
		return false
	}
	for i, r := range s {
		if !(r == '_' || r >= 'a' && r <= 'z' || r >= 'A' && r <= 'Z' || (i > 0 && r >= '0' && r <= '9')) {
			return false
		}
	}
	return true
}

func (ctx *Ctx) houdini(fn *ssa.Function, ct *Contract, work string) map[int][]*Clause {
	cands := houdiniCandidates(fn)
	n := 0
	for _, cs := range cands {
		n += len(cs)
	}
	if n == 0 {
		return nil
	}
	dir := filepath.Join(work, "houdini-"+sanitize(fn.Name()))
	os.MkdirAll(dir, 0o755)
	for round := 0; round < 24; round++ {
		vc := ctx.genFunc(fn, ct, cands)
		// candidates whose evaluation fails (name not in scope, ...) are dropped outright
		var sel []*Obligation
		for _, o := range vc.Obls {
			if (o.Kind == "inv-init" || o.Kind == "inv-keep") && strings.HasSuffix(o.Src, "(auto)") {
				sel = append(sel, o)
			}
		}
		bad := map[string]bool{}
		for _, e := range vc.SpecErrs {
			for ord, cs := range cands {
				for _, c := range cs {
					if strings.Contains(e, fmt.Sprintf("%q", c.Text)) {
						bad[fmt.Sprintf("loop %d: %s", ord, c.Text)] = true
					}
				}
			}
		}
		sub := &FuncVC{Key: vc.Key, Fn: vc.Fn, Contract: vc.Contract, Gen: vc.Gen, Lines: vc.Lines, Obls: sel, ParamInfo: vc.ParamInfo}
		solveAll([]*FuncVC{sub}, SolveOpts{TimeoutS: 3, WorkDir: dir, Workers: 8, NoModel: true}, false)
		for _, o := range sel {
			if o.Status != "unsat" {
				bad[o.Src] = true
			}
		}
		if len(bad) == 0 {
			return cands
		}
		next := map[int][]*Clause{}
		for ord, cs := range cands {
			for _, c := range cs {
				if !bad[fmt.Sprintf("loop %d: %s", ord, c.Text)] {
					next[ord] = append(next[ord], c)
				}
			}
		}
		cands = next
	}
	return nil
}
