package main

import (
	"fmt"
	"os"
	"path/filepath"
	"strings"
)

// cmdSync copies the locked contract files into /repo (they are committed there as hook commits).
func cmdSync(args []string) int {
	lock := filepath.Join(verifDir, "contracts-lock")
	n := 0
	filepath.Walk(lock, func(p string, info os.FileInfo, err error) error {
		if err != nil || info.IsDir() || !strings.HasSuffix(p, ".go") {
			return nil
		}
		rel, _ := filepath.Rel(lock, p)
		if strings.HasPrefix(rel, "_ext") {
			return nil
		}
		b, _ := os.ReadFile(p)
		dst := filepath.Join(repoDir, rel)
		if old, err := os.ReadFile(dst); err == nil && string(old) == string(b) {
			return nil
		}
		if err := os.WriteFile(dst, b, 0o644); err != nil {
			fmt.Fprintln(os.Stderr, err)
			return nil
		}
		fmt.Println("synced", rel)
		n++
		return nil
	})
	fmt.Printf("%d files updated\n", n)
	return 0
}

func cmdSelftest(args []string) int { return 2 }
