package main

// Top-level: generate the VC of one function under contract.

import (
	"fmt"
	"go/types"
	"math/big"
	"sort"
	"strings"

	"golang.org/x/tools/go/ssa"
)

type FuncVC struct {
	Key          string
	Fn           *ssa.Function
	Contract     *Contract
	Gen          *Gen
	Obls         []*Obligation
	Lines        []string
	Notes        []string
	Unsupported  []string
	SpecErrs     []string
	HavocCallees []string
	Covers       []*Obligation // vacuity checks: must be SAT
	ParamInfo    []ParamInfo
	FindingFor   map[string]*attachedFinding
	entryEval    func() *Eval
	lemmaTypes   []types.Type
}

type ParamInfo struct {
	Name  string
	Type  string
	Comps []string // symbol names
}

func (ctx *Ctx) genFunc(fn *ssa.Function, ct *Contract, houdini map[int][]*Clause) *FuncVC {
	g := newGen(ctx, fn)
	g.topC = ct
	vc := &FuncVC{Key: ctx.funcKey(fn), Fn: fn, Contract: ct, Gen: g}
	defer func() {
		vc.Lines = g.lines
		vc.Obls = g.obls
		for n := range g.notes {
			vc.Notes = append(vc.Notes, n)
		}
		sort.Strings(vc.Notes)
		vc.Unsupported = g.unsupported
		vc.SpecErrs = g.specErrs
		for h := range g.havocCallees {
			vc.HavocCallees = append(vc.HavocCallees, h)
		}
		sort.Strings(vc.HavocCallees)
	}()
	if len(fn.Blocks) == 0 {
		g.unsupp("function has no body")
		return vc
	}
	// initial state
	g.declare("W0", SInt)
	g.emit("(assert (>= W0 1))")
	g.declare("tok0", SInt)
	g.declare("ftok0", SInt)
	st := &State{cond: boolLit(true), heap: map[string]Term{}, ep: g.newEpoch(), W: Term{S: "W0", Sort: SInt}, tok: Term{S: "tok0", Sort: SInt}, ftok: Term{S: "ftok0", Sort: SInt}, esc: boolLit(false)}
	g.entryW = st.W
	f := g.newFrame(fn, nil)
	f.isTop = true
	f.houdini = houdini
	var args []Val
	for i, p := range fn.Params {
		v := g.freshVal("p_"+p.Name(), p.Type())
		g.assumeWF(st, v)
		v.Typ = p.Type()
		f.vals[p] = v
		args = append(args, v)
		pi := ParamInfo{Name: p.Name(), Type: p.Type().String()}
		for _, c := range v.Comps {
			pi.Comps = append(pi.Comps, c.S)
		}
		vc.ParamInfo = append(vc.ParamInfo, pi)
		// pointer receivers are non-nil by convention (callers prove it at call sites)
		if i == 0 && fn.Signature.Recv() != nil {
			if _, ok := under(p.Type()).(*types.Pointer); ok && (ct == nil || !ct.NilRecvOK) {
				g.assume(boolLit(true), tCmp(">=", v.Comps[0], intLit(1)))
				v.Comps[0].Lo = big.NewInt(1)
				f.vals[p] = v
				args[len(args)-1] = v
			}
		}
	}
	for _, fv := range fn.FreeVars {
		v := g.freshVal("fv_"+fv.Name(), fv.Type())
		g.assumeWF(st, v)
		g.assume(boolLit(true), tCmp(">=", v.Comps[0], intLit(1)))
		f.freeVals[fv] = v
		// a captured variable that only ever holds constants (e.g. `n := 0; if c { n = 4 }`)
		if cs, ok := cellConstValues(fn, len(vc.ParamInfo)-len(fn.Params)); ok {
			elem := fv.Type().(*types.Pointer).Elem()
			if _, isInt := isIntType(elem); isInt {
				cur := g.loadVal(st, v.Comps[0], elem)
				var alts []Term
				for _, c := range cs {
					cv := f.val(c, elem)
					alts = append(alts, tEq(cur.Comps[0], cv.Comps[0]))
				}
				g.assume(boolLit(true), tOr(alts...))
			}
		}
		pi := ParamInfo{Name: "^" + fv.Name(), Type: fv.Type().String()}
		for _, c := range v.Comps {
			pi.Comps = append(pi.Comps, c.S)
		}
		vc.ParamInfo = append(vc.ParamInfo, pi)
	}
	f.inlineArgs = args
	isInit := fn.Name() == "init" && fn.Synthetic != ""
	if isInit {
		g.skipInvs = true
		// the initialiser runs once: its guard is false on entry
		if gd, ok := fn.Pkg.Members["init$guard"].(*ssa.Global); ok {
			addr := g.globalAddrN(fn.Pkg.Pkg.Path(), gd.Name(), tBool)
			g.storeVal(st, addr, Val{Typ: tBool, Comps: []Term{boolLit(false)}})
		}
	} else {
		g.assumeGlobalInvs(st)
	}
	if ct != nil {
		g.assumeUsing(ct, st)
	}
	pre := st.clone()
	if ct != nil {
		ev := f.topEval(st, nil, args, nil)
		for _, r := range ct.Requires {
			t, err := ev.evalBool(r.Expr)
			if err != nil {
				g.specError(ct, r, err)
				continue
			}
			g.assume(boolLit(true), t)
		}
		if ct.HasModifies {
			g.topMods = f.evalMods(ct, ev)
		}
	}
	vc.entryEval = func() *Eval { return f.topEval(pre, nil, args, nil) }
	// cover: the preconditions are satisfiable
	vc.Covers = append(vc.Covers, &Obligation{Name: vc.Key + "#cover[pre]", Kind: "cover", Fn: vc.Key, Cond: boolLit(true), Goal: boolLit(false), PreludeLen: len(g.lines)})
	f.run(st)
	vc.Covers = append(vc.Covers, g.pendingReach...)
	g.pendingReach = nil
	if len(f.rets) == 0 {
		g.note("no reachable return")
	}
	if ct != nil {
		for _, cs := range ct.LoopStep {
			for _, c := range cs {
				if g.atReturnUsed["step:"+c.Text] == 0 {
					g.failClause("contract", "loop step "+c.Text, "applies to no back edge (a variable it names is not in scope there, or the loop is gone)")
				}
			}
		}
		for ord, cs := range ct.LoopInv {
			exists := false
			for _, li := range f.loops {
				if li.Ordinal == ord {
					exists = true
				}
			}
			if !exists && len(cs) > 0 {
				g.failClause("contract", fmt.Sprintf("loop %d invariant %s", ord, cs[0].Text), "the function has no such loop")
			}
		}
		for _, ac := range ct.AtCall {
			if g.atReturnUsed["at-call:"+ac.Match+"::"+ac.Clause.Text] == 0 {
				g.failClause("contract", "at-call "+ac.Match+" requires "+ac.Clause.Text, "matches no call site")
			}
		}
		for _, c := range ct.AtReturn {
			if g.atReturnUsed[c.Text] == 0 {
				g.failClause("contract", "at-return "+c.Text, "applies to no return site (a variable it names is not in scope at any return)")
			}
		}
	}
	for ri, r := range f.rets {
		// cover: the return is reachable
		vc.Covers = append(vc.Covers, &Obligation{Name: fmt.Sprintf("%s#cover[return%d]", vc.Key, ri), Kind: "cover", Fn: vc.Key, Cond: r.st.cond, Goal: boolLit(false), PreludeLen: len(g.lines)})
		if isInit {
			for _, inv := range ctx.specs.Invs {
				if inv.Pkg != fn.Pkg.Pkg.Path() {
					continue
				}
				ev := &Eval{g: g, st: r.st, vars: map[string]Val{}, pkg: fn.Pkg.Pkg}
				t, err := ev.evalBool(inv.Expr)
				if err != nil {
					g.specErrs = append(g.specErrs, fmt.Sprintf("invariant %q: %v", inv.Text, err))
					continue
				}
				g.oblige(r.st, "post", 0, "invariant "+inv.Text, t)
			}
		}
		if ct == nil {
			continue
		}
		ev := f.topEval(r.st, pre, args, r.vals)
		for _, e := range ct.Ensures {
			t, err := ev.evalBool(e.Expr)
			if err != nil {
				g.specError(ct, e, err)
				continue
			}
			g.oblige(r.st, "post", 0, e.Text, t)
		}
	}
	return vc
}

func (f *Frame) topEval(st, old *State, args []Val, results []Val) *Eval {
	ev := &Eval{g: f.g, st: st, old: old, fn: f.fn, vars: map[string]Val{}, pkg: pkgOf(f.fn)}
	if f.fn.Syntax() != nil {
		ev.pos = f.fn.Syntax().End() - 1
	}
	bindNames(ev.vars, f.fn, args, results)
	// free variables of closures by name (dereferenced)
	for _, fv := range f.fn.FreeVars {
		fv := fv
		name := fv.Name()
		if _, ok := ev.vars[name]; ok {
			continue
		}
		pv := f.freeVals[fv]
		elem := fv.Type().(*types.Pointer).Elem()
		ev.vars[name] = f.g.loadVal(st, pv.Comps[0], elem)
	}
	return ev
}

// smtFor builds the SMT-LIB script for one obligation.
func (vc *FuncVC) smtFor(o *Obligation, wantModel bool, modelSyms []string, extra ...string) string {
	var b strings.Builder
	b.WriteString("(set-option :produce-models true)\n(set-logic ALL)\n")
	for _, l := range sliceLines(vc.Lines[:o.PreludeLen], o.Cond.S) {
		if o.Kind == "cover" && strings.Contains(l, "(forall ") {
			continue // covers are checked without the quantified facts (a weaker, but decidable, consistency check)
		}
		b.WriteString(l)
		b.WriteString("\n")
	}
	for _, e := range extra {
		b.WriteString(e + "\n")
	}
	b.WriteString("(assert " + tAnd(o.Cond, tNot(o.Goal)).S + ")\n")
	b.WriteString("(check-sat)\n")
	if wantModel && len(modelSyms) > 0 {
		b.WriteString("(get-value (" + strings.Join(modelSyms, " ") + "))\n")
	}
	return b.String()
}

// smallModelHints: extra constraints asking for a small (replayable) entry state.
func (vc *FuncVC) smallModelHints() []string {
	var out []string
	var ts []types.Type
	if vc.Fn != nil {
		for _, p := range vc.Fn.Params {
			ts = append(ts, p.Type())
		}
		for _, fv := range vc.Fn.FreeVars {
			ts = append(ts, fv.Type())
		}
	} else {
		ts = vc.lemmaTypes
	}
	for i, pi := range vc.ParamInfo {
		if i >= len(ts) {
			break
		}
		for j, c := range layout(ts[i]) {
			if (c.Kind == KSliceLen || c.Kind == KSliceCap) && j < len(pi.Comps) {
				out = append(out, fmt.Sprintf("(assert (<= %s %d))", pi.Comps[j], modelBytes))
			}
		}
	}
	return out
}

// smtForRelaxed: the obligation without quantified assumptions (candidate counterexamples only).
func (vc *FuncVC) smtForRelaxed(o *Obligation, modelSyms []string, extra []string) string {
	var b strings.Builder
	b.WriteString("(set-option :produce-models true)\n(set-logic ALL)\n")
	for _, l := range sliceLines(vc.Lines[:o.PreludeLen], o.Cond.S) {
		if strings.Contains(l, "(forall ") {
			continue
		}
		b.WriteString(l + "\n")
	}
	for _, e := range extra {
		b.WriteString(e + "\n")
	}
	b.WriteString("(assert " + tAnd(o.Cond, tNot(o.Goal)).S + ")\n(check-sat)\n")
	if len(modelSyms) > 0 {
		b.WriteString("(get-value (" + strings.Join(modelSyms, " ") + "))\n")
	}
	return b.String()
}

// assumeUsing: axioms and (separately proved) lemmas a contract asks for, evaluated in the given state.
func (g *Gen) assumeUsing(ct *Contract, st *State) {
	for _, name := range ct.Using {
		var l *Lemma
		for _, a := range g.ctx.specs.Axioms {
			if a.Name == name {
				l = a
			}
		}
		isLemma := false
		for _, a := range g.ctx.specs.Lemmas {
			if a.Name == name {
				l, isLemma = a, true
			}
		}
		if l == nil {
			g.specErrs = append(g.specErrs, "using: no axiom or lemma named "+name)
			continue
		}
		var pkg *types.Package
		if p := g.ctx.typPkgs[l.Pkg]; p != nil {
			pkg = p.Types
		}
		ev := &Eval{g: g, st: st, vars: map[string]Val{}, pkg: pkg}
		t, err := ev.evalBool(l.Expr)
		if err != nil {
			g.specErrs = append(g.specErrs, fmt.Sprintf("using %s: %v", name, err))
			continue
		}
		g.assume(st.cond, t)
		if isLemma {
			g.usedTrusted["lemma "+name+" (proved separately)"] = true
		} else {
			g.usedTrusted["axiom "+name+": "+l.Text] = true
		}
	}
}
