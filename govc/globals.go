package main

// Global-write scan: the globals a package invariant mentions may only be written by the package initialiser.

import (
	"fmt"
	"go/types"
	"sort"

	"golang.org/x/tools/go/ssa"
	"golang.org/x/tools/go/ssa/ssautil"
)

func specIdents(e SExpr, out map[string]bool) {
	switch x := e.(type) {
	case *SIdent:
		out[x.Name] = true
	case *SSel:
		specIdents(x.X, out)
	case *SCall:
		specIdents(x.Fun, out)
		for _, a := range x.Args {
			specIdents(a, out)
		}
	case *SIndex:
		specIdents(x.X, out)
		specIdents(x.I, out)
	case *SSlice:
		specIdents(x.X, out)
	case *SUnary:
		specIdents(x.X, out)
	case *SBinary:
		specIdents(x.X, out)
		specIdents(x.Y, out)
	case *SCond:
		specIdents(x.C, out)
		specIdents(x.A, out)
		specIdents(x.B, out)
	case *SQuant:
		specIdents(x.Body, out)
	}
}

func rootGlobal(v ssa.Value) *ssa.Global {
	for {
		switch x := v.(type) {
		case *ssa.Global:
			return x
		case *ssa.FieldAddr:
			v = x.X
		case *ssa.IndexAddr:
			v = x.X
		default:
			return nil
		}
	}
}

func (c *Ctx) globalWriteScan(pkgPath string, invs []*Lemma) []*Obligation {
	p := c.typPkgs[pkgPath]
	if p == nil {
		return nil
	}
	names := map[string]bool{}
	for _, inv := range invs {
		if inv.Pkg == pkgPath {
			specIdents(inv.Expr, names)
		}
	}
	globals := map[*ssa.Global]bool{}
	sp := c.ssaPkgs[pkgPath]
	for n := range names {
		if v, ok := p.Types.Scope().Lookup(n).(*types.Var); ok {
			if g, ok := sp.Members[v.Name()].(*ssa.Global); ok {
				globals[g] = true
			}
		}
	}
	var out []*Obligation
	var fns []*ssa.Function
	for fn := range ssautil.AllFunctions(c.prog) {
		if pkgOf(fn) == p.Types {
			fns = append(fns, fn)
		}
	}
	sort.Slice(fns, func(i, j int) bool { return c.funcKey(fns[i]) < c.funcKey(fns[j]) })
	n := 0
	for _, fn := range fns {
		if fn.Name() == "init" && fn.Synthetic != "" {
			continue
		}
		for _, b := range fn.Blocks {
			for _, in := range b.Instrs {
				var target ssa.Value
				switch t := in.(type) {
				case *ssa.Store:
					target = t.Addr
				case *ssa.MapUpdate:
					if u, ok := t.Map.(*ssa.UnOp); ok {
						target = u.X
					}
				}
				if target == nil {
					continue
				}
				if g := rootGlobal(target); g != nil && globals[g] {
					n++
					out = append(out, &Obligation{Name: fmt.Sprintf("%s.init#global-write[%d]{%s written in %s}", pkgPath, n, g.Name(), fn.Name()),
						Kind: "global-write", Fn: pkgPath + ".init", Cond: boolLit(true), Goal: boolLit(false)})
				}
			}
		}
	}
	return out
}

// cellConstValues: the constant values a captured variable (an Alloc cell of the parent function) can hold:
// every store to the cell, in the parent and in all closures that capture it, stores a constant.
func cellConstValues(fn *ssa.Function, fvIdx int) ([]*ssa.Const, bool) {
	parent := fn.Parent()
	if parent == nil {
		return nil, false
	}
	var cell *ssa.Alloc
	for _, b := range parent.Blocks {
		for _, in := range b.Instrs {
			if mc, ok := in.(*ssa.MakeClosure); ok && mc.Fn == ssa.Value(fn) && fvIdx < len(mc.Bindings) {
				cell, _ = mc.Bindings[fvIdx].(*ssa.Alloc)
			}
		}
	}
	if cell == nil {
		return nil, false
	}
	var out []*ssa.Const
	okAll := true
	var scanStores func(addr ssa.Value, f *ssa.Function, depth int)
	scanStores = func(addr ssa.Value, f *ssa.Function, depth int) {
		for _, r := range *addr.Referrers() {
			switch u := r.(type) {
			case *ssa.Store:
				if u.Addr == addr {
					if c, ok := u.Val.(*ssa.Const); ok {
						out = append(out, c)
					} else {
						okAll = false
					}
				} else {
					okAll = false // the address itself is stored somewhere
				}
			case *ssa.MakeClosure:
				cf := u.Fn.(*ssa.Function)
				for j, b := range u.Bindings {
					if b == addr && j < len(cf.FreeVars) {
						if depth > 3 {
							okAll = false
						} else {
							scanStores(cf.FreeVars[j], cf, depth+1)
						}
					}
				}
			case *ssa.UnOp, *ssa.DebugRef:
			default:
				okAll = false
			}
		}
	}
	scanStores(cell, parent, 0)
	if !okAll || len(out) == 0 {
		return nil, false
	}
	return out, true
}
