package main

// Re-binding of clauses after a pure rename of locals.
//
// Clauses name locals and call-site text of the function they are attached to. When a local is renamed (and
// nothing else about the shape of the function changes) the clause would no longer bind and would be reported as a
// failed obligation although the property still holds. To avoid that alarm the loader compares the function in
// the working tree with the same function in the committed version (git HEAD of the repository that is checked):
// if both have the same sequence of syntax node kinds and the same number of identifier definitions, and the
// definitions differ only by a consistent renaming, the renaming is applied to the clause texts of that function
// before they are parsed. In every other case (HEAD not available, shapes differ, inconsistent renaming) nothing
// is rewritten and the old behaviour stands. Every re-binding is printed ("govc: REBOUND ...").

import (
	"fmt"
	"go/ast"
	goparser "go/parser"
	"go/token"
	"os"
	"os/exec"
	"path/filepath"
	"reflect"
	"strings"
)

type rebinder struct {
	dirFiles map[string]map[string]*ast.File // dir -> file name -> parsed working-tree file
	headFile map[string]*ast.File            // absolute path -> parsed HEAD version (nil if unavailable)
	maps     map[string]map[string]string    // dir + "\x00" + top-level func -> renaming (old -> new)
}

var theRebinder = &rebinder{dirFiles: map[string]map[string]*ast.File{}, headFile: map[string]*ast.File{}, maps: map[string]map[string]string{}}

// topFunc strips the closure suffixes of a contract's function name: "(*T).m$2$1" -> recv "T", name "m".
func topFunc(rel string) (recv, name string) {
	if i := strings.Index(rel, "$"); i >= 0 {
		rel = rel[:i]
	}
	if strings.HasPrefix(rel, "(") {
		if j := strings.Index(rel, ")."); j > 0 {
			recv = strings.TrimPrefix(rel[1:j], "*")
			name = rel[j+2:]
			return
		}
	}
	return "", rel
}

func recvName(fd *ast.FuncDecl) string {
	if fd.Recv == nil || len(fd.Recv.List) == 0 {
		return ""
	}
	t := fd.Recv.List[0].Type
	for {
		switch x := t.(type) {
		case *ast.StarExpr:
			t = x.X
			continue
		case *ast.IndexExpr:
			t = x.X
			continue
		case *ast.IndexListExpr:
			t = x.X
			continue
		case *ast.ParenExpr:
			t = x.X
			continue
		case *ast.Ident:
			return x.Name
		}
		return ""
	}
}

func (rb *rebinder) parseDir(dir string) map[string]*ast.File {
	if m, ok := rb.dirFiles[dir]; ok {
		return m
	}
	m := map[string]*ast.File{}
	ents, _ := os.ReadDir(dir)
	for _, e := range ents {
		n := e.Name()
		if e.IsDir() || !strings.HasSuffix(n, ".go") || strings.HasSuffix(n, "_test.go") || strings.HasPrefix(n, "zz_contracts") {
			continue
		}
		f, err := goparser.ParseFile(token.NewFileSet(), filepath.Join(dir, n), nil, goparser.SkipObjectResolution)
		if err == nil {
			m[n] = f
		}
	}
	rb.dirFiles[dir] = m
	return m
}

func (rb *rebinder) parseHead(abs string) *ast.File {
	if f, ok := rb.headFile[abs]; ok {
		return f
	}
	rb.headFile[abs] = nil
	dir := filepath.Dir(abs)
	top, err := exec.Command("git", "-C", dir, "rev-parse", "--show-toplevel").Output()
	if err != nil {
		return nil
	}
	root := strings.TrimSpace(string(top))
	rel, err := filepath.Rel(root, abs)
	if err != nil {
		return nil
	}
	src, err := exec.Command("git", "-C", root, "show", "HEAD:"+filepath.ToSlash(rel)).Output()
	if err != nil {
		return nil
	}
	f, err := goparser.ParseFile(token.NewFileSet(), abs, src, goparser.SkipObjectResolution)
	if err != nil {
		return nil
	}
	rb.headFile[abs] = f
	return f
}

func findDecl(f *ast.File, recv, name string) *ast.FuncDecl {
	for _, d := range f.Decls {
		if fd, ok := d.(*ast.FuncDecl); ok && fd.Name.Name == name && recvName(fd) == recv {
			return fd
		}
	}
	return nil
}

// shapeAndDefs returns the pre-order sequence of node kinds of a declaration and the identifiers it defines, in
// source order (parameters and results of the function and of its closures, := targets, var names, range targets).
func shapeAndDefs(fd *ast.FuncDecl) (shape []string, defs []string) {
	addFields := func(fl *ast.FieldList) {
		if fl == nil {
			return
		}
		for _, f := range fl.List {
			for _, n := range f.Names {
				defs = append(defs, n.Name)
			}
		}
	}
	ast.Inspect(fd, func(n ast.Node) bool {
		if n == nil {
			return true
		}
		shape = append(shape, reflect.TypeOf(n).String())
		switch x := n.(type) {
		case *ast.FuncDecl:
			addFields(x.Recv)
			addFields(x.Type.Params)
			addFields(x.Type.Results)
		case *ast.FuncLit:
			addFields(x.Type.Params)
			addFields(x.Type.Results)
		case *ast.AssignStmt:
			if x.Tok == token.DEFINE {
				for _, l := range x.Lhs {
					if id, ok := l.(*ast.Ident); ok {
						defs = append(defs, id.Name)
					}
				}
			}
		case *ast.ValueSpec:
			for _, id := range x.Names {
				defs = append(defs, id.Name)
			}
		case *ast.RangeStmt:
			if x.Tok == token.DEFINE {
				for _, e := range []ast.Expr{x.Key, x.Value} {
					if id, ok := e.(*ast.Ident); ok {
						defs = append(defs, id.Name)
					}
				}
			}
		}
		return true
	})
	return
}

// identUses: every identifier of the function in source order, field selectors and composite-literal keys excepted
// (they are not locals, and may share a name with one).
func identUses(fd *ast.FuncDecl) []string {
	skip := map[*ast.Ident]bool{}
	ast.Inspect(fd, func(n ast.Node) bool {
		switch x := n.(type) {
		case *ast.SelectorExpr:
			skip[x.Sel] = true
		case *ast.KeyValueExpr:
			if id, ok := x.Key.(*ast.Ident); ok {
				skip[id] = true
			}
		}
		return true
	})
	var out []string
	ast.Inspect(fd, func(n ast.Node) bool {
		if id, ok := n.(*ast.Ident); ok && !skip[id] {
			out = append(out, id.Name)
		}
		return true
	})
	return out
}

// renaming computes old -> new for the top-level function a contract is attached to; nil when nothing is to be
// (or can safely be) re-bound.
func (rb *rebinder) renaming(contractFile, key string) map[string]string {
	if os.Getenv("GOVC_NOREBIND") != "" {
		return nil
	}
	// the contract file is the locked copy under <verif>/contracts-lock/<pkg dir>/; the code is in <repo>/<pkg dir>/
	lock := filepath.Join(verifDir, "contracts-lock")
	relDir, err := filepath.Rel(lock, filepath.Dir(contractFile))
	if err != nil || strings.HasPrefix(relDir, "..") || strings.HasPrefix(relDir, "_ext") {
		return nil
	}
	dir := filepath.Join(repoDir, relDir)
	rel := key
	if i := strings.LastIndex(key, "/"); i >= 0 {
		rel = key[i+1:]
	}
	if i := strings.Index(rel, "."); i >= 0 { // drop the package name
		rel = rel[i+1:]
	}
	recv, name := topFunc(rel)
	ck := dir + "\x00" + recv + "." + name
	if m, ok := rb.maps[ck]; ok {
		return m
	}
	rb.maps[ck] = nil
	for fn, f := range rb.parseDir(dir) {
		cur := findDecl(f, recv, name)
		if cur == nil {
			continue
		}
		hf := rb.parseHead(filepath.Join(dir, fn))
		if hf == nil {
			return nil
		}
		old := findDecl(hf, recv, name)
		if old == nil {
			return nil
		}
		s1, d1 := shapeAndDefs(old)
		s2, d2 := shapeAndDefs(cur)
		if len(s1) != len(s2) || len(d1) != len(d2) {
			return nil
		}
		for i := range s1 {
			if s1[i] != s2[i] {
				return nil
			}
		}
		fwd, back := map[string]string{}, map[string]string{}
		changed := false
		for i := range d1 {
			a, b := d1[i], d2[i]
			if x, ok := fwd[a]; ok && x != b {
				return nil // one old name, two new names (or renamed in one place only)
			}
			if x, ok := back[b]; ok && x != a {
				return nil // two old names merged into one
			}
			fwd[a], back[b] = b, a
			if a != b {
				changed = true
			}
		}
		if !changed {
			return nil
		}
		// the renaming must explain every identifier of the function, not only the definitions: two declarations of
		// the same shape that merely changed places (`used := 0; i := 0` -> `i := 0; used := 0`) look like a
		// consistent renaming of the definitions, but the uses did not follow
		u1, u2 := identUses(old), identUses(cur)
		if len(u1) != len(u2) {
			return nil
		}
		for i := range u1 {
			want := u1[i]
			if x, ok := fwd[want]; ok {
				want = x
			}
			if want != u2[i] {
				return nil
			}
		}
		m := map[string]string{}
		for a, b := range fwd {
			if a != b && a != "_" && b != "_" {
				m[a] = b
			}
		}
		if len(m) == 0 {
			return nil
		}
		var parts []string
		for a, b := range m {
			parts = append(parts, a+"->"+b)
		}
		fmt.Printf("govc: REBOUND %s: locals renamed since HEAD (%s); the clauses of this function are read with the new names\n", key, strings.Join(parts, ", "))
		rb.maps[ck] = m
		return m
	}
	return nil
}

func isIdentByte(c byte) bool {
	return c == '_' || (c >= 'a' && c <= 'z') || (c >= 'A' && c <= 'Z') || (c >= '0' && c <= '9')
}

// renameIdents replaces identifier tokens of s by m; selectors (.x) and string literals are left alone; "x0" (entry
// value of parameter x) follows x.
func renameIdents(s string, m map[string]string) string {
	if len(m) == 0 {
		return s
	}
	var b strings.Builder
	for i := 0; i < len(s); {
		c := s[i]
		if c == '"' || c == '`' {
			j := i + 1
			for j < len(s) && s[j] != c {
				if s[j] == '\\' && c == '"' {
					j++
				}
				j++
			}
			if j < len(s) {
				j++
			}
			b.WriteString(s[i:j])
			i = j
			continue
		}
		if isIdentByte(c) && !(c >= '0' && c <= '9') {
			j := i
			for j < len(s) && isIdentByte(s[j]) {
				j++
			}
			tok := s[i:j]
			sel := i > 0 && s[i-1] == '.'
			if !sel {
				if n, ok := m[tok]; ok {
					tok = n
				} else if strings.HasSuffix(tok, "0") {
					if n, ok := m[strings.TrimSuffix(tok, "0")]; ok {
						tok = n + "0"
					}
				}
			}
			b.WriteString(tok)
			i = j
			continue
		}
		if c >= '0' && c <= '9' { // a number (or the tail of one): copy it whole
			j := i
			for j < len(s) && (isIdentByte(s[j]) || s[j] == '.') {
				j++
			}
			b.WriteString(s[i:j])
			i = j
			continue
		}
		b.WriteByte(c)
		i++
	}
	return b.String()
}
