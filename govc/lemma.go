package main

// Lemmas: closed formulas over spec functions / pure getters, proved standalone by the solver.

import (
	"fmt"
	"go/types"
)

func (ctx *Ctx) genLemma(l *Lemma) *FuncVC {
	g := newGen(ctx, nil)
	key := l.Pkg + ".lemma:" + l.Name
	vc := &FuncVC{Key: key, Gen: g}
	g.declare("W0", SInt)
	g.emit("(assert (>= W0 1))")
	g.declare("tok0", SInt)
	g.declare("ftok0", SInt)
	st := &State{cond: boolLit(true), heap: map[string]Term{}, ep: g.newEpoch(), W: Term{S: "W0", Sort: SInt}, tok: Term{S: "tok0", Sort: SInt}, ftok: Term{S: "ftok0", Sort: SInt}, esc: boolLit(false)}
	g.entryW = st.W
	var pkg *types.Package
	if p := ctx.typPkgs[l.Pkg]; p != nil {
		pkg = p.Types
	}
	ev := &Eval{g: g, st: st, vars: map[string]Val{}, pkg: pkg}
	g.lemmaKey = key
	expr := l.Expr
	// skolemise the leading universal quantifier so that counterexamples name the variables
	if q, ok := expr.(*SQuant); ok && q.Forall {
		for _, v := range q.Vars {
			t, err := ev.resolveType(v.Type)
			if err != nil {
				g.specErrs = append(g.specErrs, fmt.Sprintf("lemma %s: %v", l.Name, err))
				vc.SpecErrs = g.specErrs
				return vc
			}
			val := g.freshVal("lv_"+v.Name, t)
			g.assumeWF(st, val)
			ev.vars[v.Name] = val
			pi := ParamInfo{Name: v.Name, Type: t.String()}
			for _, c := range val.Comps {
				pi.Comps = append(pi.Comps, c.S)
			}
			vc.ParamInfo = append(vc.ParamInfo, pi)
			vc.lemmaTypes = append(vc.lemmaTypes, t)
		}
		expr = q.Body
	}
	for _, ax := range ctx.specs.Axioms {
		if ax.Pkg != l.Pkg {
			continue
		}
		t, err := ev.evalBool(ax.Expr)
		if err != nil {
			g.specErrs = append(g.specErrs, fmt.Sprintf("axiom %s: %v", ax.Name, err))
			continue
		}
		g.assume(boolLit(true), t)
		g.usedTrusted["axiom "+ax.Name+": "+ax.Text] = true
	}
	vc.Covers = append(vc.Covers, &Obligation{Name: key + "#cover[pre]", Kind: "cover", Fn: key, Cond: boolLit(true), Goal: boolLit(false), PreludeLen: len(g.lines)})
	t, err := ev.evalBool(expr)
	if err != nil {
		g.specErrs = append(g.specErrs, fmt.Sprintf("lemma %s: %v", l.Name, err))
	} else {
		g.oblige(st, "lemma", 0, l.Text, t)
	}
	vc.Lines = g.lines
	vc.Obls = g.obls
	vc.SpecErrs = g.specErrs
	return vc
}
