package main

// VC generator core: state, heap epochs, fresh symbols, obligations, memory model.

import (
	"fmt"
	"go/token"
	"go/types"
	"math/big"
	"sort"
	"strings"

	"golang.org/x/tools/go/ssa"
)

type Obligation struct {
	Name       string
	Kind       string
	Fn         string
	Pos        string
	Src        string
	Cond, Goal Term
	PreludeLen int
	// filled by the solver stage
	Status    string // "unsat" (discharged), "sat", "unknown"
	Solver    string
	TimeS     float64
	Model     map[string]string
	Candidate bool // model comes from the relaxed (quantifier-free) query
	Output    string
}

type Epoch struct {
	g       *Gen
	id      int
	parents []*Epoch
	conds   []Term
	memo    map[string]Term
	// frameBelow: if set, an "alloc-only" epoch: cells below this watermark equal the parent's
	base *Epoch
}

type State struct {
	cond   Term
	heap   map[string]Term
	ep     *Epoch
	W      Term
	tok    Term            // changes whenever memory that existed at function entry (or escaped fresh memory) is written
	ftok   Term            // changes on every write
	called map[string]Term // Bool per function key: has it been called on this path (since the last loop head)
	esc    Term            // Bool: a pointer may have been stored into pre-existing memory (fresh objects may be reachable from old ones)
}

func (s *State) clone() *State {
	h := make(map[string]Term, len(s.heap))
	for k, v := range s.heap {
		h[k] = v
	}
	cl := make(map[string]Term, len(s.called))
	for k, v := range s.called {
		cl[k] = v
	}
	return &State{cond: s.cond, heap: h, ep: s.ep, W: s.W, tok: s.tok, ftok: s.ftok, esc: s.esc, called: cl}
}

type EntrySym struct {
	Name string // symbol or expression to evaluate
	Desc string // what it is, e.g. "param data.len"
}

type Gen struct {
	ctx             *Ctx
	top             *ssa.Function
	topC            *Contract
	lines           []string
	nsym            int
	obls            []*Obligation
	declared        map[string]bool
	notes           map[string]bool
	kindCount       map[string]int
	entrySyms       []EntrySym
	havocCallees    map[string]bool
	usedContracts   map[string]bool
	usedTrusted     map[string]bool
	nepoch          int
	entryW          Term
	topMods         []ModEntry
	mode            string // "", "threadlocal"
	strLits         map[string]Term
	unsupported     []string
	specErrs        []string
	noName          int
	usedPure        map[string]bool
	declLine        map[string]int
	lemmaKey        string
	skipInvs        bool
	muteObl         int
	keyKind         map[string]CompKind
	atReturnUsed    map[string]int
	pendingReach    []*Obligation // `reachable` clauses: must-be-SAT obligations, moved into FuncVC.Covers
	atReturnSkipped map[string]int
	usedInvs        map[string]bool
}

func newGen(ctx *Ctx, fn *ssa.Function) *Gen {
	g := &Gen{ctx: ctx, top: fn, declared: map[string]bool{}, notes: map[string]bool{}, kindCount: map[string]int{},
		havocCallees: map[string]bool{}, usedContracts: map[string]bool{}, usedTrusted: map[string]bool{}, strLits: map[string]Term{}, usedPure: map[string]bool{}, declLine: map[string]int{}, usedInvs: map[string]bool{}, keyKind: map[string]CompKind{}, atReturnUsed: map[string]int{}, atReturnSkipped: map[string]int{}}
	g.emit("(declare-fun strlen (Int) Int)")
	g.emit("(assert (forall ((s Int)) (! (>= (strlen s) 0) :pattern ((strlen s)))))")
	g.emit("(declare-fun band (Int Int) Int)")
	return g
}

func (g *Gen) emit(s string) { g.lines = append(g.lines, s) }

func (g *Gen) note(s string) { g.notes[s] = true }

func (g *Gen) sym(prefix string) string {
	g.nsym++
	return fmt.Sprintf("%s_%d", sanitize(prefix), g.nsym)
}

func (g *Gen) declare(name, sort string) {
	if g.declared[name] {
		return
	}
	g.declared[name] = true
	g.emit(fmt.Sprintf("(declare-const %s %s)", name, sort))
}

func (g *Gen) declareFun(name string, args []string, res string) {
	if g.declared[name] {
		return
	}
	g.declared[name] = true
	g.emit(fmt.Sprintf("(declare-fun %s (%s) %s)", name, strings.Join(args, " "), res))
}

func (g *Gen) assume(cond, fact Term) {
	if g.noName > 0 {
		return
	}
	f := tImp(cond, fact)
	if f.isTrue() {
		return
	}
	g.emit("(assert " + f.S + ")")
}

// name: give a term a definition name to keep VC size linear.
func (g *Gen) name(prefix string, t Term) Term {
	if len(t.S) < 24 || g.noName > 0 {
		return t
	}
	n := g.sym(prefix)
	g.emit(fmt.Sprintf("(define-fun %s () %s %s)", n, t.Sort, t.S))
	return Term{S: n, Sort: t.Sort, Lo: t.Lo, Hi: t.Hi, Pow2: t.Pow2}
}

func (g *Gen) nameVal(prefix string, v Val) Val {
	out := Val{Typ: v.Typ, Loc: v.Loc, Comps: make([]Term, len(v.Comps))}
	for i, c := range v.Comps {
		out.Comps[i] = g.name(prefix, c)
	}
	return out
}

// freshComp declares a fresh constant for a component with type-range facts.
func (g *Gen) freshComp(prefix string, c Comp) Term {
	n := g.sym(prefix)
	g.declare(n, c.Sort)
	t := Term{S: n, Sort: c.Sort}
	switch c.Kind {
	case KInt:
		if lo, hi, ok := intRange(c.Typ.(*types.Basic)); ok {
			g.emit(fmt.Sprintf("(assert (and (<= %s %s) (<= %s %s)))", bigLit(lo).S, n, n, bigLit(hi).S))
			t.Lo, t.Hi = lo, hi
		}
	case KPtr, KSlicePtr, KSliceLen, KSliceCap, KIfaceTag, KOpaque, KStr:
		g.emit(fmt.Sprintf("(assert (>= %s 0))", n))
		t.Lo = big.NewInt(0)
		if c.Kind == KSliceLen || c.Kind == KSliceCap {
			t.Hi = pow2(40)
			g.emit(fmt.Sprintf("(assert (<= %s %s))", n, t.Hi.String()))
		}
	}
	return t
}

func (g *Gen) freshVal(prefix string, t types.Type) Val {
	ly := layout(t)
	v := Val{Typ: t, Comps: make([]Term, len(ly))}
	for i, c := range ly {
		v.Comps[i] = g.freshComp(prefix+"_"+c.Name, c)
	}
	return v
}

// rangeFacts: add range bounds to a loaded term according to its component kind (unconditional facts
// about well-typed heaps).
func (g *Gen) typedLoad(t Term, c Comp) Term {
	if g.noName > 0 {
		return t
	}
	switch c.Kind {
	case KInt:
		if lo, hi, ok := intRange(c.Typ.(*types.Basic)); ok {
			t = g.name("ld", t)
			g.emit(fmt.Sprintf("(assert (and (<= %s %s) (<= %s %s)))", bigLit(lo).S, t.S, t.S, bigLit(hi).S))
			t.Lo, t.Hi = lo, hi
		}
	case KPtr, KSlicePtr, KSliceLen, KSliceCap, KIfaceTag, KOpaque, KStr:
		t = g.name("ld", t)
		g.emit(fmt.Sprintf("(assert (>= %s 0))", t.S))
		t.Lo = big.NewInt(0)
		if c.Kind == KSliceLen || c.Kind == KSliceCap {
			t.Hi = pow2(40)
			g.emit(fmt.Sprintf("(assert (<= %s %s))", t.S, t.Hi.String()))
		}
	}
	return t
}

// assumeWF: structural well-formedness of a value in a state (slices, pointers within the watermark).
func (g *Gen) assumeWF(st *State, v Val) {
	ly := layout(v.Typ)
	if len(ly) != len(v.Comps) {
		return
	}
	for i := 0; i < len(ly); i++ {
		c := ly[i]
		switch c.Kind {
		case KPtr:
			sz := cellSize(c.Typ)
			g.assume(st.cond, tOr(tEq(v.Comps[i], intLit(0)), tAnd(tCmp(">=", v.Comps[i], intLit(1)), tCmp("<=", tAdd(v.Comps[i], intLit(sz)), st.W))))
		case KSlicePtr:
			ptr, ln, cp := v.Comps[i], v.Comps[i+1], v.Comps[i+2]
			sz := cellSize(c.Typ)
			g.assume(st.cond, tAnd(
				tCmp("<=", ln, cp),
				tCmp("<=", tAdd(ptr, tMul(cp, intLit(sz))), st.W),
				tImp(tEq(ptr, intLit(0)), tEq(cp, intLit(0)))))
		case KOpaque:
			// a map value is nil or a map made earlier (map ids are allocated like addresses)
			if _, isMap := c.Typ.(*types.Map); isMap {
				g.assume(st.cond, tAnd(tCmp(">=", v.Comps[i], intLit(0)), tCmp("<", v.Comps[i], st.W)))
			}
		case KIfaceTag:
			g.assume(st.cond, tImp(tEq(v.Comps[i], intLit(0)), tEq(v.Comps[i+1], intLit(0))))
			// a pointer held in an interface refers to allocated memory
			var ptags []int64
			for n, t := range tagTypes {
				if _, ok := under(t).(*types.Pointer); ok {
					ptags = append(ptags, n)
				}
			}
			sort.Slice(ptags, func(a, b int) bool { return ptags[a] < ptags[b] })
			if len(ptags) > 0 && len(ptags) <= 400 {
				var alts []Term
				for _, n := range ptags {
					alts = append(alts, tEq(v.Comps[i], intLit(n)))
				}
				g.assume(st.cond, tImp(tOr(alts...), tAnd(tCmp("<=", intLit(0), v.Comps[i+1]), tCmp("<", v.Comps[i+1], st.W))))
			}
		}
	}
}

// ---------------------------------------------------------------- heap

func (g *Gen) newEpoch() *Epoch {
	g.nepoch++
	return &Epoch{g: g, id: g.nepoch, memo: map[string]Term{}}
}

func (e *Epoch) resolve(key, sort string) Term {
	if t, ok := e.memo[key]; ok {
		return t
	}
	var t Term
	if len(e.parents) == 0 {
		n := fmt.Sprintf("H%d_%s", e.id, sanitize(key))
		fresh := !e.g.declared[n]
		e.g.declare(n, sort)
		t = Term{S: n, Sort: sort}
		if fresh && e.id == 1 && sort == arrSort(SInt) {
			// heap well-formedness at entry: every stored pointer refers to memory allocated before the call
			switch e.g.keyKind[key] {
			case KPtr, KSlicePtr:
				e.g.emit(fmt.Sprintf("(assert (forall ((a Int)) (! (and (<= 0 (select %s a)) (< (select %s a) W0)) :pattern ((select %s a)))))", n, n, n))
			}
		}
		if e.base != nil {
			// alloc-only epoch: below the watermark recorded at creation nothing changed
			_ = e.base
		}
	} else {
		t = e.parents[len(e.parents)-1].resolve(key, sort)
		for i := len(e.parents) - 2; i >= 0; i-- {
			t = tIte(e.conds[i], e.parents[i].resolve(key, sort), t)
		}
		t = e.g.name("Hm_"+key, t)
	}
	e.memo[key] = t
	return t
}

func (g *Gen) heapGet(st *State, key, sort string) Term {
	if t, ok := st.heap[key]; ok {
		return t
	}
	return st.ep.resolve(key, sort)
}

func (g *Gen) heapSet(st *State, key string, t Term) {
	st.heap[key] = g.name("H_"+key, t)
}

func (g *Gen) bumpTok(st *State) { g.bumpTokAt(st, nil, true) }

// bumpTokAt records a write at address target (nil: unknown). Writes into memory allocated during this
// call do not disturb pure functions of pre-existing objects unless a pointer has escaped into old memory.
func (g *Gen) bumpTokAt(st *State, target *Term, valPtr bool) {
	n := g.sym("tok")
	g.declare(n, SInt)
	nt := Term{S: n, Sort: SInt}
	fn := g.sym("ftok")
	g.declare(fn, SInt)
	st.ftok = Term{S: fn, Sort: SInt}
	if st.esc.S == "" {
		st.esc = boolLit(false)
	}
	if target == nil {
		st.tok = nt
		if valPtr {
			st.esc = boolLit(true)
		}
		return
	}
	fresh := tCmp(">=", *target, g.entryW)
	st.tok = g.name("tok", tIte(tAnd(fresh, tNot(st.esc)), st.tok, nt))
	if valPtr {
		st.esc = g.name("esc", tOr(st.esc, tNot(fresh)))
	}
}

func (g *Gen) havocAll(st *State) {
	st.heap = map[string]Term{}
	st.ep = g.newEpoch()
	g.bumpTokAt(st, nil, true)
	w := g.sym("W")
	g.declare(w, SInt)
	nw := Term{S: w, Sort: SInt}
	g.assume(boolLit(true), tCmp(">=", nw, st.W))
	st.W = nw
	g.assumeGlobalInvs(st)
}

// assumeGlobalInvs: package invariants over globals hold in every state (they are established by the
// package initialiser, which is verified, and the globals they mention are written nowhere else — scanned).
func (g *Gen) assumeGlobalInvs(st *State) {
	if g.ctx.specs == nil || g.skipInvs {
		return
	}
	for _, inv := range g.ctx.specs.Invs {
		p := g.ctx.typPkgs[inv.Pkg]
		if p == nil {
			continue
		}
		ev := &Eval{g: g, st: st, vars: map[string]Val{}, pkg: p.Types}
		t, err := ev.evalBool(inv.Expr)
		if err != nil {
			g.specErrs = append(g.specErrs, fmt.Sprintf("invariant %q: %v", inv.Text, err))
			continue
		}
		g.assume(st.cond, t)
		g.usedInvs[inv.Pkg+": "+inv.Text] = true
	}
}

// mergeStates joins predecessor states; conds are the edge conditions.
func (g *Gen) mergeStates(sts []*State) *State {
	if len(sts) == 1 {
		return sts[0].clone()
	}
	var conds []Term
	for _, s := range sts {
		conds = append(conds, s.cond)
	}
	out := &State{heap: map[string]Term{}}
	out.cond = g.name("c", tOr(conds...))
	// epochs
	same := true
	for _, s := range sts[1:] {
		if s.ep != sts[0].ep {
			same = false
		}
	}
	if same {
		out.ep = sts[0].ep
	} else {
		e := g.newEpoch()
		for _, s := range sts {
			e.parents = append(e.parents, s.ep)
			e.conds = append(e.conds, s.cond)
		}
		out.ep = e
	}
	keys := map[string]bool{}
	for _, s := range sts {
		for k := range s.heap {
			keys[k] = true
		}
	}
	var ks []string
	for k := range keys {
		ks = append(ks, k)
	}
	sort.Strings(ks)
	for _, k := range ks {
		// sort of the array: take from any state that has it
		var srt string
		for _, s := range sts {
			if t, ok := s.heap[k]; ok {
				srt = t.Sort
				break
			}
		}
		t := g.heapGet(sts[len(sts)-1], k, srt)
		allSame := true
		for i := len(sts) - 2; i >= 0; i-- {
			ti := g.heapGet(sts[i], k, srt)
			if ti.S != t.S {
				allSame = false
			}
			t = tIte(sts[i].cond, ti, t)
		}
		if allSame && same {
			out.heap[k] = g.heapGet(sts[0], k, srt)
		} else {
			out.heap[k] = g.name("Hj_"+k, t)
		}
	}
	out.W = sts[len(sts)-1].W
	out.tok = sts[len(sts)-1].tok
	out.ftok = sts[len(sts)-1].ftok
	out.esc = sts[len(sts)-1].esc
	for i := len(sts) - 2; i >= 0; i-- {
		out.W = tIte(sts[i].cond, sts[i].W, out.W)
		out.tok = tIte(sts[i].cond, sts[i].tok, out.tok)
		out.ftok = tIte(sts[i].cond, sts[i].ftok, out.ftok)
		out.esc = tIte(sts[i].cond, sts[i].esc, out.esc)
	}
	out.W = g.name("W", out.W)
	out.tok = g.name("tok", out.tok)
	out.ftok = g.name("ftok", out.ftok)
	out.esc = g.name("esc", out.esc)
	out.called = map[string]Term{}
	ck := map[string]bool{}
	for _, s := range sts {
		for k := range s.called {
			ck[k] = true
		}
	}
	for k := range ck {
		get := func(s *State) Term {
			if t, ok := s.called[k]; ok {
				return t
			}
			return boolLit(false)
		}
		t := get(sts[len(sts)-1])
		for i := len(sts) - 2; i >= 0; i-- {
			t = tIte(sts[i].cond, get(sts[i]), t)
		}
		out.called[k] = g.name("called", t)
	}
	return out
}

// ---------------------------------------------------------------- memory access

// leafKeys: heap keys (with sorts) that hold the value of type t stored at an address.
type leafRef struct {
	Key  string // without comp suffix
	Off  int64  // address offset from the base address
	Typ  types.Type
	Comp []Comp
}

func leaves(t types.Type, off int64, out *[]leafRef) {
	switch u := under(t).(type) {
	case *types.Struct:
		for i := 0; i < u.NumFields(); i++ {
			ft := u.Field(i).Type()
			if isAggregate(ft) {
				leaves(ft, off+fieldOffset(u, i), out)
			} else {
				*out = append(*out, leafRef{Key: fieldKey(t, i), Off: off, Typ: ft, Comp: layout(ft)})
			}
		}
	case *types.Array:
		cs := cellSize(u.Elem())
		if u.Len() > 64 {
			return
		}
		for j := int64(0); j < u.Len(); j++ {
			leaves(u.Elem(), off+j*cs, out)
		}
	default:
		*out = append(*out, leafRef{Key: elemKey(t), Off: off, Typ: t, Comp: layout(t)})
	}
}

func compKey(key string, i int) string { return fmt.Sprintf("%s|%d", key, i) }

func (g *Gen) loadLeaf(st *State, key string, addr Term, t types.Type) Val {
	ly := layout(t)
	v := Val{Typ: t, Comps: make([]Term, len(ly))}
	for i, c := range ly {
		g.keyKind[compKey(key, i)] = c.Kind
		arr := g.heapGet(st, compKey(key, i), arrSort(c.Sort))
		v.Comps[i] = g.typedLoad(tSelect(arr, addr, c.Sort), c)
	}
	g.assumeWF(st, v)
	return v
}

func (g *Gen) storeLeaf(st *State, key string, addr Term, v Val) {
	ly := layout(v.Typ)
	for i, c := range ly {
		g.keyKind[compKey(key, i)] = c.Kind
		arr := g.heapGet(st, compKey(key, i), arrSort(c.Sort))
		g.heapSet(st, compKey(key, i), tStore(arr, addr, v.Comps[i]))
	}
}

// loadVal reads a value of type t stored at address addr.
func (g *Gen) loadVal(st *State, addr Term, t types.Type) Val {
	switch u := under(t).(type) {
	case *types.Struct:
		v := Val{Typ: t}
		for i := 0; i < u.NumFields(); i++ {
			ft := u.Field(i).Type()
			var fv Val
			if isAggregate(ft) {
				fv = g.loadVal(st, tAdd(addr, intLit(fieldOffset(u, i))), ft)
			} else {
				fv = g.loadLeaf(st, fieldKey(t, i), addr, ft)
			}
			v.Comps = append(v.Comps, fv.Comps...)
		}
		return v
	case *types.Array:
		ely := layout(u.Elem())
		cs := cellSize(u.Elem())
		v := Val{Typ: t}
		arrs := make([]Term, len(ely))
		for k, c := range ely {
			n := g.sym("arrv")
			g.declare(n, arrSort(c.Sort))
			arrs[k] = Term{S: n, Sort: arrSort(c.Sort)}
		}
		if u.Len() <= 64 {
			for j := int64(0); j < u.Len(); j++ {
				ev := g.loadVal(st, tAdd(addr, intLit(j*cs)), u.Elem())
				for k := range ely {
					g.assume(boolLit(true), tEq(tSelect(arrs[k], intLit(j), ely[k].Sort), ev.Comps[k]))
				}
			}
		} else {
			g.note("large array load abstracted")
		}
		v.Comps = arrs
		return v
	}
	return g.loadLeaf(st, elemKey(t), addr, t)
}

func (g *Gen) storeVal(st *State, addr Term, v Val) {
	t := v.Typ
	switch u := under(t).(type) {
	case *types.Struct:
		k := 0
		for i := 0; i < u.NumFields(); i++ {
			ft := u.Field(i).Type()
			n := ncomps(ft)
			fv := Val{Typ: ft, Comps: v.Comps[k : k+n]}
			k += n
			if isAggregate(ft) {
				g.storeVal(st, tAdd(addr, intLit(fieldOffset(u, i))), fv)
			} else {
				g.storeLeaf(st, fieldKey(t, i), addr, fv)
			}
		}
		return
	case *types.Array:
		ely := layout(u.Elem())
		cs := cellSize(u.Elem())
		if u.Len() <= 64 {
			for j := int64(0); j < u.Len(); j++ {
				ev := Val{Typ: u.Elem()}
				for k := range ely {
					ev.Comps = append(ev.Comps, tSelect(v.Comps[k], intLit(j), ely[k].Sort))
				}
				g.storeVal(st, tAdd(addr, intLit(j*cs)), ev)
			}
		} else {
			g.note("large array store abstracted (havoc)")
			var ls []leafRef
			leaves(u.Elem(), 0, &ls)
			for _, l := range ls {
				for i, c := range l.Comp {
					n := g.sym("Hh")
					g.declare(n, arrSort(c.Sort))
					st.heap[compKey(l.Key, i)] = Term{S: n, Sort: arrSort(c.Sort)}
				}
			}
		}
		return
	}
	g.storeLeaf(st, elemKey(t), addr, v)
}

// zeroVal: the zero value of a type.
func (g *Gen) zeroVal(t types.Type) Val {
	ly := layout(t)
	v := Val{Typ: t, Comps: make([]Term, len(ly))}
	for i, c := range ly {
		v.Comps[i] = zeroComp(c)
	}
	return v
}

func zeroComp(c Comp) Term {
	switch c.Sort {
	case SInt:
		return intLit(0)
	case SBool:
		return boolLit(false)
	case SReal:
		return raw("0.0", SReal)
	}
	if c.Kind == KArray {
		es := elemSortOf(c.Sort)
		var z string
		switch es {
		case SInt:
			z = "0"
		case SBool:
			z = "false"
		case SReal:
			z = "0.0"
		default:
			// nested array: the zero value of the inner array sort, recursively
			inner := zeroComp(Comp{Sort: es, Kind: KArray})
			return raw(fmt.Sprintf("((as const %s) %s)", c.Sort, inner.S), c.Sort)
		}
		return raw(fmt.Sprintf("((as const %s) %s)", c.Sort, z), c.Sort)
	}
	panic("zeroComp: " + c.Sort)
}

// alloc: allocate cells, returns the address.
func (g *Gen) alloc(st *State, cells Term) Term {
	addr := g.name("addr", st.W)
	addr.Lo = big.NewInt(1)
	st.W = g.name("W", tAdd(st.W, tAdd(cells, intLit(1))))
	return addr
}

func (g *Gen) allocZero(st *State, t types.Type) Term {
	addr := g.alloc(st, intLit(cellSize(t)))
	g.storeVal(st, addr, g.zeroVal(t))
	return addr
}

// ---------------------------------------------------------------- obligations

func (g *Gen) oblige(st *State, kind string, pos token.Pos, src string, goal Term) {
	if goal.isTrue() {
		return
	}
	if runtimeCheck[kind] && !st.cond.isFalse() && g.topC != nil && g.topC.AssumeChecks {
		// the run-time check of the Go statement itself: where it fails the execution panics and does not get
		// any further, so what follows on this path holds the checked condition (whether or not the check is
		// one of the claimed obligations)
		defer g.assume(st.cond, goal)
	}
	if g.muteObl > 0 {
		return
	}
	autoInv := (kind == "inv-init" || kind == "inv-keep") && strings.HasSuffix(src, "(auto)")
	if g.topC != nil && g.topC.Claims != nil && !g.topC.Claims[kind] && !autoInv {
		// (inferred invariants are assumed at the loop head: they are always obligations, whatever the contract
		// claims - an unclaimed, unproved candidate would be an assumption nobody checked)
		g.notes["obligation kind not claimed for "+shortKey(g.topC.Key)+": "+kind] = true
		return
	}
	if st.cond.isFalse() {
		return
	}
	g.kindCount[kind]++
	p := ""
	if pos.IsValid() {
		pp := g.ctx.fset.Position(pos)
		p = fmt.Sprintf("%s:%d", pp.Filename, pp.Line)
	}
	fnName := g.lemmaKey
	if g.top != nil {
		fnName = g.ctx.funcKey(g.top)
	}
	name := fmt.Sprintf("%s#%s[%d]{%s}", fnName, kind, g.kindCount[kind], src)
	g.obls = append(g.obls, &Obligation{Name: name, Kind: kind, Fn: fnName, Pos: p, Src: src,
		Cond: st.cond, Goal: goal, PreludeLen: len(g.lines)})
}

// obligation kinds that are the run-time checks of Go statements (index/slice bounds, nil dereference, division by
// zero, make with a negative size, a failing single-value type assertion)
var runtimeCheck = map[string]bool{"bounds": true, "nil": true, "div0": true, "make": true, "assert": true}

func (g *Gen) srcText(pos token.Pos, end token.Pos) string {
	return g.ctx.srcText(pos, end)
}
