package main

// Program context: package loading from /repo's working tree, SSA, function keys, source text.

import (
	"fmt"
	"go/ast"
	"go/token"
	"go/types"
	"os"
	"sort"
	"strings"

	"golang.org/x/tools/go/packages"
	"golang.org/x/tools/go/ssa"
	"golang.org/x/tools/go/ssa/ssautil"
)

const modPath = "github.com/osrg/gobgp/v4"

type Ctx struct {
	repo      string
	fset      *token.FileSet
	pkgs      []*packages.Package
	prog      *ssa.Program
	ssaPkgs   map[string]*ssa.Package // by import path
	typPkgs   map[string]*packages.Package
	contracts map[string]*Contract // by full key "<pkgpath>.<FuncRel>"
	specs     *SpecSet
	files     map[string][]byte
	nodeIdx   map[*ssa.Function]map[token.Pos]ast.Node
	funcs     map[string]*ssa.Function
	loadS     float64
	mkIface   map[string]map[string]bool
}

func loadCtx(repo string, patterns []string) (*Ctx, error) {
	cfg := &packages.Config{Mode: packages.LoadAllSyntax, Dir: repo, Env: append(os.Environ(), "GOFLAGS=-mod=mod", "GOPROXY=off"), BuildFlags: []string{"-tags=verif"}}
	pkgs, err := packages.Load(cfg, patterns...)
	if err != nil {
		return nil, err
	}
	nerr := 0
	packages.Visit(pkgs, nil, func(p *packages.Package) {
		for _, e := range p.Errors {
			if nerr < 10 {
				fmt.Fprintf(os.Stderr, "load error: %v\n", e)
			}
			nerr++
		}
	})
	if nerr > 0 {
		return nil, fmt.Errorf("%d package load errors", nerr)
	}
	prog, _ := ssautil.AllPackages(pkgs, ssa.GlobalDebug|ssa.InstantiateGenerics)
	prog.Build()
	c := &Ctx{repo: repo, fset: prog.Fset, pkgs: pkgs, prog: prog, ssaPkgs: map[string]*ssa.Package{},
		typPkgs: map[string]*packages.Package{}, contracts: map[string]*Contract{}, files: map[string][]byte{},
		nodeIdx: map[*ssa.Function]map[token.Pos]ast.Node{}, funcs: map[string]*ssa.Function{}}
	packages.Visit(pkgs, nil, func(p *packages.Package) {
		c.typPkgs[p.PkgPath] = p
		if sp := prog.Package(p.Types); sp != nil {
			c.ssaPkgs[p.PkgPath] = sp
		}
	})
	return c, nil
}

// funcKey: "<pkgpath>.<RelString>", e.g. ".../rtr.(*RTRCommon).DecodeFromBytes", ".../table.(*destination).insertSort$1"
func (c *Ctx) funcKey(fn *ssa.Function) string {
	if fn.Pkg != nil {
		return fn.Pkg.Pkg.Path() + "." + fn.RelString(fn.Pkg.Pkg)
	}
	if p := fn.Parent(); p != nil {
		return c.funcKey(p) + strings.TrimPrefix(fn.Name(), p.Name())
	}
	if fn.Object() != nil && fn.Object().Pkg() != nil {
		return fn.Object().Pkg().Path() + "." + fn.RelString(fn.Object().Pkg())
	}
	return fn.String()
}

func shortKey(k string) string { return strings.TrimPrefix(k, modPath+"/") }

// lookupFunc finds an SSA function by key.
func (c *Ctx) lookupFunc(key string) *ssa.Function {
	if f, ok := c.funcs[key]; ok {
		return f
	}
	if len(c.funcs) == 0 {
		for fn := range ssautil.AllFunctions(c.prog) {
			if fn.Synthetic != "" && fn.Parent() == nil && !strings.Contains(fn.Synthetic, "wrapper") {
				// keep instantiations etc. but they rarely matter
			}
			k := c.funcKey(fn)
			if _, dup := c.funcs[k]; !dup {
				c.funcs[k] = fn
			}
		}
	}
	return c.funcs[key]
}

func (c *Ctx) fileBytes(name string) []byte {
	if b, ok := c.files[name]; ok {
		return b
	}
	b, _ := os.ReadFile(name)
	c.files[name] = b
	return b
}

func (c *Ctx) srcText(pos, end token.Pos) string {
	if !pos.IsValid() || !end.IsValid() {
		return ""
	}
	p, e := c.fset.Position(pos), c.fset.Position(end)
	b := c.fileBytes(p.Filename)
	if p.Offset < 0 || e.Offset > len(b) || p.Offset >= e.Offset {
		return ""
	}
	s := string(b[p.Offset:e.Offset])
	s = strings.Join(strings.Fields(s), " ")
	if len(s) > 80 {
		s = s[:77] + "..."
	}
	return s
}

// nodeAt returns the source text of the AST node an instruction position belongs to.
func (c *Ctx) nodeText(fn *ssa.Function, pos token.Pos) string {
	if !pos.IsValid() {
		return ""
	}
	root := fn
	for root.Parent() != nil && root.Syntax() == nil {
		root = root.Parent()
	}
	idx, ok := c.nodeIdx[root]
	if !ok {
		idx = map[token.Pos]ast.Node{}
		if syn := root.Syntax(); syn != nil {
			ast.Inspect(syn, func(n ast.Node) bool {
				switch x := n.(type) {
				case *ast.IndexExpr:
					idx[x.Lbrack] = x
				case *ast.SliceExpr:
					idx[x.Lbrack] = x
				case *ast.SelectorExpr:
					if _, dup := idx[x.Sel.Pos()]; !dup {
						idx[x.Sel.Pos()] = x
					}
				case *ast.CallExpr:
					idx[x.Lparen] = x
				case *ast.BinaryExpr:
					idx[x.OpPos] = x
				case *ast.StarExpr:
					idx[x.Star] = x
				case *ast.UnaryExpr:
					idx[x.OpPos] = x
				case *ast.TypeAssertExpr:
					idx[x.Lparen] = x
				case *ast.CompositeLit:
					idx[x.Lbrace] = x
				case *ast.Ident:
					if _, dup := idx[x.Pos()]; !dup {
						idx[x.Pos()] = x
					}
				}
				return true
			})
		}
		c.nodeIdx[root] = idx
	}
	if n, ok := idx[pos]; ok {
		return c.srcText(n.Pos(), n.End())
	}
	// fall back to the source line
	p := c.fset.Position(pos)
	b := c.fileBytes(p.Filename)
	lines := strings.Split(string(b), "\n")
	if p.Line-1 < len(lines) {
		s := strings.TrimSpace(lines[p.Line-1])
		if len(s) > 80 {
			s = s[:77] + "..."
		}
		return s
	}
	return ""
}

// loopOrdinals maps loop headers to their source-order ordinal.
type LoopInfo struct {
	Header   *ssa.BasicBlock
	Body     map[*ssa.BasicBlock]bool
	BackPred map[int]bool // indices into Header.Preds that are back edges
	Ordinal  int
	minPos   token.Pos
}

func findLoops(fn *ssa.Function) map[*ssa.BasicBlock]*LoopInfo {
	loops := map[*ssa.BasicBlock]*LoopInfo{}
	for _, b := range fn.Blocks {
		for _, s := range b.Succs {
			if s.Dominates(b) { // back edge b->s
				li := loops[s]
				if li == nil {
					li = &LoopInfo{Header: s, Body: map[*ssa.BasicBlock]bool{s: true}, BackPred: map[int]bool{}}
					loops[s] = li
				}
				for i, p := range s.Preds {
					if p == b {
						li.BackPred[i] = true
					}
				}
				// natural loop body
				stack := []*ssa.BasicBlock{b}
				for len(stack) > 0 {
					x := stack[len(stack)-1]
					stack = stack[:len(stack)-1]
					if li.Body[x] {
						continue
					}
					li.Body[x] = true
					stack = append(stack, x.Preds...)
				}
			}
		}
	}
	var ls []*LoopInfo
	bodyStart := token.NoPos
	if syn := fn.Syntax(); syn != nil {
		switch d := syn.(type) {
		case *ast.FuncDecl:
			if d.Body != nil {
				bodyStart = d.Body.Lbrace
			}
		case *ast.FuncLit:
			bodyStart = d.Body.Lbrace
		}
	}
	for _, li := range loops {
		for b := range li.Body {
			for _, in := range b.Instrs {
				if _, isPhi := in.(*ssa.Phi); isPhi {
					continue // a phi's position is the variable's declaration
				}
				if p := in.Pos(); p.IsValid() && p > bodyStart && (li.minPos == 0 || p < li.minPos) {
					li.minPos = p
				}
			}
		}
		ls = append(ls, li)
	}
	sort.Slice(ls, func(i, j int) bool {
		if ls[i].minPos != ls[j].minPos {
			return ls[i].minPos < ls[j].minPos
		}
		if len(ls[i].Body) != len(ls[j].Body) {
			return len(ls[i].Body) > len(ls[j].Body)
		}
		return ls[i].Header.Index < ls[j].Header.Index
	})
	for i, li := range ls {
		li.Ordinal = i
	}
	return loops
}

// scopeLookup resolves a name visible at pos inside fn to its types.Object.
func (c *Ctx) scopeLookup(fn *ssa.Function, pos token.Pos, name string) types.Object {
	var pkg *types.Package
	f := fn
	for f != nil && f.Pkg == nil {
		f = f.Parent()
	}
	if f != nil && f.Pkg != nil {
		pkg = f.Pkg.Pkg
	}
	if pkg == nil {
		return nil
	}
	if pos.IsValid() {
		if inner := pkg.Scope().Innermost(pos); inner != nil {
			if _, o := inner.LookupParent(name, pos); o != nil {
				return o
			}
		}
	}
	if o := pkg.Scope().Lookup(name); o != nil {
		return o
	}
	if o := types.Universe.Lookup(name); o != nil {
		return o
	}
	return nil
}

func pkgOf(fn *ssa.Function) *types.Package {
	f := fn
	for f != nil && f.Pkg == nil {
		f = f.Parent()
	}
	if f != nil && f.Pkg != nil {
		return f.Pkg.Pkg
	}
	if fn.Object() != nil {
		return fn.Object().Pkg()
	}
	return nil
}
