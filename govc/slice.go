package main

import (
	"os"
	"strings"
)

// Path-condition slicing of a query.
//
// Every assumption the generator emits is guarded by the path condition of the state it was made in:
// `(assert (=> c_M fact))`, with `(define-fun c_M () Bool (and c_P lit))` for a branch taken under c_P.  An
// obligation holds under its own path condition; a guard whose chain of branch literals contains the negation of
// a literal in the obligation's chain is false there, so the guarded assertion is `true` and can be left out of
// the query without changing its meaning (it is not a relaxation: the two scripts are equivalent).  This keeps the
// facts of the code after a loop, or of the other arm of a branch, away from the solver's quantifier
// instantiation when an obligation of the loop body is decided.

// splitTop splits the arguments of an s-expression body "a (b c) d" at top level.
func splitTop(s string) []string {
	var out []string
	depth, start := 0, -1
	for i := 0; i < len(s); i++ {
		switch s[i] {
		case '(':
			if depth == 0 && start < 0 {
				start = i
			}
			depth++
		case ')':
			depth--
			if depth == 0 && start >= 0 {
				out = append(out, s[start:i+1])
				start = -1
			}
		case ' ', '\n', '\t':
			if depth == 0 && start >= 0 {
				out = append(out, s[start:i])
				start = -1
			}
		default:
			if depth == 0 && start < 0 {
				start = i
			}
		}
	}
	if start >= 0 {
		out = append(out, s[start:])
	}
	return out
}

func isCondName(s string) bool {
	return strings.HasPrefix(s, "c_") && !strings.ContainsAny(s, " ()")
}

func negLit(l string) string {
	if strings.HasPrefix(l, "(not ") && strings.HasSuffix(l, ")") {
		return strings.TrimSpace(l[5 : len(l)-1])
	}
	return "(not " + l + ")"
}

type condDefs map[string][]string // c_N -> conjuncts of its definition

func collectCondDefs(lines []string) condDefs {
	defs := condDefs{}
	for _, l := range lines {
		if !strings.HasPrefix(l, "(define-fun c_") {
			continue
		}
		rest := l[len("(define-fun "):]
		sp := strings.IndexByte(rest, ' ')
		if sp < 0 {
			continue
		}
		name := rest[:sp]
		rest = strings.TrimSpace(rest[sp:])
		if !strings.HasPrefix(rest, "() Bool ") || !strings.HasSuffix(rest, ")") {
			continue
		}
		body := strings.TrimSpace(rest[len("() Bool ") : len(rest)-1])
		defs[name] = conjuncts(body)
	}
	return defs
}

func conjuncts(body string) []string {
	if strings.HasPrefix(body, "(and ") && strings.HasSuffix(body, ")") {
		return splitTop(body[5 : len(body)-1])
	}
	return []string{body}
}

// literals implied by a condition term: its conjuncts, transitively through condition names.
func (d condDefs) implied(term string, into map[string]bool, depth int) {
	if depth > 10000 {
		return
	}
	for _, c := range conjuncts(term) {
		if isCondName(c) {
			if def, ok := d[c]; ok {
				for _, x := range def {
					d.implied(x, into, depth+1)
				}
			}
			continue
		}
		if strings.HasPrefix(c, "(and ") {
			d.implied(c, into, depth+1)
			continue
		}
		into[c] = true
	}
}

// sliceLines drops the guarded assertions whose guard is false under cond.
func sliceLines(lines []string, cond string) []string {
	if cond == "true" || cond == "" || os.Getenv("GOVC_NOSLICE") != "" {
		return lines
	}
	defs := collectCondDefs(lines)
	if len(defs) == 0 {
		return lines
	}
	have := map[string]bool{}
	defs.implied(cond, have, 0)
	if len(have) == 0 {
		return lines
	}
	dead := map[string]bool{}
	alive := map[string]bool{}
	isDead := func(name string) bool {
		if dead[name] {
			return true
		}
		if alive[name] {
			return false
		}
		lits := map[string]bool{}
		defs.implied(name, lits, 0)
		for l := range lits {
			if have[negLit(l)] {
				dead[name] = true
				return true
			}
		}
		alive[name] = true
		return false
	}
	out := make([]string, 0, len(lines))
	for _, l := range lines {
		if strings.HasPrefix(l, "(assert (=> c_") {
			rest := l[len("(assert (=> "):]
			if sp := strings.IndexByte(rest, ' '); sp > 0 && isCondName(rest[:sp]) && isDead(rest[:sp]) {
				continue
			}
		}
		out = append(out, l)
	}
	return out
}
