package main

// Integer operator encodings without bit-vectors.

import (
	"go/token"
	"go/types"
	"math/big"
)

// maskRuns decomposes a non-negative constant mask into contiguous runs of set bits.
func maskRuns(m *big.Int) [][2]uint {
	var runs [][2]uint
	n := uint(m.BitLen())
	i := uint(0)
	for i < n {
		if m.Bit(int(i)) == 1 {
			j := i
			for j < n && m.Bit(int(j)) == 1 {
				j++
			}
			runs = append(runs, [2]uint{i, j - i})
			i = j
		} else {
			i++
		}
	}
	return runs
}

// andConst: x & m for constant m >= 0 and x >= 0.
func andConst(x Term, m *big.Int) Term {
	if m.Sign() == 0 {
		return intLit(0)
	}
	r := intLit(0)
	for _, run := range maskRuns(m) {
		lo, ln := run[0], run[1]
		part := tModE(tDivE(x, bigLit(pow2(lo))), bigLit(pow2(ln)))
		r = tAdd(r, tMul(part, bigLit(pow2(lo))))
	}
	hi := new(big.Int).Set(m)
	if x.Hi != nil && x.Hi.Cmp(hi) < 0 {
		hi = x.Hi
	}
	r.Lo, r.Hi = big.NewInt(0), hi
	return r
}

func nonNeg(t Term) bool { return t.Lo != nil && t.Lo.Sign() >= 0 }

func (g *Gen) bitAnd(a, b Term) Term {
	if c, ok := b.isConst(); ok && c.Sign() >= 0 && nonNeg(a) {
		return andConst(a, c)
	}
	if c, ok := a.isConst(); ok && c.Sign() >= 0 && nonNeg(b) {
		return andConst(b, c)
	}
	// disjoint bit ranges: one operand is a multiple of 2^k and the other is below 2^k
	if nonNeg(a) && nonNeg(b) {
		if b.Hi != nil && uint(b.Hi.BitLen()) <= termPow2(a) {
			return intLit(0)
		}
		if a.Hi != nil && uint(a.Hi.BitLen()) <= termPow2(b) {
			return intLit(0)
		}
	}
	r := app("band", SInt, a, b)
	if g.noName == 0 && nonNeg(a) && nonNeg(b) {
		r = g.name("band", r)
		g.emit("(assert (and (>= " + r.S + " 0) (<= " + r.S + " " + a.S + ") (<= " + r.S + " " + b.S + ")))")
		r.Lo = big.NewInt(0)
		if a.Hi != nil {
			r.Hi = a.Hi
		}
		if b.Hi != nil && (r.Hi == nil || b.Hi.Cmp(r.Hi) < 0) {
			r.Hi = b.Hi
		}
	}
	return r
}

func (g *Gen) bitOr(a, b Term) Term {
	// a | b = a + b - (a & b)
	r := tSub(tAdd(a, b), g.bitAnd(a, b))
	if nonNeg(a) && nonNeg(b) && a.Hi != nil && b.Hi != nil {
		// result < 2^max(bitlen)
		n := a.Hi.BitLen()
		if b.Hi.BitLen() > n {
			n = b.Hi.BitLen()
		}
		r.Lo = big.NewInt(0)
		r.Hi = new(big.Int).Sub(pow2(uint(n)), bigOne)
	}
	return r
}

func (g *Gen) bitXor(a, b Term) Term {
	r := tSub(tAdd(a, b), tMul(intLit(2), g.bitAnd(a, b)))
	if nonNeg(a) && nonNeg(b) && a.Hi != nil && b.Hi != nil {
		n := a.Hi.BitLen()
		if b.Hi.BitLen() > n {
			n = b.Hi.BitLen()
		}
		r.Lo = big.NewInt(0)
		r.Hi = new(big.Int).Sub(pow2(uint(n)), bigOne)
	}
	return r
}

func (g *Gen) bitAndNot(a, b Term) Term {
	r := tSub(a, g.bitAnd(a, b))
	if nonNeg(a) {
		r.Lo = big.NewInt(0)
		r.Hi = a.Hi
	}
	return r
}

// truncating division / remainder (Go semantics) for possibly negative operands
func tQuo(a, b Term) Term {
	if nonNeg(a) && b.Lo != nil && b.Lo.Sign() > 0 {
		return tDivE(a, b)
	}
	if nonNeg(a) && nonNeg(b) {
		return tDivE(a, b)
	}
	na, nb := tNeg(a), tNeg(b)
	return tIte(tCmp(">=", a, intLit(0)),
		tIte(tCmp(">", b, intLit(0)), app("div", SInt, a, b), tNeg(app("div", SInt, a, nb))),
		tIte(tCmp(">", b, intLit(0)), tNeg(app("div", SInt, na, b)), app("div", SInt, na, nb)))
}

func tRem(a, b Term) Term {
	if nonNeg(a) && nonNeg(b) {
		return tModE(a, b)
	}
	return tSub(a, tMul(b, tQuo(a, b)))
}

func wrapTo(x Term, t types.Type) Term {
	b, ok := isIntType(t)
	if !ok {
		return x
	}
	bits, signed := intBits(b)
	if bits == 0 {
		return x
	}
	if signed {
		return wrapSigned(x, bits)
	}
	return wrapUnsigned(x, bits)
}

// shift helpers
func (g *Gen) shl(a, b Term, t types.Type) Term {
	if c, ok := b.isConst(); ok && c.IsInt64() && c.Int64() >= 0 && c.Int64() < 256 {
		return wrapTo(tMul(a, bigLit(pow2(uint(c.Int64())))), t)
	}
	if b.Lo != nil && b.Hi != nil && b.Lo.Sign() >= 0 && b.Hi.Cmp(big.NewInt(64)) <= 0 {
		var r Term
		hi := int(b.Hi.Int64())
		r = wrapTo(tMul(a, bigLit(pow2(uint(hi)))), t)
		for k := hi - 1; k >= int(b.Lo.Int64()); k-- {
			r = tIte(tEq(b, intLit(int64(k))), wrapTo(tMul(a, bigLit(pow2(uint(k)))), t), r)
		}
		return r
	}
	g.declareFun("ushl", []string{SInt, SInt}, SInt)
	return wrapTo(app("ushl", SInt, a, b), t)
}

func (g *Gen) shr(a, b Term, t types.Type) Term {
	if c, ok := b.isConst(); ok && c.IsInt64() && c.Int64() >= 0 && c.Int64() < 256 {
		return tDivE(a, bigLit(pow2(uint(c.Int64()))))
	}
	if b.Lo != nil && b.Hi != nil && b.Lo.Sign() >= 0 && b.Hi.Cmp(big.NewInt(64)) <= 0 {
		hi := int(b.Hi.Int64())
		r := tDivE(a, bigLit(pow2(uint(hi))))
		for k := hi - 1; k >= int(b.Lo.Int64()); k-- {
			r = tIte(tEq(b, intLit(int64(k))), tDivE(a, bigLit(pow2(uint(k)))), r)
		}
		return r
	}
	g.declareFun("ushr", []string{SInt, SInt}, SInt)
	r := app("ushr", SInt, a, b)
	if nonNeg(a) {
		r = g.name("shr", r)
		g.emit("(assert (and (>= " + r.S + " 0) (<= " + r.S + " " + a.S + ")))")
		r.Lo, r.Hi = big.NewInt(0), a.Hi
	}
	return r
}

func (g *Gen) intBinOp(op token.Token, a, b Term, t types.Type) (Term, bool) {
	if g.topC != nil && g.topC.MathInt && (op == token.ADD || op == token.SUB) {
		if bt, ok := t.Underlying().(*types.Basic); ok && bt.Kind() == types.Int {
			g.usedTrusted["machine arithmetic: + and - on int treated as mathematical (math-int) in "+shortKey(g.topC.Key)] = true
			if op == token.ADD {
				return tAdd(a, b), true
			}
			return tSub(a, b), true
		}
	}
	switch op {
	case token.ADD:
		return wrapTo(tAdd(a, b), t), true
	case token.SUB:
		return wrapTo(tSub(a, b), t), true
	case token.MUL:
		return wrapTo(tMul(a, b), t), true
	case token.QUO:
		return wrapTo(tQuo(a, b), t), true
	case token.REM:
		return tRem(a, b), true
	case token.AND:
		return g.bitAnd(a, b), true
	case token.OR:
		return g.bitOr(a, b), true
	case token.XOR:
		return g.bitXor(a, b), true
	case token.AND_NOT:
		return g.bitAndNot(a, b), true
	case token.SHL:
		return g.shl(a, b, t), true
	case token.SHR:
		return g.shr(a, b, t), true
	}
	return Term{}, false
}
