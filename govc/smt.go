package main

// SMT term layer: terms are s-expression strings with a sort and (for Int) optional
// syntactic bounds used to omit wrap-around where the interval analysis proves it.

import (
	"fmt"
	"math/big"
	"strings"
)

type Term struct {
	S    string
	Sort string   // "Int", "Bool", "Real", "(Array Int Int)", ...
	Lo   *big.Int // optional inclusive bounds for Int terms
	Hi   *big.Int
	Pow2 uint // known number of trailing zero bits (value is a multiple of 2^Pow2)
}

const (
	SInt  = "Int"
	SBool = "Bool"
	SReal = "Real"
)

func arrSort(elem string) string { return "(Array Int " + elem + ")" }

var (
	bigZero = big.NewInt(0)
	bigOne  = big.NewInt(1)
)

func pow2(n uint) *big.Int { return new(big.Int).Lsh(bigOne, n) }

func intLit(n int64) Term { return bigLit(big.NewInt(n)) }

func bigLit(n *big.Int) Term {
	var s string
	if n.Sign() < 0 {
		s = "(- " + new(big.Int).Neg(n).String() + ")"
	} else {
		s = n.String()
	}
	return Term{S: s, Sort: SInt, Lo: new(big.Int).Set(n), Hi: new(big.Int).Set(n)}
}

func boolLit(b bool) Term {
	if b {
		return Term{S: "true", Sort: SBool}
	}
	return Term{S: "false", Sort: SBool}
}

func (t Term) isConst() (*big.Int, bool) {
	if t.Sort == SInt && t.Lo != nil && t.Hi != nil && t.Lo.Cmp(t.Hi) == 0 {
		return t.Lo, true
	}
	return nil, false
}

func (t Term) isTrue() bool  { return t.S == "true" }
func (t Term) isFalse() bool { return t.S == "false" }

func withBounds(t Term, lo, hi *big.Int) Term {
	t.Lo, t.Hi = lo, hi
	return t
}

func raw(s, sort string) Term { return Term{S: s, Sort: sort} }

func app(op string, sort string, args ...Term) Term {
	var b strings.Builder
	b.WriteString("(")
	b.WriteString(op)
	for _, a := range args {
		b.WriteString(" ")
		b.WriteString(a.S)
	}
	b.WriteString(")")
	return Term{S: b.String(), Sort: sort}
}

func tAdd(a, b Term) Term {
	if ca, ok := a.isConst(); ok {
		if cb, ok := b.isConst(); ok {
			return bigLit(new(big.Int).Add(ca, cb))
		}
		if ca.Sign() == 0 {
			return b
		}
	}
	if cb, ok := b.isConst(); ok && cb.Sign() == 0 {
		return a
	}
	r := app("+", SInt, a, b)
	r.Pow2 = termPow2(a)
	if p := termPow2(b); p < r.Pow2 {
		r.Pow2 = p
	}
	if a.Lo != nil && b.Lo != nil {
		r.Lo = new(big.Int).Add(a.Lo, b.Lo)
	}
	if a.Hi != nil && b.Hi != nil {
		r.Hi = new(big.Int).Add(a.Hi, b.Hi)
	}
	return r
}

func tSub(a, b Term) Term {
	if ca, ok := a.isConst(); ok {
		if cb, ok := b.isConst(); ok {
			return bigLit(new(big.Int).Sub(ca, cb))
		}
	}
	if cb, ok := b.isConst(); ok && cb.Sign() == 0 {
		return a
	}
	r := app("-", SInt, a, b)
	if a.Lo != nil && b.Hi != nil {
		r.Lo = new(big.Int).Sub(a.Lo, b.Hi)
	}
	if a.Hi != nil && b.Lo != nil {
		r.Hi = new(big.Int).Sub(a.Hi, b.Lo)
	}
	return r
}

func tNeg(a Term) Term { return tSub(intLit(0), a) }

func tMul(a, b Term) Term {
	if ca, ok := a.isConst(); ok {
		if cb, ok := b.isConst(); ok {
			return bigLit(new(big.Int).Mul(ca, cb))
		}
		if ca.Cmp(bigOne) == 0 {
			return b
		}
		if ca.Sign() == 0 {
			return intLit(0)
		}
	}
	if cb, ok := b.isConst(); ok {
		if cb.Cmp(bigOne) == 0 {
			return a
		}
		if cb.Sign() == 0 {
			return intLit(0)
		}
	}
	r := app("*", SInt, a, b)
	r.Pow2 = a.Pow2 + b.Pow2
	if ca, ok := a.isConst(); ok && ca.Sign() > 0 {
		r.Pow2 = b.Pow2 + ca.TrailingZeroBits()
	}
	if cb, ok := b.isConst(); ok && cb.Sign() > 0 {
		r.Pow2 = a.Pow2 + cb.TrailingZeroBits()
	}
	if a.Lo != nil && a.Hi != nil && b.Lo != nil && b.Hi != nil {
		c := []*big.Int{
			new(big.Int).Mul(a.Lo, b.Lo), new(big.Int).Mul(a.Lo, b.Hi),
			new(big.Int).Mul(a.Hi, b.Lo), new(big.Int).Mul(a.Hi, b.Hi),
		}
		lo, hi := c[0], c[0]
		for _, x := range c[1:] {
			if x.Cmp(lo) < 0 {
				lo = x
			}
			if x.Cmp(hi) > 0 {
				hi = x
			}
		}
		r.Lo, r.Hi = lo, hi
	}
	return r
}

// tDivE / tModE: SMT-LIB euclidean div/mod (used for non-negative operands, or wrap).
func tDivE(a, b Term) Term {
	if ca, ok := a.isConst(); ok {
		if cb, ok := b.isConst(); ok && cb.Sign() > 0 && ca.Sign() >= 0 {
			return bigLit(new(big.Int).Div(ca, cb))
		}
	}
	r := app("div", SInt, a, b)
	if cb, ok := b.isConst(); ok && cb.Sign() > 0 && a.Lo != nil && a.Hi != nil && a.Lo.Sign() >= 0 {
		r.Lo = new(big.Int).Div(a.Lo, cb)
		r.Hi = new(big.Int).Div(a.Hi, cb)
	} else if a.Lo != nil && a.Hi != nil && a.Lo.Sign() >= 0 && b.Lo != nil && b.Lo.Sign() > 0 {
		r.Lo = big.NewInt(0)
		r.Hi = new(big.Int).Set(a.Hi)
	}
	return r
}

func tModE(a, b Term) Term {
	if ca, ok := a.isConst(); ok {
		if cb, ok := b.isConst(); ok && cb.Sign() > 0 {
			return bigLit(new(big.Int).Mod(ca, cb))
		}
	}
	if cb, ok := b.isConst(); ok && cb.Sign() > 0 && a.Lo != nil && a.Hi != nil && a.Lo.Sign() >= 0 && a.Hi.Cmp(cb) < 0 {
		return a // already in range
	}
	r := app("mod", SInt, a, b)
	if cb, ok := b.isConst(); ok && cb.Sign() > 0 {
		if tz := cb.TrailingZeroBits(); a.Pow2 <= tz {
			r.Pow2 = a.Pow2
		} else {
			r.Pow2 = tz
		}
		r.Lo = big.NewInt(0)
		r.Hi = new(big.Int).Sub(cb, bigOne)
		if a.Lo != nil && a.Hi != nil && a.Lo.Sign() >= 0 && a.Hi.Cmp(r.Hi) < 0 {
			r.Hi = new(big.Int).Set(a.Hi)
		}
	} else if b.Hi != nil && b.Lo != nil && b.Lo.Sign() > 0 {
		r.Lo = big.NewInt(0)
		r.Hi = new(big.Int).Sub(b.Hi, bigOne)
	}
	return r
}

func tIte(c, a, b Term) Term {
	if c.isTrue() {
		return a
	}
	if c.isFalse() {
		return b
	}
	if a.S == b.S {
		return a
	}
	r := app("ite", a.Sort, c, a, b)
	if a.Sort == SInt {
		r.Pow2 = termPow2(a)
		if p := termPow2(b); p < r.Pow2 {
			r.Pow2 = p
		}
		if a.Lo != nil && b.Lo != nil {
			if a.Lo.Cmp(b.Lo) < 0 {
				r.Lo = a.Lo
			} else {
				r.Lo = b.Lo
			}
		}
		if a.Hi != nil && b.Hi != nil {
			if a.Hi.Cmp(b.Hi) > 0 {
				r.Hi = a.Hi
			} else {
				r.Hi = b.Hi
			}
		}
	}
	return r
}

func tAnd(ts ...Term) Term {
	var keep []Term
	for _, t := range ts {
		if t.isFalse() {
			return boolLit(false)
		}
		if t.isTrue() {
			continue
		}
		keep = append(keep, t)
	}
	switch len(keep) {
	case 0:
		return boolLit(true)
	case 1:
		return keep[0]
	}
	return app("and", SBool, keep...)
}

func tOr(ts ...Term) Term {
	var keep []Term
	for _, t := range ts {
		if t.isTrue() {
			return boolLit(true)
		}
		if t.isFalse() {
			continue
		}
		keep = append(keep, t)
	}
	switch len(keep) {
	case 0:
		return boolLit(false)
	case 1:
		return keep[0]
	}
	return app("or", SBool, keep...)
}

func tNot(t Term) Term {
	if t.isTrue() {
		return boolLit(false)
	}
	if t.isFalse() {
		return boolLit(true)
	}
	if strings.HasPrefix(t.S, "(not ") {
		return raw(t.S[5:len(t.S)-1], SBool)
	}
	return app("not", SBool, t)
}

func tImp(a, b Term) Term {
	if a.isTrue() {
		return b
	}
	if a.isFalse() || b.isTrue() {
		return boolLit(true)
	}
	return app("=>", SBool, a, b)
}

func tEq(a, b Term) Term {
	if a.S == b.S {
		return boolLit(true)
	}
	if a.Sort == SInt {
		if (a.Lo != nil && b.Hi != nil && a.Lo.Cmp(b.Hi) > 0) || (a.Hi != nil && b.Lo != nil && a.Hi.Cmp(b.Lo) < 0) {
			return boolLit(false)
		}
	}
	if ca, ok := a.isConst(); ok {
		if cb, ok := b.isConst(); ok {
			return boolLit(ca.Cmp(cb) == 0)
		}
	}
	return app("=", SBool, a, b)
}

func tCmp(op string, a, b Term) Term {
	if ca, ok := a.isConst(); ok {
		if cb, ok := b.isConst(); ok {
			c := ca.Cmp(cb)
			switch op {
			case "<":
				return boolLit(c < 0)
			case "<=":
				return boolLit(c <= 0)
			case ">":
				return boolLit(c > 0)
			case ">=":
				return boolLit(c >= 0)
			}
		}
	}
	// interval-decided comparisons
	if a.Sort == SInt {
		switch op {
		case "<":
			if a.Hi != nil && b.Lo != nil && a.Hi.Cmp(b.Lo) < 0 {
				return boolLit(true)
			}
			if a.Lo != nil && b.Hi != nil && a.Lo.Cmp(b.Hi) >= 0 {
				return boolLit(false)
			}
		case "<=":
			if a.Hi != nil && b.Lo != nil && a.Hi.Cmp(b.Lo) <= 0 {
				return boolLit(true)
			}
			if a.Lo != nil && b.Hi != nil && a.Lo.Cmp(b.Hi) > 0 {
				return boolLit(false)
			}
		case ">":
			return tCmp("<", b, a)
		case ">=":
			return tCmp("<=", b, a)
		}
	}
	return app(op, SBool, a, b)
}

func tSelect(arr, idx Term, elemSort string) Term {
	return app("select", elemSort, arr, idx)
}

func tStore(arr, idx, v Term) Term { return app("store", arr.Sort, arr, idx, v) }

func elemSortOf(arr string) string {
	// "(Array Int X)" -> X
	if strings.HasPrefix(arr, "(Array Int ") {
		return arr[len("(Array Int ") : len(arr)-1]
	}
	panic("not an array sort: " + arr)
}

// wrapUnsigned: x mod 2^bits unless bounds prove in range.
func wrapUnsigned(x Term, bits uint) Term {
	m := pow2(bits)
	if x.Lo != nil && x.Hi != nil && x.Lo.Sign() >= 0 && x.Hi.Cmp(m) < 0 {
		return x
	}
	return tModE(x, bigLit(m))
}

// wrapSigned: ((x + 2^(bits-1)) mod 2^bits) - 2^(bits-1) unless in range.
func wrapSigned(x Term, bits uint) Term {
	h := pow2(bits - 1)
	nh := new(big.Int).Neg(h)
	if x.Lo != nil && x.Hi != nil && x.Lo.Cmp(nh) >= 0 && x.Hi.Cmp(h) < 0 {
		return x
	}
	r := tSub(tModE(tAdd(x, bigLit(h)), bigLit(pow2(bits))), bigLit(h))
	r.Lo, r.Hi = nh, new(big.Int).Sub(h, bigOne)
	return r
}

func sanitize(s string) string {
	var b strings.Builder
	for _, r := range s {
		switch {
		case r >= 'a' && r <= 'z', r >= 'A' && r <= 'Z', r >= '0' && r <= '9', r == '_':
			b.WriteRune(r)
		case r == '.', r == '/', r == '*', r == '[', r == ']', r == '(', r == ')', r == ' ', r == '$', r == '-', r == ',':
			b.WriteRune('_')
		default:
			fmt.Fprintf(&b, "u%x", r)
		}
	}
	return b.String()
}

// termPow2: known trailing zero bits of a term (constants: exact; zero: unbounded, capped).
func termPow2(t Term) uint {
	if c, ok := t.isConst(); ok {
		if c.Sign() == 0 {
			return 64
		}
		return c.TrailingZeroBits()
	}
	return t.Pow2
}
