package main

// Symbolic execution of go/ssa functions into a passive, block-predicate VC.

import (
	"fmt"
	"go/constant"
	"go/token"
	"go/types"
	"math/big"
	"sort"
	"strings"

	"golang.org/x/tools/go/ssa"
)

type retSite struct {
	st   *State
	vals []Val
}

type closureInfo struct {
	fn       *ssa.Function
	bindings []Val
}

type deferred struct {
	call  *ssa.Defer
	guard Term
	args  []Val
	fnVal Val
}

type Frame struct {
	g             *Gen
	fn            *ssa.Function
	vals          map[ssa.Value]Val
	parent        *Frame
	depth         int
	entry         *State
	loops         map[*ssa.BasicBlock]*LoopInfo
	closures      map[ssa.Value]*closureInfo
	defers        []deferred
	rets          []retSite
	contract      *Contract
	isTop         bool
	freeVals      map[*ssa.FreeVar]Val
	headerSt      map[*ssa.BasicBlock]*State
	headerDec     map[*ssa.BasicBlock]Term
	preSt         map[*ssa.BasicBlock]*State
	calledAtEntry map[*ssa.BasicBlock]map[string]Term
	prePhi        map[*ssa.BasicBlock]map[*ssa.Phi]Val
	debugVals     map[types.Object][]ssa.Value
	inlineArgs    []Val
	houdini       map[int][]*Clause // extra candidate invariants per loop ordinal (already proved)
	paramClosures map[*ssa.Parameter]*closureInfo
	curCallArgs   []ssa.Value
	curBindings   []Val
	finalVals     map[*ssa.Alloc]Val // value of captured variables that are assigned once, at entry (isFinalCell)
}

// refMatches: d records (as a value, not an address) a reference to the source variable obj / name.
func refMatches(d *ssa.DebugRef, obj types.Object, name string) bool {
	if d.IsAddr {
		return false
	}
	o := debugObj(d)
	if o == nil {
		return false
	}
	if obj != nil {
		return o == obj
	}
	return o.Name() == name
}

// valueOnlyCand: a plain SSA value (not a phi, not a variable cell) may stand for a source variable only where a
// debug reference of that variable to it has been passed - the same value can be assigned to the variable on one
// branch only (`newFamily = rf`), and it dominates places the assignment does not.
func valueOnlyCand(v ssa.Value) bool {
	switch v.(type) {
	case *ssa.Phi, *ssa.Alloc:
		return false
	}
	return true
}

func (g *Gen) newFrame(fn *ssa.Function, parent *Frame) *Frame {
	f := &Frame{g: g, fn: fn, vals: map[ssa.Value]Val{}, parent: parent, closures: map[ssa.Value]*closureInfo{},
		freeVals: map[*ssa.FreeVar]Val{}, headerSt: map[*ssa.BasicBlock]*State{}, headerDec: map[*ssa.BasicBlock]Term{}}
	if parent != nil {
		f.depth = parent.depth + 1
	}
	f.loops = findLoops(fn)
	f.contract = g.ctx.contracts[g.ctx.funcKey(fn)]
	f.debugVals = map[types.Object][]ssa.Value{}
	for _, b := range fn.Blocks {
		for _, in := range b.Instrs {
			if d, ok := in.(*ssa.DebugRef); ok {
				if o := debugObj(d); o != nil {
					f.debugVals[o] = append(f.debugVals[o], d.X)
				}
			}
		}
	}
	return f
}

func debugObj(d *ssa.DebugRef) types.Object {
	// DebugRef.object is unexported; recover it through the identifier and the type info
	return d.Object()
}

// rpo: reverse post-order ignoring back edges.
func rpo(fn *ssa.Function) []*ssa.BasicBlock {
	seen := map[*ssa.BasicBlock]bool{}
	var post []*ssa.BasicBlock
	var dfs func(b *ssa.BasicBlock)
	dfs = func(b *ssa.BasicBlock) {
		seen[b] = true
		for _, s := range b.Succs {
			if s.Dominates(b) {
				continue
			}
			if !seen[s] {
				dfs(s)
			}
		}
		post = append(post, b)
	}
	dfs(fn.Blocks[0])
	for i, j := 0, len(post)-1; i < j; i, j = i+1, j-1 {
		post[i], post[j] = post[j], post[i]
	}
	return post
}

// run executes the function body from the entry state. Results are collected in f.rets.
func (f *Frame) run(entry *State) {
	g := f.g
	fn := f.fn
	if len(fn.Blocks) == 0 {
		return
	}
	f.entry = entry.clone()
	edgeIn := map[*ssa.BasicBlock][]*State{}
	for _, b := range fn.Blocks {
		edgeIn[b] = make([]*State, len(b.Preds))
	}
	setEdge := func(from, to *ssa.BasicBlock, st *State, which int) {
		// which: the occurrence number of `from` among to.Preds to use
		n := 0
		for i, p := range to.Preds {
			if p == from {
				if n == which {
					edgeIn[to][i] = st
					return
				}
				n++
			}
		}
	}
	for _, b := range rpo(fn) {
		var st *State
		li := f.loops[b]
		if b == fn.Blocks[0] && len(b.Preds) == 0 {
			st = entry
		} else if b == fn.Blocks[0] {
			// entry block that is also a loop header: synthesise
			st = entry
		}
		var inStates []*State
		var inIdx []int
		for i := range b.Preds {
			if li != nil && li.BackPred[i] {
				continue
			}
			if s := edgeIn[b][i]; s != nil && !s.cond.isFalse() {
				inStates = append(inStates, s)
				inIdx = append(inIdx, i)
			}
		}
		if st == nil {
			if len(inStates) == 0 {
				continue // unreachable
			}
			st = g.mergeStates(inStates)
		}
		// phis (entry values)
		phiEntry := map[*ssa.Phi]Val{}
		for _, in := range b.Instrs {
			phi, ok := in.(*ssa.Phi)
			if !ok {
				break
			}
			var v Val
			for k := len(inIdx) - 1; k >= 0; k-- {
				ev := f.val(phi.Edges[inIdx[k]], phi.Type())
				if k == len(inIdx)-1 {
					v = ev
				} else {
					v = f.iteVal(inStates[k].cond, ev, v)
				}
			}
			if len(inIdx) == 0 {
				v = g.zeroVal(phi.Type())
			}
			phiEntry[phi] = g.nameVal("phi_"+phi.Comment, v)
		}
		if li != nil {
			f.loopHeader(li, st, phiEntry)
		} else {
			for p, v := range phiEntry {
				f.vals[p] = v
			}
		}
		// instructions
		dead := false
		for _, in := range b.Instrs {
			if _, ok := in.(*ssa.Phi); ok {
				continue
			}
			switch t := in.(type) {
			case *ssa.Jump:
				f.edge(b, b.Succs[0], st, 0, setEdge)
			case *ssa.If:
				c := f.val(t.Cond, tBool).Comps[0]
				s1 := st.clone()
				s1.cond = g.name("c", tAnd(st.cond, c))
				s2 := st.clone()
				s2.cond = g.name("c", tAnd(st.cond, tNot(c)))
				if b.Succs[0] == b.Succs[1] {
					f.edge(b, b.Succs[0], s1, 0, setEdge)
					f.edge(b, b.Succs[1], s2, 1, setEdge)
				} else {
					f.edge(b, b.Succs[0], s1, 0, setEdge)
					f.edge(b, b.Succs[1], s2, 0, setEdge)
				}
			case *ssa.Return:
				var rv []Val
				for i, r := range t.Results {
					rv = append(rv, f.val(r, fn.Signature.Results().At(i).Type()))
				}
				f.checkAtReturn(t, st, rv)
				f.rets = append(f.rets, retSite{st: st, vals: rv})
			case *ssa.Panic:
				if f.g.panicAllowed(f, t, st) {
					// specified behaviour
				} else {
					g.oblige(st, "panic", t.Pos(), g.ctx.nodeText(fn, t.Pos()), boolLit(false))
				}
				dead = true
			default:
				f.instr(in, st)
			}
			if dead {
				break
			}
		}
	}
}

func (f *Frame) edge(from, to *ssa.BasicBlock, st *State, which int, setEdge func(from, to *ssa.BasicBlock, st *State, which int)) {
	if li := f.loops[to]; li != nil && to.Dominates(from) {
		// back edge: find pred index
		n := 0
		for i, p := range to.Preds {
			if p == from {
				if n == which && li.BackPred[i] {
					f.backEdge(li, i, st)
					return
				}
				n++
			}
		}
		return
	}
	// leaving a loop: calls made before the loop was entered count again, and a function called somewhere in
	// the loop body may have been called in an earlier iteration (unknown: a fresh Boolean)
	for _, li := range f.loops {
		if li.Body[from] && !li.Body[to] && f.isTop {
			for _, k := range f.loopCallees(li) {
				if st.called == nil {
					st.called = map[string]Term{}
				}
				n := f.g.sym("maycall")
				f.g.declare(n, SBool)
				if cur, ok := st.called[k]; ok {
					st.called[k] = tOr(cur, raw(n, SBool))
				} else {
					st.called[k] = raw(n, SBool)
				}
			}
		}
		if li.Body[from] && !li.Body[to] {
			if saved := f.calledAtEntry[li.Header]; len(saved) > 0 {
				if st.called == nil {
					st.called = map[string]Term{}
				}
				for k, v := range saved {
					if cur, ok := st.called[k]; ok {
						st.called[k] = tOr(cur, v)
					} else {
						st.called[k] = v
					}
				}
			}
		}
	}
	setEdge(from, to, st, which)
}

// loopCallees: keys of the functions called (statically) somewhere in the body of the loop, in a fixed order.
func (f *Frame) loopCallees(li *LoopInfo) []string {
	seen := map[string]bool{}
	var out []string
	for _, b := range f.fn.Blocks {
		if !li.Body[b] {
			continue
		}
		for _, in := range b.Instrs {
			var c *ssa.CallCommon
			switch x := in.(type) {
			case *ssa.Call:
				c = &x.Call
			case *ssa.Defer:
				c = &x.Call
			case *ssa.Go:
				c = &x.Call
			}
			if c == nil {
				continue
			}
			if callee := c.StaticCallee(); callee != nil {
				k := f.g.ctx.funcKey(callee)
				if !seen[k] {
					seen[k] = true
					out = append(out, k)
				}
			}
		}
	}
	return out
}

func (f *Frame) iteVal(c Term, a, b Val) Val {
	if len(a.Comps) != len(b.Comps) {
		panic(fmt.Sprintf("iteVal shape mismatch %v / %v in %s", a.Typ, b.Typ, f.fn))
	}
	r := Val{Typ: a.Typ, Comps: make([]Term, len(a.Comps))}
	for i := range a.Comps {
		r.Comps[i] = tIte(c, a.Comps[i], b.Comps[i])
	}
	if a.Loc != nil || b.Loc != nil {
		f.g.unsupp("phi of field pointers in " + f.fn.String())
	}
	return r
}

func (g *Gen) unsupp(s string) {
	for _, u := range g.unsupported {
		if u == s {
			return
		}
	}
	g.unsupported = append(g.unsupported, s)
}

// val returns the symbolic value of an SSA value (constants, globals, functions on demand).
func (f *Frame) val(v ssa.Value, want types.Type) Val {
	g := f.g
	if x, ok := f.vals[v]; ok {
		return x
	}
	switch c := v.(type) {
	case *ssa.Const:
		t := c.Type()
		if c.Value == nil {
			return g.zeroVal(t)
		}
		if b, ok := under(t).(*types.Basic); ok {
			switch {
			case b.Info()&types.IsInteger != 0:
				n, _ := new(big.Int).SetString(constant.ToInt(c.Value).ExactString(), 10)
				return Val{Typ: t, Comps: []Term{bigLit(n)}}
			case b.Info()&types.IsBoolean != 0:
				return Val{Typ: t, Comps: []Term{boolLit(constant.BoolVal(c.Value))}}
			case b.Info()&types.IsString != 0:
				return Val{Typ: t, Comps: []Term{g.strLit(constant.StringVal(c.Value))}}
			case b.Info()&types.IsFloat != 0:
				fv, _ := constant.Float64Val(c.Value)
				return Val{Typ: t, Comps: []Term{raw(realLit(fv), SReal)}}
			}
		}
		return g.zeroVal(t)
	case *ssa.Global:
		pp := ""
		if c.Pkg != nil {
			pp = c.Pkg.Pkg.Path()
		}
		addr := g.globalAddrN(pp, c.Name(), c.Type().(*types.Pointer).Elem())
		return Val{Typ: c.Type(), Comps: []Term{addr}}
	case *ssa.Function:
		n := "fn_" + sanitize(c.String())
		if !g.declared[n] {
			g.declare(n, SInt)
			g.emit(fmt.Sprintf("(assert (>= %s 1))", n))
		}
		return Val{Typ: c.Type(), Comps: []Term{{S: n, Sort: SInt, Lo: big.NewInt(1)}}}
	case *ssa.FreeVar:
		if x, ok := f.freeVals[c]; ok {
			return x
		}
		x := g.freshVal("fv_"+c.Name(), c.Type())
		f.freeVals[c] = x
		return x
	case *ssa.Builtin:
		return Val{Typ: c.Type(), Comps: []Term{intLit(1)}}
	}
	// value from an unreachable or not yet executed instruction: havoc
	g.note("use of unevaluated value " + v.Name() + " in " + f.fn.String())
	x := g.freshVal("undef_"+v.Name(), v.Type())
	f.vals[v] = x
	return x
}

func (f *Frame) set(v ssa.Value, x Val) {
	if len(x.Comps) > 0 || x.Loc != nil {
		x = f.g.nameVal(v.Name(), x)
	}
	x.Typ = v.Type()
	f.vals[v] = x
}

func (f *Frame) text(pos token.Pos) string { return f.g.ctx.nodeText(f.fn, pos) }

func (f *Frame) instr(in ssa.Instruction, st *State) {
	g := f.g
	switch t := in.(type) {
	case *ssa.DebugRef:
		return
	case *ssa.Alloc:
		elem := t.Type().(*types.Pointer).Elem()
		addr := g.allocZero(st, elem)
		f.set(t, Val{Comps: []Term{addr}})
	case *ssa.BinOp:
		f.binop(t, st)
	case *ssa.UnOp:
		f.unop(t, st)
	case *ssa.Convert:
		f.convert(t, st)
	case *ssa.ChangeType:
		x := f.val(t.X, t.X.Type())
		f.set(t, Val{Comps: x.Comps, Loc: x.Loc})
	case *ssa.ChangeInterface:
		x := f.val(t.X, t.X.Type())
		f.set(t, Val{Comps: x.Comps})
	case *ssa.MultiConvert:
		f.set(t, g.freshVal(t.Name(), t.Type()))
		g.note("MultiConvert abstracted")
	case *ssa.MakeInterface:
		x := f.val(t.X, t.X.Type())
		f.set(t, g.boxIface(st, x, t.X.Type()))
	case *ssa.TypeAssert:
		f.typeAssert(t, st)
	case *ssa.Extract:
		tup := f.val(t.Tuple, t.Tuple.Type())
		tt := t.Tuple.Type().(*types.Tuple)
		k := 0
		for i := 0; i < t.Index; i++ {
			k += ncomps(tt.At(i).Type())
		}
		n := ncomps(tt.At(t.Index).Type())
		if k+n > len(tup.Comps) {
			f.set(t, g.freshVal(t.Name(), t.Type()))
			return
		}
		f.set(t, Val{Comps: tup.Comps[k : k+n]})
	case *ssa.Field:
		x := f.val(t.X, t.X.Type())
		stt := under(t.X.Type()).(*types.Struct)
		k := 0
		for i := 0; i < t.Field; i++ {
			k += ncomps(stt.Field(i).Type())
		}
		f.set(t, Val{Comps: x.Comps[k : k+ncomps(stt.Field(t.Field).Type())]})
	case *ssa.FieldAddr:
		x := f.val(t.X, t.X.Type())
		pt := under(t.X.Type()).(*types.Pointer)
		stt := under(pt.Elem()).(*types.Struct)
		g.oblige(st, "nil", t.Pos(), f.text(t.Pos()), tNot(tEq(x.Comps[0], intLit(0))))
		ft := stt.Field(t.Field).Type()
		if isAggregate(ft) {
			a := tAdd(x.Comps[0], intLit(fieldOffset(stt, t.Field)))
			a.Lo = big.NewInt(1)
			f.set(t, Val{Comps: []Term{a}})
		} else {
			f.vals[t] = Val{Typ: t.Type(), Loc: &Loc{Key: fieldKey(pt.Elem(), t.Field), Addr: x.Comps[0], Typ: ft}}
		}
	case *ssa.IndexAddr:
		x := f.val(t.X, t.X.Type())
		idx := f.val(t.Index, t.Index.Type()).Comps[0]
		switch u := under(t.X.Type()).(type) {
		case *types.Slice:
			g.oblige(st, "bounds", t.Pos(), f.text(t.Pos()), tAnd(tCmp("<=", intLit(0), idx), tCmp("<", idx, x.Comps[1])))
			a := tAdd(x.Comps[0], tMul(idx, intLit(cellSize(u.Elem()))))
			if g.topC != nil && g.topC.IndexFn {
				// same address, written through the index function the quantified specs use (E-matching aid)
				a = g.idxTerm(x.Comps[0], idx, cellSize(u.Elem()))
			}
			f.set(t, Val{Comps: []Term{a}})
		case *types.Pointer:
			arr := under(u.Elem()).(*types.Array)
			g.oblige(st, "nil", t.Pos(), f.text(t.Pos()), tNot(tEq(x.Comps[0], intLit(0))))
			g.oblige(st, "bounds", t.Pos(), f.text(t.Pos()), tAnd(tCmp("<=", intLit(0), idx), tCmp("<", idx, intLit(arr.Len()))))
			a := tAdd(x.Comps[0], tMul(idx, intLit(cellSize(arr.Elem()))))
			f.set(t, Val{Comps: []Term{a}})
		default:
			g.unsupp("IndexAddr on " + t.X.Type().String())
			f.set(t, g.freshVal(t.Name(), t.Type()))
		}
	case *ssa.Index:
		x := f.val(t.X, t.X.Type())
		idx := f.val(t.Index, t.Index.Type()).Comps[0]
		switch u := under(t.X.Type()).(type) {
		case *types.Array:
			g.oblige(st, "bounds", t.Pos(), f.text(t.Pos()), tAnd(tCmp("<=", intLit(0), idx), tCmp("<", idx, intLit(u.Len()))))
			ely := layout(u.Elem())
			v := Val{}
			for k := range ely {
				v.Comps = append(v.Comps, g.typedLoad(tSelect(x.Comps[k], idx, ely[k].Sort), ely[k]))
			}
			f.set(t, v)
		case *types.Basic: // string
			ln := withBounds(app("strlen", SInt, x.Comps[0]), big.NewInt(0), nil)
			g.oblige(st, "bounds", t.Pos(), f.text(t.Pos()), tAnd(tCmp("<=", intLit(0), idx), tCmp("<", idx, ln)))
			g.declareFun("strbyte", []string{SInt, SInt}, SInt)
			b := g.typedLoad(app("strbyte", SInt, x.Comps[0], idx), Comp{Sort: SInt, Kind: KInt, Typ: types.Typ[types.Uint8]})
			f.set(t, Val{Comps: []Term{b}})
		default:
			g.unsupp("Index on " + t.X.Type().String())
			f.set(t, g.freshVal(t.Name(), t.Type()))
		}
	case *ssa.Slice:
		f.slice(t, st)
	case *ssa.MakeSlice:
		ln := f.val(t.Len, t.Len.Type()).Comps[0]
		cp := f.val(t.Cap, t.Cap.Type()).Comps[0]
		elem := under(t.Type()).(*types.Slice).Elem()
		g.oblige(st, "make", t.Pos(), f.text(t.Pos()), tAnd(tCmp("<=", intLit(0), ln), tCmp("<=", ln, cp), tCmp("<=", cp, bigLit(pow2(40)))))
		v := g.makeSlice(st, elem, ln, cp)
		f.set(t, v)
	case *ssa.Store:
		f.store(t, st)
	case *ssa.Phi:
		// handled at block entry
	case *ssa.Call:
		f.call(t, t.Common(), st, t)
	case *ssa.MakeClosure:
		ci := &closureInfo{fn: t.Fn.(*ssa.Function)}
		for _, b := range t.Bindings {
			ci.bindings = append(ci.bindings, f.val(b, b.Type()))
		}
		id := g.sym("clo")
		g.declare(id, SInt)
		g.emit(fmt.Sprintf("(assert (>= %s 1))", id))
		f.set(t, Val{Comps: []Term{{S: id, Sort: SInt, Lo: big.NewInt(1)}}})
		f.closures[t] = ci
	case *ssa.MakeMap:
		f.set(t, g.makeMap(st, t.Type()))
	case *ssa.Lookup:
		f.lookup(t, st)
	case *ssa.MapUpdate:
		m := f.val(t.Map, t.Map.Type())
		k := f.val(t.Key, t.Key.Type())
		v := f.val(t.Value, t.Value.Type())
		g.oblige(st, "nil", t.Pos(), f.text(t.Pos()), tNot(tEq(m.Comps[0], intLit(0))))
		g.mapUpdate(st, m, k, v)
	case *ssa.Range:
		x := f.val(t.X, t.X.Type())
		f.set(t, Val{Comps: []Term{x.Comps[0]}})
		f.vals[t] = Val{Typ: t.Type(), Comps: []Term{x.Comps[0]}}
	case *ssa.Next:
		// (ok, key, value): arbitrary enumeration
		v := g.freshVal(t.Name(), t.Type())
		g.assumeWF(st, v)
		// a yielded entry is an entry of the map at the time it is yielded
		if rg, isRange := t.Iter.(*ssa.Range); isRange && !t.IsString {
			if mt, modeled := mapModeled(rg.X.Type()); modeled && len(v.Comps) == 1+1+ncomps(mt.Elem()) {
				mv := f.val(rg.X, rg.X.Type())
				mv.Typ = rg.X.Type()
				kv := Val{Typ: mt.Key(), Comps: v.Comps[1:2]}
				has := g.mapHas(st, mv, kv)
				cur := g.mapLookup(st, mv, kv)
				eqs := []Term{has}
				for i := range cur.Comps {
					eqs = append(eqs, tEq(v.Comps[2+i], cur.Comps[i]))
				}
				g.assume(st.cond, tImp(v.Comps[0], tAnd(eqs...)))
			}
		}
		f.set(t, v)
	case *ssa.Defer:
		d := deferred{call: t, guard: st.cond}
		for _, a := range t.Call.Args {
			d.args = append(d.args, f.val(a, a.Type()))
		}
		if t.Call.Value != nil {
			d.fnVal = f.val(t.Call.Value, t.Call.Value.Type())
		}
		f.defers = append(f.defers, d)
	case *ssa.RunDefers:
		f.runDefers(st)
	case *ssa.Go, *ssa.Send, *ssa.Select, *ssa.MakeChan:
		g.note("concurrency primitive havocs the heap: " + in.String())
		g.havocAll(st)
		if v, ok := in.(ssa.Value); ok {
			x := g.freshVal(v.Name(), v.Type())
			g.assumeWF(st, x)
			f.set(v, x)
		}
	case *ssa.SliceToArrayPointer:
		x := f.val(t.X, t.X.Type())
		arr := under(t.Type().(*types.Pointer).Elem()).(*types.Array)
		g.oblige(st, "bounds", t.Pos(), f.text(t.Pos()), tCmp(">=", x.Comps[1], intLit(arr.Len())))
		f.set(t, Val{Comps: []Term{x.Comps[0]}})
	default:
		g.unsupp(fmt.Sprintf("instruction %T", in))
		if v, ok := in.(ssa.Value); ok {
			f.set(v, g.freshVal(v.Name(), v.Type()))
		}
	}
}

func (g *Gen) makeSlice(st *State, elem types.Type, ln, cp Term) Val {
	cs := cellSize(elem)
	ptr := g.alloc(st, tMul(cp, intLit(cs)))
	// zero fill [ptr, ptr+cp*cs) of every leaf heap of elem
	var ls []leafRef
	leaves(elem, 0, &ls)
	seen := map[string]bool{}
	for _, l := range ls {
		for i, c := range l.Comp {
			k := compKey(l.Key, i)
			if seen[k] {
				continue
			}
			seen[k] = true
			old := g.heapGet(st, k, arrSort(c.Sort))
			if n, ok := cp.isConst(); ok && n.IsInt64() && n.Int64()*cs <= 16 && cs == 1 {
				a := old
				for j := int64(0); j < n.Int64(); j++ {
					a = tStore(a, tAdd(ptr, intLit(j)), zeroComp(c))
				}
				g.heapSet(st, k, a)
				continue
			}
			nn := g.sym("Hz_" + k)
			g.declare(nn, arrSort(c.Sort))
			nw := Term{S: nn, Sort: arrSort(c.Sort)}
			hi := tAdd(ptr, tMul(cp, intLit(cs)))
			g.emit(fmt.Sprintf("(assert (forall ((a Int)) (! (= (select %s a) (ite (and (<= %s a) (< a %s)) %s (select %s a))) :pattern ((select %s a)))))",
				nn, ptr.S, hi.S, zeroComp(c).S, old.S, nn))
			st.heap[k] = nw
		}
	}
	return Val{Comps: []Term{ptr, ln, cp}}
}

func (f *Frame) slice(t *ssa.Slice, st *State) {
	g := f.g
	x := f.val(t.X, t.X.Type())
	var lo, hi, mx *Term
	get := func(v ssa.Value) *Term {
		if v == nil {
			return nil
		}
		c := f.val(v, v.Type()).Comps[0]
		return &c
	}
	lo, hi, mx = get(t.Low), get(t.High), get(t.Max)
	zero := intLit(0)
	if lo == nil {
		lo = &zero
	}
	src := f.text(t.Pos())
	switch u := under(t.X.Type()).(type) {
	case *types.Slice:
		ln, cp := x.Comps[1], x.Comps[2]
		limit := cp
		if f.g.topC != nil && f.g.topC.StrictLen {
			limit = ln
		}
		if hi == nil {
			hi = &ln
			g.oblige(st, "bounds", t.Pos(), src, tAnd(tCmp("<=", intLit(0), *lo), tCmp("<=", *lo, ln)))
		} else if mx == nil {
			g.oblige(st, "bounds", t.Pos(), src, tAnd(tCmp("<=", intLit(0), *lo), tCmp("<=", *lo, *hi), tCmp("<=", *hi, limit)))
		} else {
			g.oblige(st, "bounds", t.Pos(), src, tAnd(tCmp("<=", intLit(0), *lo), tCmp("<=", *lo, *hi), tCmp("<=", *hi, *mx), tCmp("<=", *mx, cp)))
		}
		ncap := tSub(cp, *lo)
		if mx != nil {
			ncap = tSub(*mx, *lo)
		}
		cs := cellSize(u.Elem())
		nl := tSub(*hi, *lo)
		f.set(t, Val{Comps: []Term{tAdd(x.Comps[0], tMul(*lo, intLit(cs))), nl, ncap}})
	case *types.Basic: // string
		ln := withBounds(app("strlen", SInt, x.Comps[0]), big.NewInt(0), nil)
		if hi == nil {
			hi = &ln
		}
		g.oblige(st, "bounds", t.Pos(), src, tAnd(tCmp("<=", intLit(0), *lo), tCmp("<=", *lo, *hi), tCmp("<=", *hi, ln)))
		n := g.sym("substr")
		g.declare(n, SInt)
		g.emit(fmt.Sprintf("(assert (>= %s 1))", n))
		g.assume(st.cond, tEq(app("strlen", SInt, raw(n, SInt)), tSub(*hi, *lo)))
		f.set(t, Val{Comps: []Term{{S: n, Sort: SInt, Lo: big.NewInt(1)}}})
	case *types.Pointer:
		arr := under(u.Elem()).(*types.Array)
		n := intLit(arr.Len())
		if hi == nil {
			hi = &n
		}
		if mx == nil {
			mx = &n
		}
		g.oblige(st, "nil", t.Pos(), src, tNot(tEq(x.Comps[0], intLit(0))))
		g.oblige(st, "bounds", t.Pos(), src, tAnd(tCmp("<=", intLit(0), *lo), tCmp("<=", *lo, *hi), tCmp("<=", *hi, *mx), tCmp("<=", *mx, n)))
		cs := cellSize(arr.Elem())
		f.set(t, Val{Comps: []Term{tAdd(x.Comps[0], tMul(*lo, intLit(cs))), tSub(*hi, *lo), tSub(*mx, *lo)}})
	default:
		g.unsupp("Slice on " + t.X.Type().String())
		f.set(t, g.freshVal(t.Name(), t.Type()))
	}
}

func (f *Frame) store(t *ssa.Store, st *State) {
	g := f.g
	p := f.val(t.Addr, t.Addr.Type())
	v := f.val(t.Val, t.Val.Type())
	if v.Loc != nil {
		g.unsupp("storing a field pointer in " + f.fn.String())
		return
	}
	elemT := t.Addr.Type().Underlying().(*types.Pointer).Elem()
	v.Typ = elemT
	src := f.text(t.Pos())
	if p.Loc != nil {
		g.frameStore(st, p.Loc.Key, p.Loc.Addr, intLit(1), t.Pos(), src)
		g.storeLeaf(st, p.Loc.Key, p.Loc.Addr, Val{Typ: p.Loc.Typ, Comps: v.Comps})
		g.bumpTokAt(st, &p.Loc.Addr, hasPtrComps(p.Loc.Typ))
		return
	} else {
		if !f.nonNil(t.Addr) {
			g.oblige(st, "nil", t.Pos(), src, tNot(tEq(p.Comps[0], intLit(0))))
		}
		g.frameStore(st, "*", p.Comps[0], intLit(cellSize(elemT)), t.Pos(), src)
		g.storeVal(st, p.Comps[0], v)
		if a, ok := t.Addr.(*ssa.Alloc); ok && isFinalCell(a) {
			if f.finalVals == nil {
				f.finalVals = map[*ssa.Alloc]Val{}
			}
			f.finalVals[a] = v
		}
		if a, ok := t.Addr.(*ssa.Alloc); ok && isVariableCell(a) {
			// a local variable's own cell (captured by closures): never an argument of a pure function
			return
		}
	}
	g.bumpTokAt(st, &p.Comps[0], hasPtrComps(elemT))
}

func hasPtrComps(t types.Type) bool {
	for _, c := range layout(t) {
		switch c.Kind {
		case KPtr, KSlicePtr, KIfacePay, KOpaque, KArray:
			return true
		}
	}
	return false
}

// isFinalCell: a variable cell with exactly one store, in the entry block of its function, whose closures (and
// theirs) only ever load it. The address of such a variable is held by this function and those closures alone.
func isFinalCell(a *ssa.Alloc) bool {
	if !isVariableCell(a) || a.Parent() == nil || len(a.Parent().Blocks) == 0 || a.Block() != a.Parent().Blocks[0] {
		return false
	}
	stores := 0
	for _, r := range *a.Referrers() {
		switch u := r.(type) {
		case *ssa.Store:
			if u.Addr != ssa.Value(a) || u.Block() != a.Parent().Blocks[0] {
				return false
			}
			stores++
		case *ssa.MakeClosure:
			for i, b := range u.Bindings {
				if b == ssa.Value(a) && !freeVarReadOnly(u.Fn.(*ssa.Function).FreeVars[i], 0) {
					return false
				}
			}
		}
	}
	return stores == 1
}

func freeVarReadOnly(fv *ssa.FreeVar, depth int) bool {
	if depth > 8 {
		return false
	}
	for _, r := range *fv.Referrers() {
		switch u := r.(type) {
		case *ssa.DebugRef:
		case *ssa.UnOp:
			if u.Op != token.MUL {
				return false
			}
		case *ssa.MakeClosure:
			for i, b := range u.Bindings {
				if b == ssa.Value(fv) && !freeVarReadOnly(u.Fn.(*ssa.Function).FreeVars[i], depth+1) {
					return false
				}
			}
		default:
			return false
		}
	}
	return true
}

// isVariableCell: an Alloc that only holds a source variable (address used by loads, stores, closure bindings).
func isVariableCell(a *ssa.Alloc) bool {
	if isAggregate(a.Type().(*types.Pointer).Elem()) {
		return false
	}
	for _, r := range *a.Referrers() {
		switch u := r.(type) {
		case *ssa.DebugRef:
		case *ssa.UnOp:
			if u.Op != token.MUL {
				return false
			}
		case *ssa.Store:
			if u.Val == ssa.Value(a) {
				return false
			}
		case *ssa.MakeClosure:
		default:
			return false
		}
	}
	return true
}

func (f *Frame) nonNil(v ssa.Value) bool {
	switch v.(type) {
	case *ssa.Alloc, *ssa.FieldAddr, *ssa.IndexAddr, *ssa.Global:
		return true
	}
	return false
}

func (f *Frame) load(t *ssa.UnOp, st *State) {
	g := f.g
	p := f.val(t.X, t.X.Type())
	elemT := t.X.Type().Underlying().(*types.Pointer).Elem()
	if p.Loc != nil {
		f.set(t, g.loadLeaf(st, p.Loc.Key, p.Loc.Addr, p.Loc.Typ))
		return
	}
	if a, ok := t.X.(*ssa.Alloc); ok {
		if v, ok := f.finalVals[a]; ok {
			// a captured variable that is assigned exactly once, in the entry block, and that no closure assigns:
			// nobody else holds its address, so a call - even one without a contract - cannot have changed it
			f.set(t, Val{Comps: v.Comps})
			return
		}
	}
	if !f.nonNil(t.X) {
		g.oblige(st, "nil", t.Pos(), f.text(t.Pos()), tNot(tEq(p.Comps[0], intLit(0))))
	}
	f.set(t, g.loadVal(st, p.Comps[0], elemT))
}

func (f *Frame) unop(t *ssa.UnOp, st *State) {
	g := f.g
	switch t.Op {
	case token.MUL:
		f.load(t, st)
		return
	case token.ARROW:
		g.note("channel receive havocs the heap")
		g.havocAll(st)
		v := g.freshVal(t.Name(), t.Type())
		g.assumeWF(st, v)
		f.set(t, v)
		return
	}
	x := f.val(t.X, t.X.Type())
	switch t.Op {
	case token.NOT:
		f.set(t, Val{Comps: []Term{tNot(x.Comps[0])}})
	case token.SUB:
		if x.Comps[0].Sort == SReal {
			f.set(t, Val{Comps: []Term{app("-", SReal, x.Comps[0])}})
			return
		}
		f.set(t, Val{Comps: []Term{wrapTo(tNeg(x.Comps[0]), t.Type())}})
	case token.XOR:
		b, _ := isIntType(t.Type())
		bits, signed := intBits(b)
		if signed {
			f.set(t, Val{Comps: []Term{tSub(tNeg(x.Comps[0]), intLit(1))}})
		} else {
			f.set(t, Val{Comps: []Term{tSub(bigLit(new(big.Int).Sub(pow2(bits), bigOne)), x.Comps[0])}})
		}
	default:
		g.unsupp("unop " + t.Op.String())
		f.set(t, g.freshVal(t.Name(), t.Type()))
	}
}

func (f *Frame) binop(t *ssa.BinOp, st *State) {
	g := f.g
	x := f.val(t.X, t.X.Type())
	y := f.val(t.Y, t.Y.Type())
	xt := under(t.X.Type())
	switch t.Op {
	case token.EQL, token.NEQ:
		var eq Term
		if isNilConst(t.X) {
			eq = nilTest(y)
		} else if isNilConst(t.Y) {
			eq = nilTest(x)
		} else {
			var cs []Term
			if len(x.Comps) != len(y.Comps) {
				// interface vs concrete comparison is not generated by go/ssa; be safe
				g.unsupp("comparison shape mismatch")
				f.set(t, g.freshVal(t.Name(), t.Type()))
				return
			}
			for i := range x.Comps {
				cs = append(cs, tEq(x.Comps[i], y.Comps[i]))
			}
			eq = tAnd(cs...)
		}
		if t.Op == token.NEQ {
			eq = tNot(eq)
		}
		f.set(t, Val{Comps: []Term{eq}})
		return
	case token.LSS, token.LEQ, token.GTR, token.GEQ:
		op := map[token.Token]string{token.LSS: "<", token.LEQ: "<=", token.GTR: ">", token.GEQ: ">="}[t.Op]
		if b, ok := xt.(*types.Basic); ok && b.Info()&types.IsString != 0 {
			g.declareFun("strless", []string{SInt, SInt}, SBool)
			f.set(t, g.freshVal(t.Name(), t.Type()))
			return
		}
		if x.Comps[0].Sort == SReal {
			f.set(t, Val{Comps: []Term{app(op, SBool, x.Comps[0], y.Comps[0])}})
			return
		}
		f.set(t, Val{Comps: []Term{tCmp(op, x.Comps[0], y.Comps[0])}})
		return
	}
	if b, ok := xt.(*types.Basic); ok {
		switch {
		case b.Info()&types.IsString != 0 && t.Op == token.ADD:
			n := g.sym("strcat")
			g.declare(n, SInt)
			g.emit(fmt.Sprintf("(assert (>= %s 1))", n))
			g.assume(boolLit(true), tEq(app("strlen", SInt, raw(n, SInt)), tAdd(app("strlen", SInt, x.Comps[0]), app("strlen", SInt, y.Comps[0]))))
			f.set(t, Val{Comps: []Term{{S: n, Sort: SInt, Lo: big.NewInt(1)}}})
			return
		case b.Info()&types.IsFloat != 0:
			op := map[token.Token]string{token.ADD: "+", token.SUB: "-", token.MUL: "*", token.QUO: "/"}[t.Op]
			if op != "" {
				f.set(t, Val{Comps: []Term{app(op, SReal, x.Comps[0], y.Comps[0])}})
				return
			}
		case b.Info()&types.IsInteger != 0:
			if t.Op == token.QUO || t.Op == token.REM {
				g.oblige(st, "div0", t.Pos(), f.text(t.Pos()), tNot(tEq(y.Comps[0], intLit(0))))
			}
			if r, ok := g.intBinOp(t.Op, x.Comps[0], y.Comps[0], t.Type()); ok {
				f.set(t, Val{Comps: []Term{r}})
				return
			}
		}
	}
	g.unsupp("binop " + t.Op.String() + " on " + t.X.Type().String())
	f.set(t, g.freshVal(t.Name(), t.Type()))
}

func isNilConst(v ssa.Value) bool {
	c, ok := v.(*ssa.Const)
	return ok && c.Value == nil && !isBasicNonNil(c.Type())
}

func isBasicNonNil(t types.Type) bool {
	b, ok := under(t).(*types.Basic)
	return ok && b.Kind() != types.UntypedNil && b.Kind() != types.UnsafePointer
}

func (f *Frame) convert(t *ssa.Convert, st *State) {
	g := f.g
	x := f.val(t.X, t.X.Type())
	from, to := under(t.X.Type()), under(t.Type())
	fb, fIsB := from.(*types.Basic)
	tb, tIsB := to.(*types.Basic)
	switch {
	case fIsB && tIsB && fb.Info()&types.IsInteger != 0 && tb.Info()&types.IsInteger != 0:
		f.set(t, Val{Comps: []Term{wrapTo(x.Comps[0], t.Type())}})
	case fIsB && tIsB && fb.Info()&types.IsInteger != 0 && tb.Info()&types.IsFloat != 0:
		f.set(t, Val{Comps: []Term{app("to_real", SReal, x.Comps[0])}})
	case fIsB && tIsB && fb.Info()&types.IsFloat != 0 && tb.Info()&types.IsFloat != 0:
		f.set(t, Val{Comps: []Term{x.Comps[0]}})
	case fIsB && tIsB && fb.Info()&types.IsFloat != 0 && tb.Info()&types.IsInteger != 0:
		// truncation toward zero, then wrap (exact for in-range values; out-of-range is implementation-defined)
		tr := tIte(app(">=", SBool, x.Comps[0], raw("0.0", SReal)), app("to_int", SInt, x.Comps[0]), tNeg(app("to_int", SInt, app("-", SReal, x.Comps[0]))))
		f.set(t, Val{Comps: []Term{wrapTo(tr, t.Type())}})
	case tIsB && tb.Info()&types.IsString != 0:
		n := g.sym("strconv")
		g.declare(n, SInt)
		g.emit(fmt.Sprintf("(assert (>= %s 1))", n))
		if _, ok := from.(*types.Slice); ok {
			g.assume(st.cond, tEq(app("strlen", SInt, raw(n, SInt)), x.Comps[1]))
		}
		f.set(t, Val{Comps: []Term{{S: n, Sort: SInt, Lo: big.NewInt(1)}}})
	case fIsB && fb.Info()&types.IsString != 0:
		if sl, ok := to.(*types.Slice); ok {
			ln := g.name("slen", withBounds(app("strlen", SInt, x.Comps[0]), big.NewInt(0), nil))
			g.assume(st.cond, tCmp("<=", ln, bigLit(pow2(40))))
			v := g.makeSlice(st, sl.Elem(), ln, ln)
			// contents unknown: havoc element heap cells by allocating fresh symbol region
			g.havocRange(st, sl.Elem(), v.Comps[0], ln)
			f.set(t, v)
			return
		}
		fallthrough
	default:
		if len(layout(t.Type())) == len(x.Comps) {
			f.set(t, Val{Comps: x.Comps})
			return
		}
		g.unsupp("convert " + t.X.Type().String() + " -> " + t.Type().String())
		f.set(t, g.freshVal(t.Name(), t.Type()))
	}
}

// havocRange: make the element cells [ptr, ptr+n) of a slice of elem arbitrary.
func (g *Gen) havocRange(st *State, elem types.Type, ptr, n Term) {
	var ls []leafRef
	leaves(elem, 0, &ls)
	cs := cellSize(elem)
	seen := map[string]bool{}
	for _, l := range ls {
		for i, c := range l.Comp {
			k := compKey(l.Key, i)
			if seen[k] {
				continue
			}
			seen[k] = true
			old := g.heapGet(st, k, arrSort(c.Sort))
			nn := g.sym("Hr_" + k)
			g.declare(nn, arrSort(c.Sort))
			hi := tAdd(ptr, tMul(n, intLit(cs)))
			g.emit(fmt.Sprintf("(assert (forall ((a Int)) (! (=> (not (and (<= %s a) (< a %s))) (= (select %s a) (select %s a))) :pattern ((select %s a)))))",
				ptr.S, hi.S, nn, old.S, nn))
			st.heap[k] = Term{S: nn, Sort: arrSort(c.Sort)}
		}
	}
	g.bumpTokAt(st, &ptr, hasPtrComps(elem))
}

func (g *Gen) boxIface(st *State, x Val, t types.Type) Val {
	if _, isIface := under(t).(*types.Interface); isIface {
		return Val{Comps: x.Comps}
	}
	tag := intLit(tagOf(t))
	if payloadIsDirect(t) {
		p := x.Comps[0]
		if p.Sort == SBool {
			p = tIte(p, intLit(1), intLit(0))
		}
		return Val{Comps: []Term{tag, p}}
	}
	addr := g.alloc(st, intLit(cellSize(t)))
	x.Typ = t
	g.storeVal(st, addr, x)
	return Val{Comps: []Term{tag, addr}}
}

func (g *Gen) unboxIface(st *State, x Val, t types.Type) Val {
	if payloadIsDirect(t) {
		ly := layout(t)
		p := x.Comps[1]
		if ly[0].Sort == SBool {
			return Val{Typ: t, Comps: []Term{tNot(tEq(p, intLit(0)))}}
		}
		v := Val{Typ: t, Comps: []Term{p}}
		if b, ok := isIntType(t); ok {
			if lo, hi, ok := intRange(b); ok && g.noName == 0 {
				v.Comps[0] = g.name("unbox", p)
				g.emit(fmt.Sprintf("(assert (=> (= %s %d) (and (<= %s %s) (<= %s %s))))", x.Comps[0].S, tagOf(t), bigLit(lo).S, v.Comps[0].S, v.Comps[0].S, bigLit(hi).S))
			}
		}
		return v
	}
	return g.loadVal(st, x.Comps[1], t)
}

func (f *Frame) typeAssert(t *ssa.TypeAssert, st *State) {
	g := f.g
	x := f.val(t.X, t.X.Type())
	if _, isIface := under(t.AssertedType).(*types.Interface); isIface {
		// interface-to-interface: succeeds iff dynamic type implements; we know only non-nil is necessary
		ok := g.ifaceImplements(x.Comps[0], t.AssertedType)
		if t.CommaOk {
			res := Val{Comps: []Term{tIte(ok, x.Comps[0], intLit(0)), tIte(ok, x.Comps[1], intLit(0)), ok}}
			f.set(t, res)
		} else {
			g.oblige(st, "assert", t.Pos(), f.text(t.Pos()), ok)
			f.set(t, Val{Comps: x.Comps})
		}
		return
	}
	ok := tEq(x.Comps[0], intLit(tagOf(t.AssertedType)))
	v := g.unboxIface(st, x, t.AssertedType)
	if pt, isPtr := under(t.AssertedType).(*types.Pointer); isPtr {
		sz := cellSize(pt.Elem())
		g.assume(tAnd(st.cond, ok), tOr(tEq(v.Comps[0], intLit(0)), tAnd(tCmp(">=", v.Comps[0], intLit(1)), tCmp("<=", tAdd(v.Comps[0], intLit(sz)), st.W))))
	}
	if t.CommaOk {
		z := g.zeroVal(t.AssertedType)
		res := Val{}
		for i := range v.Comps {
			res.Comps = append(res.Comps, tIte(ok, v.Comps[i], z.Comps[i]))
		}
		res.Comps = append(res.Comps, ok)
		f.set(t, res)
	} else {
		g.oblige(st, "assert", t.Pos(), f.text(t.Pos()), ok)
		f.set(t, v)
	}
}

// ifaceImplements: Boolean "the dynamic type with this tag implements iface". Known concrete types are
// enumerated; unknown tags are left open through an uninterpreted predicate.
func (g *Gen) ifaceImplements(tag Term, iface types.Type) Term {
	fn := "impl_" + sanitize(typeKey(iface))
	g.declareFun(fn, []string{SInt}, SBool)
	r := app(fn, SBool, tag)
	if g.noName == 0 {
		g.assume(boolLit(true), tImp(r, tNot(tEq(tag, intLit(0)))))
	}
	return r
}

func (f *Frame) runDefers(st *State) {
	g := f.g
	for i := len(f.defers) - 1; i >= 0; i-- {
		d := f.defers[i]
		sub := st.clone()
		sub.cond = g.name("c", tAnd(st.cond, d.guard))
		if sub.cond.isFalse() {
			continue
		}
		f.callCommon(d.call, &d.call.Call, sub, nil, d.args)
		// merge back: state after = ite(guard, sub, st)
		no := st.clone()
		no.cond = g.name("c", tAnd(st.cond, tNot(d.guard)))
		var parts []*State
		if !sub.cond.isFalse() {
			parts = append(parts, sub)
		}
		if !no.cond.isFalse() {
			parts = append(parts, no)
		}
		if len(parts) == 0 {
			st.cond = boolLit(false)
			return
		}
		m := g.mergeStates(parts)
		*st = *m
	}
}

// ---------------------------------------------------------------- loops

type loopMods struct {
	nonFresh bool // some write may hit memory not allocated by this function call
	escape   bool // ... and may store a pointer there
	all      bool
	keys     map[string]string // comp key -> sort
	fresh    map[string]string // keys touched only by stores into memory allocated inside the loop
	alloc    bool
	tok      bool
	dirty    map[string]bool // keys that a write into memory NOT allocated by this function call may hit
	curDirty bool            // the store being scanned is such a write
}

func (lm *loopMods) addType(t types.Type, fresh bool) {
	var ls []leafRef
	leaves(t, 0, &ls)
	for _, l := range ls {
		for i, c := range l.Comp {
			k := compKey(l.Key, i)
			if fresh {
				if _, ok := lm.keys[k]; !ok {
					lm.fresh[k] = arrSort(c.Sort)
				}
			} else {
				lm.keys[k] = arrSort(c.Sort)
				delete(lm.fresh, k)
				if lm.curDirty {
					lm.markDirty(k)
				}
			}
		}
	}
}

func (lm *loopMods) markDirty(k string) {
	if lm.dirty == nil {
		lm.dirty = map[string]bool{}
	}
	lm.dirty[k] = true
}

func (lm *loopMods) addField(structT types.Type, i int, ft types.Type, fresh bool) {
	for ci, c := range layout(ft) {
		k := compKey(fieldKey(structT, i), ci)
		if fresh {
			if _, ok := lm.keys[k]; !ok {
				lm.fresh[k] = arrSort(c.Sort)
			}
		} else {
			lm.keys[k] = arrSort(c.Sort)
			delete(lm.fresh, k)
			if lm.curDirty {
				lm.markDirty(k)
			}
		}
	}
}

func (f *Frame) scanMods(blocks []*ssa.BasicBlock, lm *loopMods, depth int) {
	g := f.g
	inLoopAlloc := map[ssa.Value]bool{}
	for _, b := range blocks {
		for _, in := range b.Instrs {
			if a, ok := in.(*ssa.Alloc); ok {
				inLoopAlloc[a] = true
			}
		}
	}
	for _, b := range blocks {
		for _, in := range b.Instrs {
			switch t := in.(type) {
			case *ssa.Store:
				lm.tok = true
				lm.curDirty = false
				if !staticallyFresh(t.Addr, map[ssa.Value]bool{}) {
					if a, ok := t.Addr.(*ssa.Alloc); !ok || !isVariableCell(a) {
						lm.nonFresh = true
						lm.curDirty = true
						if hasPtrComps(t.Val.Type()) {
							lm.escape = true
						}
					}
				}
				switch a := t.Addr.(type) {
				case *ssa.FieldAddr:
					pt := under(a.X.Type()).(*types.Pointer)
					stt := under(pt.Elem()).(*types.Struct)
					lm.addField(pt.Elem(), a.Field, stt.Field(a.Field).Type(), inLoopAlloc[a.X])
				default:
					elemT := t.Addr.Type().Underlying().(*types.Pointer).Elem()
					lm.addType(elemT, inLoopAlloc[t.Addr])
				}
				lm.curDirty = false
			case *ssa.Alloc:
				lm.alloc = true
				lm.addType(t.Type().(*types.Pointer).Elem(), true)
			case *ssa.MakeSlice:
				lm.alloc = true
				lm.addType(under(t.Type()).(*types.Slice).Elem(), true)
			case *ssa.MakeInterface:
				if !payloadIsDirect(t.X.Type()) {
					if _, isI := under(t.X.Type()).(*types.Interface); !isI {
						lm.alloc = true
						lm.addType(t.X.Type(), true)
					}
				}
			case *ssa.Convert:
				if sl, ok := under(t.Type()).(*types.Slice); ok {
					lm.alloc = true
					lm.addType(sl.Elem(), true)
				}
			case *ssa.MakeMap, *ssa.MakeClosure:
				lm.alloc = true
			case *ssa.MapUpdate:
				lm.tok = true
				if !staticallyFresh(t.Map, map[ssa.Value]bool{}) {
					lm.nonFresh, lm.escape = true, true
				}
				lm.curDirty = true
				lm.addMap(t.Map.Type())
				lm.curDirty = false
			case *ssa.Go, *ssa.Send, *ssa.Select, *ssa.MakeChan:
				lm.all = true
			case *ssa.UnOp:
				if t.Op == token.ARROW {
					lm.all = true
				}
			case *ssa.RunDefers:
				lm.all = true
			case ssa.CallInstruction:
				f.scanCallMods(t, lm, depth)
			}
			_ = g
		}
	}
}

func (f *Frame) loopHeader(li *LoopInfo, st *State, phiEntry map[*ssa.Phi]Val) {
	g := f.g
	// 1. invariants hold on entry
	if f.preSt == nil {
		f.preSt = map[*ssa.BasicBlock]*State{}
		f.prePhi = map[*ssa.BasicBlock]map[*ssa.Phi]Val{}
	}
	f.preSt[li.Header] = st.clone()
	f.prePhi[li.Header] = phiEntry
	f.checkInvariants(li, st, func(p *ssa.Phi) Val { return phiEntry[p] }, "inv-init")
	// 2. havoc what the loop may change
	lm := &loopMods{keys: map[string]string{}, fresh: map[string]string{}}
	var blocks []*ssa.BasicBlock
	for b := range li.Body {
		blocks = append(blocks, b)
	}
	sort.Slice(blocks, func(i, j int) bool { return blocks[i].Index < blocks[j].Index })
	f.scanMods(blocks, lm, 0)
	preW := st.W
	if lm.all {
		g.havocAll(st)
	} else {
		var ks []string
		for k := range lm.keys {
			ks = append(ks, k)
		}
		sort.Strings(ks)
		for _, k := range ks {
			if !lm.dirty[k] && strings.HasPrefix(lm.keys[k], "(Array Int ") && !strings.HasPrefix(k, "M|") {
				// every write of the loop to this component goes to memory allocated by this call:
				// what existed when the function was entered keeps its content
				old := g.heapGet(st, k, lm.keys[k])
				n := g.sym("He_" + k)
				g.declare(n, lm.keys[k])
				g.emit(fmt.Sprintf("(assert (forall ((a Int)) (! (=> (< a %s) (= (select %s a) (select %s a))) :pattern ((select %s a)))))", g.entryW.S, n, old.S, n))
				st.heap[k] = Term{S: n, Sort: lm.keys[k]}
				continue
			}
			n := g.sym("Hl_" + k)
			g.declare(n, lm.keys[k])
			st.heap[k] = Term{S: n, Sort: lm.keys[k]}
		}
		ks = ks[:0]
		for k := range lm.fresh {
			ks = append(ks, k)
		}
		sort.Strings(ks)
		for _, k := range ks {
			old := g.heapGet(st, k, lm.fresh[k])
			n := g.sym("Hf_" + k)
			g.declare(n, lm.fresh[k])
			g.emit(fmt.Sprintf("(assert (forall ((a Int)) (! (=> (< a %s) (= (select %s a) (select %s a))) :pattern ((select %s a)))))", preW.S, n, old.S, n))
			st.heap[k] = Term{S: n, Sort: lm.fresh[k]}
		}
		if lm.alloc {
			w := g.sym("W")
			g.declare(w, SInt)
			g.assume(boolLit(true), tCmp(">=", raw(w, SInt), st.W))
			st.W = Term{S: w, Sort: SInt}
		}
		if lm.tok || len(lm.keys) > 0 {
			if lm.nonFresh {
				esc := st.esc
				g.bumpTokAt(st, nil, lm.escape)
				if !lm.escape {
					st.esc = esc
				}
			} else {
				// every write of the loop goes to memory allocated by this call
				old := st.tok
				esc := st.esc
				g.bumpTokAt(st, nil, false)
				st.tok = g.name("tok", tIte(esc, st.tok, old))
				st.esc = esc
			}
		}
	}
	if f.isTop {
		// inside the loop called(F) means "in this iteration"; what was called before the loop counts again
		// once the loop has been left (see edge)
		if f.calledAtEntry == nil {
			f.calledAtEntry = map[*ssa.BasicBlock]map[string]Term{}
		}
		saved := make(map[string]Term, len(st.called))
		for k, v := range st.called {
			saved[k] = v
		}
		f.calledAtEntry[li.Header] = saved
		st.called = map[string]Term{}
	}
	for p := range phiEntry {
		invariant := true
		for i := range li.Header.Preds {
			if li.BackPred[i] && p.Edges[i] != ssa.Value(p) {
				invariant = false
			}
		}
		if invariant {
			// every back edge carries the phi itself: the value is fixed before the loop
			f.vals[p] = phiEntry[p]
			continue
		}
		v := g.freshVal("lp_"+p.Comment, p.Type())
		g.assumeWF(st, v)
		v.Typ = p.Type()
		f.vals[p] = v
	}
	// 3. assume invariants
	f.assumeInvariants(li, st)
	f.headerSt[li.Header] = st.clone()
	if f.contract != nil {
		if d := f.contract.LoopDec[li.Ordinal]; d != nil {
			ev := f.loopEval(li, st, nil)
			v, err := ev.eval(d.Expr)
			if err != nil {
				g.specError(f.contract, d, err)
			} else {
				f.headerDec[li.Header] = g.name("dec", v.Comps[0])
			}
		}
	}
}

// rangeIntBound: for `for i := range n` (go/ssa: phi i; ...; i+1 < n on the back edge) the value n, if it is
// defined outside the loop.
func rangeIntBound(li *LoopInfo) ssa.Value {
	var phi *ssa.Phi
	for _, in := range li.Header.Instrs {
		if p, ok := in.(*ssa.Phi); ok && strings.HasPrefix(p.Comment, "rangeint") {
			phi = p
		}
	}
	if phi == nil {
		return nil
	}
	for blk := range li.Body {
		for _, in := range blk.Instrs {
			cmp, ok := in.(*ssa.BinOp)
			if !ok || cmp.Op != token.LSS {
				continue
			}
			inc, ok := cmp.X.(*ssa.BinOp)
			if !ok || inc.Op != token.ADD || inc.X != ssa.Value(phi) {
				continue
			}
			if yi, ok := cmp.Y.(ssa.Instruction); ok && li.Body[yi.Block()] {
				continue // bound computed inside the loop
			}
			return cmp.Y
		}
	}
	return nil
}

// autoInvariants: facts about compiler-generated range counters (checked like any other invariant).
func autoInvariants(li *LoopInfo) []*Clause {
	var cs []*Clause
	for _, in := range li.Header.Instrs {
		p, ok := in.(*ssa.Phi)
		if !ok {
			break
		}
		if _, isInt := isIntType(p.Type()); !isInt {
			continue
		}
		switch {
		case strings.HasPrefix(p.Comment, "rangeindex"):
			cs = append(cs, &Clause{Text: "__iter >= -1 && __iter <= 1099511627776 (auto)",
				Expr: &SBinary{"&&", &SBinary{">=", &SIdent{"__iter"}, &SUnary{"-", &SLit{big.NewInt(1)}}}, &SBinary{"<=", &SIdent{"__iter"}, &SLit{pow2(40)}}}})
		case strings.HasPrefix(p.Comment, "rangeint"):
			cs = append(cs, &Clause{Text: "__iter >= 0 (auto)", Expr: &SBinary{">=", &SIdent{"__iter"}, &SLit{big.NewInt(0)}}})
		}
	}
	return cs
}

func (f *Frame) invariants(li *LoopInfo) []*Clause {
	var cs []*Clause
	if f.contract != nil {
		cs = append(cs, f.contract.LoopInv[li.Ordinal]...)
	}
	if f.houdini != nil {
		cs = append(cs, f.houdini[li.Ordinal]...)
	} else if !f.isTop {
		// inlined bodies have no Houdini pass: the range-counter facts are stated (and checked) directly
		cs = append(cs, autoInvariants(li)...)
	}
	return cs
}

func (f *Frame) loopEval(li *LoopInfo, st *State, phiVal func(p *ssa.Phi) Val) *Eval {
	return f.loopEvalAt(li, li.Header, false, st, phiVal)
}

// loopEvalAt: variables are resolved at the entry of block b (atEnd: at its end, for back-edge assertions).
func (f *Frame) loopEvalAt(li *LoopInfo, b *ssa.BasicBlock, atEnd bool, st *State, phiVal func(p *ssa.Phi) Val) *Eval {
	pos := li.minPos
	// use a position inside the loop body for scope resolution: the latest position of header instrs
	for _, in := range li.Header.Instrs {
		if p := in.Pos(); p.IsValid() && p > pos {
			pos = p
		}
	}
	if atEnd {
		// back-edge assertions see the variables of the loop body: resolve names at the end of the body
		for blk := range li.Body {
			for _, in := range blk.Instrs {
				if _, isPhi := in.(*ssa.Phi); isPhi {
					continue
				}
				if p := in.Pos(); p.IsValid() && p > pos {
					pos = p
				}
			}
		}
	}
	ev := &Eval{g: f.g, st: st, old: f.entry, fn: f.fn, pos: pos, vars: map[string]Val{}, pkg: pkgOf(f.fn)}
	ev.lookup = func(name string) (Val, bool) {
		if atEnd {
			if v, ok := f.varAtEnd(b, li.Header, name, pos, st, phiVal); ok {
				return v, true
			}
		}
		return f.varAt(li.Header, name, pos, st, phiVal)
	}
	return ev
}

// varAtEnd: value of a source variable at the end of block b (a back-edge source inside the loop).
func (f *Frame) varAtEnd(b, header *ssa.BasicBlock, name string, pos token.Pos, st *State, phiVal func(p *ssa.Phi) Val) (Val, bool) {
	obj := f.g.ctx.scopeLookup(f.fn, pos, name)
	if obj == nil {
		// the variable may be declared inside the loop body: search all objects with that name
		for o := range f.debugVals {
			if o.Name() == name {
				obj = o
			}
		}
	}
	cands := map[ssa.Value]bool{}
	for o, vs := range f.debugVals {
		if o == obj || (obj == nil && o.Name() == name) {
			for _, v := range vs {
				cands[v] = true
			}
		}
	}
	if v, ok := f.allocOf(cands, st); ok {
		return v, true
	}
	for blk := b; blk != nil && blk != header.Idom(); blk = blk.Idom() {
		for i := len(blk.Instrs) - 1; i >= 0; i-- {
			if d, isRef := blk.Instrs[i].(*ssa.DebugRef); isRef && refMatches(d, obj, name) {
				// the latest reference (assignment or use) of the variable that has been passed: its value then
				// is its value now (an assignment of a constant is only visible this way)
				if _, isAlloc := d.X.(*ssa.Alloc); !isAlloc {
					if p, isPhi := d.X.(*ssa.Phi); isPhi && p.Block() == header && phiVal != nil {
						return phiVal(p), true
					}
					return f.val(d.X, d.X.Type()), true
				}
			}
			v, ok := blk.Instrs[i].(ssa.Value)
			if !ok {
				continue
			}
			match := cands[v] && !valueOnlyCand(v)
			if p, ok := v.(*ssa.Phi); ok && !match && p.Comment == name {
				match = true
			}
			if !match {
				continue
			}
			if p, ok := v.(*ssa.Phi); ok && blk == header {
				if phiVal != nil {
					return phiVal(p), true
				}
			}
			if a, ok := v.(*ssa.Alloc); ok {
				if fv, ok := f.finalVals[a]; ok {
					return Val{Comps: fv.Comps}, true
				}
				av := f.val(a, a.Type())
				return f.g.loadVal(st, av.Comps[0], a.Type().(*types.Pointer).Elem()), true
			}
			return f.val(v, v.Type()), true
		}
		if blk == header {
			break
		}
	}
	return Val{}, false
}

// varAt finds the value of a source variable at the entry of block b.
func (f *Frame) varAt(b *ssa.BasicBlock, name string, pos token.Pos, st *State, phiVal func(p *ssa.Phi) Val) (Val, bool) {
	g := f.g
	// entry values of parameters: name0
	if strings.HasSuffix(name, "0") {
		for i, p := range f.fn.Params {
			if p.Name()+"0" == name {
				if f.inlineArgs != nil {
					return f.inlineArgs[i], true
				}
				return f.val(p, p.Type()), true
			}
		}
	}
	if name == "__iter" {
		for _, in := range b.Instrs {
			if p, ok := in.(*ssa.Phi); ok && strings.HasPrefix(p.Comment, "range") {
				if phiVal != nil {
					return phiVal(p), true
				}
				return f.val(p, p.Type()), true
			}
		}
	}
	if name == "__bound" {
		// the (loop-invariant) upper bound of an integer range loop: `for i := range n` compares i+1 < n
		if li := f.loops[b]; li != nil {
			if bv := rangeIntBound(li); bv != nil {
				return f.val(bv, bv.Type()), true
			}
		}
		return Val{}, false
	}
	obj := g.ctx.scopeLookup(f.fn, pos, name)
	cands := map[ssa.Value]bool{}
	if obj != nil {
		for _, v := range f.debugVals[obj] {
			cands[v] = true
		}
	}
	if v, ok := f.allocOf(cands, st); ok {
		return v, true
	}
	// walk up the dominator tree from b
	for blk := b; blk != nil; blk = blk.Idom() {
		instrs := blk.Instrs
		for i := len(instrs) - 1; i >= 0; i-- {
			in := instrs[i]
			if blk == b {
				// only phis of the block itself are defined at its entry
				if _, ok := in.(*ssa.Phi); !ok {
					continue
				}
			}
			if d, isRef := in.(*ssa.DebugRef); isRef && refMatches(d, obj, name) {
				if _, isAlloc := d.X.(*ssa.Alloc); !isAlloc {
					return f.val(d.X, d.X.Type()), true
				}
			}
			v, ok := in.(ssa.Value)
			if !ok {
				continue
			}
			match := cands[v] && !valueOnlyCand(v)
			if p, ok := in.(*ssa.Phi); ok && !match && p.Comment == name && obj != nil && types.Identical(p.Type(), obj.Type()) {
				match = true
			}
			if !match {
				continue
			}
			if a, ok := in.(*ssa.Alloc); ok {
				if fv, ok := f.finalVals[a]; ok {
					return Val{Comps: fv.Comps}, true
				}
				av := f.val(a, a.Type())
				return g.loadVal(st, av.Comps[0], a.Type().(*types.Pointer).Elem()), true
			}
			if p, ok := in.(*ssa.Phi); ok && blk == b && phiVal != nil {
				return phiVal(p), true
			}
			return f.val(v, v.Type()), true
		}
	}
	for _, p := range f.fn.Params {
		if p.Name() == name {
			return f.val(p, p.Type()), true
		}
	}
	for _, fv := range f.fn.FreeVars {
		if fv.Name() == name {
			pv := f.val(fv, fv.Type())
			return g.loadVal(st, pv.Comps[0], fv.Type().(*types.Pointer).Elem()), true
		}
	}
	return Val{}, false
}

func (f *Frame) checkInvariants(li *LoopInfo, st *State, phiVal func(p *ssa.Phi) Val, kind string) {
	g := f.g
	for _, c := range f.invariants(li) {
		ev := f.loopEval(li, st, phiVal)
		ev.pre = f.preEval(li)
		t, err := ev.evalBool(c.Expr)
		if err != nil {
			g.specError(f.contract, c, err)
			continue
		}
		g.oblige(st, kind, token.NoPos, fmt.Sprintf("loop %d: %s", li.Ordinal, c.Text), t)
	}
}

// preEval: evaluation context of the moment the loop was entered (for pre(e) in loop annotations).
func (f *Frame) preEval(li *LoopInfo) *Eval {
	ps := f.preSt[li.Header]
	if ps == nil {
		return nil
	}
	pe := f.prePhi[li.Header]
	return f.loopEval(li, ps, func(p *ssa.Phi) Val { return pe[p] })
}

func (f *Frame) assumeInvariants(li *LoopInfo, st *State) {
	g := f.g
	for _, c := range f.invariants(li) {
		ev := f.loopEval(li, st, nil)
		ev.pre = f.preEval(li)
		t, err := ev.evalBool(c.Expr)
		if err != nil {
			g.specError(f.contract, c, err)
			continue
		}
		g.assume(st.cond, t)
	}
}

func (f *Frame) backEdge(li *LoopInfo, predIdx int, st *State) {
	g := f.g
	phiVal := func(p *ssa.Phi) Val { return f.val(p.Edges[predIdx], p.Type()) }
	f.checkInvariants(li, st, phiVal, "inv-keep")
	if f.contract != nil {
		for _, c := range f.contract.LoopStep[li.Ordinal] {
			ev := f.loopEvalAt(li, li.Header.Preds[predIdx], true, st, phiVal)
			if hs := f.headerSt[li.Header]; hs != nil {
				hev := f.loopEval(li, hs, nil)
				ev.header = hev
				ev.pre = f.preEval(li)
			}
			t, err := ev.evalBool(c.Expr)
			if err != nil {
				if strings.Contains(err.Error(), "unresolved identifier") {
					// a body-local variable that is not defined on this back edge (e.g. an early `continue`)
					g.atReturnSkipped["step:"+c.Text]++
					continue
				}
				g.specError(f.contract, c, err)
				continue
			}
			g.atReturnUsed["step:"+c.Text]++
			g.oblige(st, "step", token.NoPos, fmt.Sprintf("loop %d: %s", li.Ordinal, c.Text), t)
		}
	}
	if f.contract != nil {
		if d := f.contract.LoopDec[li.Ordinal]; d != nil {
			if hd, ok := f.headerDec[li.Header]; ok {
				ev := f.loopEval(li, st, phiVal)
				v, err := ev.eval(d.Expr)
				if err != nil {
					g.specError(f.contract, d, err)
				} else {
					g.oblige(st, "variant", token.NoPos, fmt.Sprintf("loop %d: %s", li.Ordinal, d.Text),
						tAnd(tCmp("<", v.Comps[0], hd), tCmp(">=", hd, intLit(0))))
				}
			}
		}
	}
}

func (g *Gen) specError(c *Contract, cl *Clause, err error) {
	where := ""
	if c != nil {
		where = fmt.Sprintf("%s:%d", c.File, cl.Line)
	}
	msg := fmt.Sprintf("%s: %q: %v", where, cl.Text, err)
	if strings.Contains(err.Error(), "unresolved identifier") {
		// the clause speaks about a program variable that does not exist (any more) where the clause applies:
		// the obligation cannot be generated, which is reported as that obligation having failed
		g.failClause("contract", cl.Text, err.Error())
		return
	}
	for _, e := range g.specErrs {
		if e == msg {
			return
		}
	}
	g.specErrs = append(g.specErrs, msg)
}

// failClause records an obligation that can no longer be generated from the code as a failed obligation.
func (g *Gen) failClause(kind, text, reason string) {
	fnName := g.lemmaKey
	if g.top != nil {
		fnName = g.ctx.funcKey(g.top)
	}
	src := text + " :: cannot be generated: " + reason
	for _, o := range g.obls {
		if o.Kind == kind && o.Src == src {
			return
		}
	}
	g.kindCount[kind]++
	g.obls = append(g.obls, &Obligation{Name: fmt.Sprintf("%s#%s[%d]{%s}", fnName, kind, g.kindCount[kind], src), Kind: kind, Fn: fnName, Src: src,
		Cond: boolLit(true), Goal: boolLit(false), PreludeLen: len(g.lines)})
}

// staticallyFresh: the address is rooted at an allocation performed by this function.
func staticallyFresh(v ssa.Value, seen map[ssa.Value]bool) bool {
	if seen[v] {
		return true
	}
	seen[v] = true
	switch x := v.(type) {
	case *ssa.Alloc, *ssa.MakeSlice, *ssa.MakeMap:
		return true
	case *ssa.Slice:
		return staticallyFresh(x.X, seen)
	case *ssa.IndexAddr:
		return staticallyFresh(x.X, seen)
	case *ssa.FieldAddr:
		return staticallyFresh(x.X, seen)
	case *ssa.Call:
		if b, ok := x.Call.Value.(*ssa.Builtin); ok && b.Name() == "append" {
			return staticallyFresh(x.Call.Args[0], seen)
		}
	case *ssa.Phi:
		for _, e := range x.Edges {
			if !staticallyFresh(e, seen) {
				return false
			}
		}
		return true
	}
	return false
}

// allocOf: if the variable lives in memory (its address is taken), its current content must be loaded.
func (f *Frame) allocOf(cands map[ssa.Value]bool, st *State) (Val, bool) {
	for v := range cands {
		if a, ok := v.(*ssa.Alloc); ok {
			if fv, ok := f.finalVals[a]; ok {
				return Val{Comps: fv.Comps}, true
			}
			if av, ok := f.vals[a]; ok {
				return f.g.loadVal(st, av.Comps[0], a.Type().(*types.Pointer).Elem()), true
			}
		}
	}
	return Val{}, false
}
