package main

// Known findings: an obligation listed in /verif/known_findings.txt is expected to fail, and only for
// inputs inside the recorded class; a counterexample outside the class is a new violation.

import (
	"fmt"
	"path/filepath"
	"strings"
)

type attachedFinding struct {
	*Finding
	ClassTerm Term
	Extra     []string // definitions emitted while evaluating the class predicate
	Err       string
}

func (vc *FuncVC) attachFindings(fs []Finding, prop string) {
	vc.FindingFor = map[string]*attachedFinding{}
	for i := range fs {
		f := &fs[i]
		if f.Kind != "finding" || f.Property != prop {
			continue
		}
		for _, o := range vc.Obls {
			if o.Name == f.Obl || shortKey(o.Name) == f.Obl || stripOrd(shortKey(o.Name)) == f.Obl || stripOrd(o.Name) == f.Obl {
				af := &attachedFinding{Finding: f}
				if f.Class != "" && vc.entryEval != nil {
					g := vc.Gen
					start := len(g.lines)
					e, err := parseExpr(f.Class)
					if err == nil {
						var t Term
						t, err = vc.entryEval().evalBool(e)
						af.ClassTerm = t
					}
					if err != nil {
						af.Err = err.Error()
					}
					af.Extra = append([]string(nil), g.lines[start:]...)
					g.lines = g.lines[:start]
				}
				vc.FindingFor[o.Name] = af
			}
		}
	}
}

// checkKnown: "known" (still fails, only inside the class), "gone" (discharges now), "new" (fails outside the class).
func (vc *FuncVC) checkKnown(o *Obligation, kf *attachedFinding, opts SolveOpts, work string) string {
	if o.Status == "unsat" {
		return "gone"
	}
	if kf.Class == "" {
		return "known"
	}
	if kf.Err != "" {
		fmt.Println("BROKEN: known-finding class does not evaluate:", kf.Err)
		return "new"
	}
	var b strings.Builder
	b.WriteString("(set-option :produce-models true)\n(set-logic ALL)\n")
	for _, l := range vc.Lines[:o.PreludeLen] {
		b.WriteString(l + "\n")
	}
	for _, l := range kf.Extra {
		b.WriteString(l + "\n")
	}
	b.WriteString("(assert " + tAnd(o.Cond, tNot(o.Goal), tNot(kf.ClassTerm)).S + ")\n(check-sat)\n")
	file := filepath.Join(work, "known_"+replayName(o)+".smt2")
	r, _ := solveOne(b.String(), file, opts)
	if r.Status == "unsat" {
		return "known"
	}
	o.Output = "outside the known-finding class: " + r.Output
	return "new"
}

// stripOrd removes the per-kind ordinal "[n]" from an obligation name, so that a finding can name every
// return site / occurrence of the same clause in a function.
func stripOrd(name string) string {
	i := strings.Index(name, "#")
	if i < 0 {
		return name
	}
	j := strings.Index(name[i:], "[")
	k := strings.Index(name[i:], "]")
	b := strings.Index(name[i:], "{")
	if j < 0 || k < j || (b >= 0 && j > b) {
		return name
	}
	return name[:i+j] + name[i+k+1:]
}
