package main

// Maps: for single-component keys the map is (dom, val...) arrays in the heap keyed by map id;
// other key shapes are opaque (lookups return arbitrary values).

import (
	"fmt"
	"go/types"
	"math/big"

	"golang.org/x/tools/go/ssa"
)

func mapModeled(t types.Type) (*types.Map, bool) {
	m, ok := under(t).(*types.Map)
	if !ok {
		return nil, false
	}
	kl := layout(m.Key())
	if len(kl) != 1 || kl[0].Sort != SInt {
		return m, false
	}
	for _, c := range layout(m.Elem()) {
		if c.Kind == KArray {
			return m, false
		}
	}
	return m, true
}

func mapDomKey(t types.Type) string { return "M|" + typeKey(t) + "|dom" }
func mapValKey(t types.Type, i int) string {
	return fmt.Sprintf("M|%s|val|%d", typeKey(t), i)
}
func mapLenKey(t types.Type) string { return "M|" + typeKey(t) + "|len" }

const domSort = "(Array Int (Array Int Bool))"

func valSort(s string) string { return "(Array Int (Array Int " + s + "))" }

func (g *Gen) makeMap(st *State, t types.Type) Val {
	id := g.alloc(st, intLit(1))
	if m, ok := mapModeled(t); ok {
		_ = m
		dom := g.heapGet(st, mapDomKey(t), domSort)
		g.heapSet(st, mapDomKey(t), tStore(dom, id, raw("((as const (Array Int Bool)) false)", "(Array Int Bool)")))
	}
	ln := g.heapGet(st, mapLenKey(t), arrSort(SInt))
	g.heapSet(st, mapLenKey(t), tStore(ln, id, intLit(0)))
	return Val{Typ: t, Comps: []Term{id}}
}

func (g *Gen) mapLen(st *State, m Val) Term {
	ln := g.heapGet(st, mapLenKey(m.Typ), arrSort(SInt))
	t := tSelect(ln, m.Comps[0], SInt)
	if g.noName == 0 {
		t = g.name("maplen", t)
		g.emit("(assert (>= " + t.S + " 0))")
	}
	t.Lo = big.NewInt(0)
	return t
}

func (g *Gen) mapHas(st *State, m Val, k Val) Term {
	if _, ok := mapModeled(m.Typ); !ok {
		n := g.sym("maphas")
		g.declare(n, SBool)
		return Term{S: n, Sort: SBool}
	}
	dom := g.heapGet(st, mapDomKey(m.Typ), domSort)
	return tAnd(tNot(tEq(m.Comps[0], intLit(0))), tSelect(tSelect(dom, m.Comps[0], "(Array Int Bool)"), k.Comps[0], SBool))
}

func (g *Gen) mapLookup(st *State, m Val, k Val) Val {
	mt, ok := mapModeled(m.Typ)
	if !ok {
		v := g.freshVal("mapval", mt.Elem())
		g.assumeWF(st, v)
		return v
	}
	has := g.mapHas(st, m, k)
	ely := layout(mt.Elem())
	v := Val{Typ: mt.Elem()}
	for i, c := range ely {
		arr := g.heapGet(st, mapValKey(m.Typ, i), valSort(c.Sort))
		t := tSelect(tSelect(arr, m.Comps[0], arrSort(c.Sort)), k.Comps[0], c.Sort)
		t = tIte(has, t, zeroComp(c))
		if g.noName == 0 {
			t = g.typedLoad(t, c)
		}
		v.Comps = append(v.Comps, t)
	}
	if g.noName == 0 {
		g.assumeWF(st, v)
	}
	return v
}

func (g *Gen) mapUpdate(st *State, m, k, v Val) {
	mt, ok := mapModeled(m.Typ)
	g.bumpTokAt(st, &m.Comps[0], true)
	// length: unknown growth by 0 or 1
	ln := g.heapGet(st, mapLenKey(m.Typ), arrSort(SInt))
	oldLen := tSelect(ln, m.Comps[0], SInt)
	if !ok {
		nl := g.freshComp("maplen", Comp{Sort: SInt, Kind: KOpaque})
		g.assume(st.cond, tAnd(tCmp(">=", nl, oldLen), tCmp("<=", nl, tAdd(oldLen, intLit(1)))))
		g.heapSet(st, mapLenKey(m.Typ), tStore(ln, m.Comps[0], nl))
		return
	}
	has := g.mapHas(st, m, k)
	g.heapSet(st, mapLenKey(m.Typ), tStore(ln, m.Comps[0], tIte(has, oldLen, tAdd(oldLen, intLit(1)))))
	dom := g.heapGet(st, mapDomKey(m.Typ), domSort)
	d1 := tStore(tSelect(dom, m.Comps[0], "(Array Int Bool)"), k.Comps[0], boolLit(true))
	g.heapSet(st, mapDomKey(m.Typ), tStore(dom, m.Comps[0], d1))
	for i, c := range layout(mt.Elem()) {
		arr := g.heapGet(st, mapValKey(m.Typ, i), valSort(c.Sort))
		a1 := tStore(tSelect(arr, m.Comps[0], arrSort(c.Sort)), k.Comps[0], v.Comps[i])
		g.heapSet(st, mapValKey(m.Typ, i), tStore(arr, m.Comps[0], a1))
	}
}

func (g *Gen) mapDelete(st *State, m, k Val) {
	g.bumpTokAt(st, &m.Comps[0], false)
	ln := g.heapGet(st, mapLenKey(m.Typ), arrSort(SInt))
	oldLen := tSelect(ln, m.Comps[0], SInt)
	if _, ok := mapModeled(m.Typ); !ok {
		nl := g.freshComp("maplen", Comp{Sort: SInt, Kind: KOpaque})
		g.assume(st.cond, tAnd(tCmp("<=", nl, oldLen), tCmp(">=", nl, tSub(oldLen, intLit(1)))))
		g.heapSet(st, mapLenKey(m.Typ), tStore(ln, m.Comps[0], nl))
		return
	}
	has := g.mapHas(st, m, k)
	g.heapSet(st, mapLenKey(m.Typ), tStore(ln, m.Comps[0], tIte(has, tSub(oldLen, intLit(1)), oldLen)))
	dom := g.heapGet(st, mapDomKey(m.Typ), domSort)
	d1 := tStore(tSelect(dom, m.Comps[0], "(Array Int Bool)"), k.Comps[0], boolLit(false))
	g.heapSet(st, mapDomKey(m.Typ), tStore(dom, m.Comps[0], d1))
}

func (f *Frame) lookup(t *ssa.Lookup, st *State) {
	g := f.g
	x := f.val(t.X, t.X.Type())
	idx := f.val(t.Index, t.Index.Type())
	if _, isMap := under(t.X.Type()).(*types.Map); !isMap {
		// string index
		ln := withBounds(app("strlen", SInt, x.Comps[0]), big.NewInt(0), nil)
		g.oblige(st, "bounds", t.Pos(), f.text(t.Pos()), tAnd(tCmp("<=", intLit(0), idx.Comps[0]), tCmp("<", idx.Comps[0], ln)))
		g.declareFun("strbyte", []string{SInt, SInt}, SInt)
		b := g.typedLoad(app("strbyte", SInt, x.Comps[0], idx.Comps[0]), Comp{Sort: SInt, Kind: KInt, Typ: types.Typ[types.Uint8]})
		f.set(t, Val{Comps: []Term{b}})
		return
	}
	x.Typ = t.X.Type()
	v := g.mapLookup(st, x, idx)
	if t.CommaOk {
		has := g.mapHas(st, x, idx)
		f.set(t, Val{Comps: append(append([]Term{}, v.Comps...), has)})
	} else {
		f.set(t, v)
	}
}

func (lm *loopMods) addMap(t types.Type) {
	lm.keys[mapLenKey(t)] = arrSort(SInt)
	if mt, ok := mapModeled(t); ok {
		lm.keys[mapDomKey(t)] = domSort
		for i, c := range layout(mt.Elem()) {
			lm.keys[mapValKey(t, i)] = valSort(c.Sort)
		}
	}
}

func (g *Gen) havocMaps(st *State) {}
