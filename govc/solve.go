package main

// Solver back ends: z3-new (5.x), cvc5, z3 (4.8); first definite answer wins.

import (
	"bytes"
	"context"
	"fmt"
	"os"
	"os/exec"
	"path/filepath"
	"strings"
	"sync"
	"time"
)

type SolverResult struct {
	Status string // unsat | sat | unknown | timeout | error
	Output string
	TimeS  float64
	Solver string
}

var solverOrder = []string{"z3-new", "cvc5", "z3"}

func runSolver(name, file string, timeout time.Duration) SolverResult {
	return runSolverCtx(context.Background(), name, file, timeout)
}

func runSolverCtx(parent context.Context, name, file string, timeout time.Duration) SolverResult {
	var cmd *exec.Cmd
	ctx, cancel := context.WithTimeout(parent, timeout+2*time.Second)
	defer cancel()
	ms := fmt.Sprint(int(timeout / time.Millisecond))
	switch name {
	case "z3-new":
		cmd = exec.CommandContext(ctx, "z3-new", "-t:"+ms, file)
	case "z3":
		cmd = exec.CommandContext(ctx, "/usr/bin/z3", "-t:"+ms, file)
	case "cvc5":
		cmd = exec.CommandContext(ctx, "cvc5", "--tlimit="+ms, "--lang=smt2", file)
	}
	var out bytes.Buffer
	cmd.Stdout = &out
	cmd.Stderr = &out
	t0 := time.Now()
	_ = cmd.Run()
	el := time.Since(t0).Seconds()
	s := out.String()
	first := strings.TrimSpace(strings.SplitN(s, "\n", 2)[0])
	r := SolverResult{Output: s, TimeS: el, Solver: name}
	switch first {
	case "unsat", "sat", "unknown":
		r.Status = first
	default:
		if ctx.Err() != nil || strings.Contains(s, "timeout") || strings.Contains(s, "interrupted") {
			r.Status = "timeout"
		} else {
			r.Status = "error"
		}
	}
	return r
}

type SolveOpts struct {
	TimeoutS  float64
	Consensus bool
	WorkDir   string
	Workers   int
	NoModel   bool // skip counterexample refinement (used by invariant inference)
}

// raceSolvers runs the given solvers concurrently; returns when `need` of them said unsat or one said sat.
func raceSolvers(names []string, file string, to time.Duration, need int) (SolverResult, []SolverResult) {
	ctx, cancel := context.WithCancel(context.Background())
	defer cancel()
	ch := make(chan SolverResult, len(names))
	for _, n := range names {
		go func(n string) { ch <- runSolverCtx(ctx, n, file, to) }(n)
	}
	var tries []SolverResult
	var unsatBy []string
	var firstUnsat *SolverResult
	for range names {
		r := <-ch
		tries = append(tries, r)
		switch r.Status {
		case "sat":
			return r, tries
		case "unsat":
			unsatBy = append(unsatBy, r.Solver)
			if firstUnsat == nil {
				rr := r
				firstUnsat = &rr
			}
			if len(unsatBy) >= need {
				rr := *firstUnsat
				rr.Solver = strings.Join(unsatBy, "+")
				return rr, tries
			}
		}
	}
	if firstUnsat != nil {
		rr := *firstUnsat
		rr.Solver += "(single)"
		return rr, tries
	}
	best := tries[0]
	allErr := true
	for _, t := range tries {
		if t.Status != "error" {
			allErr = false
			best = t
		}
	}
	if !allErr {
		best.Status = "unknown"
	}
	return best, tries
}

// solveOne decides one obligation script; returns the deciding result and all attempts.
func solveOne(script, file string, opts SolveOpts) (SolverResult, []SolverResult) {
	_ = os.WriteFile(file, []byte(script), 0o644)
	to := time.Duration(opts.TimeoutS * float64(time.Second))
	if !opts.Consensus {
		quick := 2 * time.Second
		if quick > to {
			quick = to
		}
		r := runSolver("z3-new", file, quick)
		if r.Status == "sat" || r.Status == "unsat" {
			return r, []SolverResult{r}
		}
		rr, tries := raceSolvers(solverOrder, file, to, 1)
		return rr, append([]SolverResult{r}, tries...)
	}
	return raceSolvers(solverOrder, file, to, 2)
}

type job struct {
	vc    *FuncVC
	o     *Obligation
	cover bool
}

func solveAll(vcs []*FuncVC, opts SolveOpts, withCovers bool) {
	var jobs []job
	for _, vc := range vcs {
		for _, o := range vc.Obls {
			jobs = append(jobs, job{vc, o, false})
		}
		if withCovers {
			for _, o := range vc.Covers {
				jobs = append(jobs, job{vc, o, true})
			}
		}
	}
	ch := make(chan job)
	var wg sync.WaitGroup
	if opts.Workers == 0 {
		opts.Workers = 16
	}
	var ctr int
	var mu sync.Mutex
	for w := 0; w < opts.Workers; w++ {
		wg.Add(1)
		go func() {
			defer wg.Done()
			for j := range ch {
				mu.Lock()
				ctr++
				n := ctr
				mu.Unlock()
				file := filepath.Join(opts.WorkDir, fmt.Sprintf("q%05d.smt2", n))
				if j.cover {
					script := j.vc.smtFor(j.o, false, nil)
					r := runSolver("z3-new", file2(file, script), time.Duration(opts.TimeoutS*float64(time.Second)))
					if r.Status != "sat" && r.Status != "unsat" {
						r = runSolver("cvc5", file, time.Duration(opts.TimeoutS*float64(time.Second)))
					}
					j.o.Status, j.o.Solver, j.o.TimeS, j.o.Output = r.Status, r.Solver, r.TimeS, r.Output
					continue
				}
				qs := j.vc.modelQueries(j.o)
				var exprs []string
				for _, q := range qs {
					exprs = append(exprs, q.Expr)
				}
				script := j.vc.smtFor(j.o, true, exprs)
				r, tries := solveOne(script, file, opts)
				j.o.Status, j.o.Solver, j.o.Output = r.Status, r.Solver, r.Output
				for _, t := range tries {
					j.o.TimeS += t.TimeS
				}
				if opts.NoModel {
					continue
				}
				if r.Status == "sat" {
					// prefer a small, replayable counterexample
					if hints := j.vc.smallModelHints(); len(hints) > 0 {
						s2 := j.vc.smtFor(j.o, true, exprs, hints...)
						r2, tries2 := solveOne(s2, file+".small.smt2", opts)
						for _, t := range tries2 {
							j.o.TimeS += t.TimeS
						}
						if r2.Status == "sat" {
							r = r2
							j.o.Status, j.o.Solver, j.o.Output = r.Status, r.Solver, r.Output
						}
					}
				}
				if r.Status != "unsat" && r.Status != "sat" {
					// no definite answer: look for a candidate counterexample without the quantified facts
					// (weaker problem; the candidate only counts if the replay on the real code confirms it)
					s3 := j.vc.smtForRelaxed(j.o, exprs, j.vc.smallModelHints())
					r3, _ := solveOne(s3, file+".relaxed.smt2", opts)
					if r3.Status == "sat" {
						j.o.Model = parseModel(r3.Output, qs)
						j.o.Candidate = true
					}
				}
				if r.Status == "sat" {
					j.o.Model = parseModel(r.Output, qs)
				}
				if r.Status == "unsat" && os.Getenv("GOVC_KEEP") == "" {
					os.Remove(file)
				}
			}
		}()
	}
	for _, j := range jobs {
		ch <- j
	}
	close(ch)
	wg.Wait()
}

func file2(file, script string) string {
	_ = os.WriteFile(file, []byte(script), 0o644)
	return file
}

type modelQuery struct {
	Desc string
	Expr string
}

// parseModel extracts "(expr value)" pairs from a get-value answer, in query order.
func parseModel(out string, qs []modelQuery) map[string]string {
	m := map[string]string{}
	i := strings.Index(out, "\n")
	if i < 0 {
		return m
	}
	body := strings.TrimSpace(out[i+1:])
	vals := splitPairs(body)
	for k, q := range qs {
		if k < len(vals) {
			m[q.Desc] = vals[k]
		}
	}
	return m
}

// splitPairs parses "((e1 v1) (e2 v2) ...)" returning the v's; tolerant of nested parens.
func splitPairs(s string) []string {
	var out []string
	s = strings.TrimSpace(s)
	if !strings.HasPrefix(s, "(") {
		return out
	}
	depth := 0
	start := -1
	for i := 0; i < len(s); i++ {
		switch s[i] {
		case '(':
			depth++
			if depth == 2 {
				start = i
			}
		case ')':
			if depth == 2 && start >= 0 {
				pair := s[start+1 : i]
				out = append(out, lastSexpr(pair))
				start = -1
			}
			depth--
		}
	}
	return out
}

// lastSexpr returns the last top-level s-expression of "expr value".
func lastSexpr(p string) string {
	p = strings.TrimSpace(p)
	if strings.HasSuffix(p, ")") {
		depth := 0
		for i := len(p) - 1; i >= 0; i-- {
			switch p[i] {
			case ')':
				depth++
			case '(':
				depth--
				if depth == 0 {
					return normNum(p[i:])
				}
			}
		}
	}
	j := strings.LastIndexAny(p, " \t\n")
	return normNum(p[j+1:])
}

func normNum(s string) string {
	s = strings.TrimSpace(s)
	if strings.HasPrefix(s, "(-") {
		t := strings.TrimSpace(strings.TrimSuffix(strings.TrimPrefix(s, "(-"), ")"))
		return "-" + t
	}
	return s
}
