package main

// `govc check <property>`: verify every function/lemma tagged with the property, write evidence, report.

import (
	"encoding/json"
	"flag"
	"fmt"
	"os"
	"path/filepath"
	"runtime"
	"sort"
	"strconv"
	"strings"
	"time"
)

type Finding struct {
	Kind     string // "finding" or "fixed"
	Property string
	Obl      string // obligation name (exact)
	Class    string // predicate over the function's entry state (contract syntax); "" = whole obligation
	Text     string
}

func loadFindings() []Finding {
	b, err := os.ReadFile(filepath.Join(verifDir, "known_findings.txt"))
	if err != nil {
		return nil
	}
	var out []Finding
	for _, l := range strings.Split(string(b), "\n") {
		l = strings.TrimSpace(l)
		if l == "" || strings.HasPrefix(l, "#") {
			continue
		}
		var f Finding
		switch {
		case strings.HasPrefix(l, "finding:"):
			f.Kind = "finding"
			l = strings.TrimSpace(strings.TrimPrefix(l, "finding:"))
		case strings.HasPrefix(l, "fixed:"):
			f.Kind = "fixed"
			f.Text = strings.TrimSpace(strings.TrimPrefix(l, "fixed:"))
			out = append(out, f)
			continue
		default:
			continue
		}
		// property=Cxx obligation=<name until " class=" or end> class="..." prose
		if i := strings.Index(l, "property="); i >= 0 {
			f.Property = strings.Fields(l[i+9:])[0]
		}
		if i := strings.Index(l, "obligation="); i >= 0 {
			rest := l[i+11:]
			j := strings.Index(rest, " class=\"")
			if j < 0 {
				j = strings.Index(rest, " -- ")
			}
			if j < 0 {
				j = len(rest)
			}
			f.Obl = strings.TrimSpace(rest[:j])
			rest = rest[j:]
			if strings.HasPrefix(rest, " class=\"") {
				rest = rest[8:]
				k := strings.Index(rest, "\"")
				if k >= 0 {
					f.Class = rest[:k]
					f.Text = strings.TrimSpace(rest[k+1:])
				}
			} else {
				f.Text = strings.TrimSpace(strings.TrimPrefix(rest, " -- "))
			}
		}
		out = append(out, f)
	}
	return out
}

type oblReport struct {
	Name   string  `json:"name"`
	Status string  `json:"status"`
	Solver string  `json:"solver,omitempty"`
	TimeS  float64 `json:"time_s"`
}

func hasProp(ps []string, p string) bool {
	for _, x := range ps {
		if x == p {
			return true
		}
	}
	return false
}

func cmdCheck(args []string) int {
	fs := flag.NewFlagSet("check", flag.ExitOnError)
	tier := fs.String("tier", "quick", "quick|thorough")
	verbose := fs.Bool("v", false, "verbose")
	var prop string
	if len(args) > 0 && !strings.HasPrefix(args[0], "-") {
		prop = args[0]
		args = args[1:]
	}
	fs.Parse(args)
	if prop == "" && fs.NArg() > 0 {
		prop = fs.Arg(0)
	}
	if t := os.Getenv("VERIF_TIER"); t == "quick" || t == "thorough" {
		*tier = t
	}
	seed, _ := strconv.Atoi(os.Getenv("VERIF_SEED"))
	t0 := time.Now()
	ss, drift, err := loadContracts()
	if err != nil {
		fmt.Println("BROKEN: contracts:", err)
		return 2
	}
	for _, d := range drift {
		fmt.Println("CONTRACT-DRIFT", d, "(using the locked copy in /verif/contracts-lock)")
	}
	var keys []string
	for _, k := range ss.Order {
		c := ss.Contracts[k]
		if !c.Trusted && hasProp(c.Props, prop) && !c.SpecOnly && !c.Inline {
			keys = append(keys, k)
		}
	}
	var lemmas []*Lemma
	for _, l := range ss.Lemmas {
		if hasProp(l.Props, prop) {
			lemmas = append(lemmas, l)
		}
	}
	if len(keys) == 0 && len(lemmas) == 0 {
		fmt.Printf("BROKEN: no contracts tagged %s\n", prop)
		return 2
	}
	pats := pkgPatternsFor(ss, keys)
	for _, l := range lemmas {
		found := false
		for _, p := range pats {
			if p == l.Pkg {
				found = true
			}
		}
		if !found {
			pats = append(pats, l.Pkg)
		}
	}
	ctx, err := loadCtx(repoDir, pats)
	if err != nil {
		fmt.Println("BROKEN: cannot load /repo packages:", err)
		return 2
	}
	ctx.contracts = ss.Contracts
	ctx.specs = ss
	loadS := time.Since(t0).Seconds()
	findings := loadFindings()

	work := filepath.Join(verifDir, ".work", fmt.Sprintf("%s-%d", prop, os.Getpid()))
	os.MkdirAll(work, 0o755)
	defer os.RemoveAll(work)

	var vcs []*FuncVC
	var undecided []string
	for _, k := range keys {
		if ct := ss.Contracts[k]; ct.IsIface {
			// refinement: every implementing method in the package satisfies the interface-level contract
			rvcs, und := ctx.genRefinements(ct)
			undecided = append(undecided, und...)
			for _, vc := range rvcs {
				vc.attachFindings(findings, prop)
				vcs = append(vcs, vc)
			}
			continue
		}
		fn := ctx.lookupFunc(k)
		if fn == nil {
			undecided = append(undecided, shortKey(k)+": contract target not found in /repo")
			continue
		}
		ct := ss.Contracts[k]
		hd := ctx.houdini(fn, ct, work)
		vc := ctx.genFunc(fn, ct, hd)
		vc.attachFindings(findings, prop)
		vcs = append(vcs, vc)
	}
	// package invariants: verify the package initialiser establishes them and nobody else writes the globals
	invPkgs := map[string]bool{}
	for _, inv := range ss.Invs {
		if hasProp(inv.Props, prop) && ctx.typPkgs[inv.Pkg] != nil && !invPkgs[inv.Pkg] {
			invPkgs[inv.Pkg] = true
			key := inv.Pkg + ".init"
			fn := ctx.lookupFunc(key)
			if fn == nil {
				undecided = append(undecided, shortKey(key)+": package initialiser not found")
				continue
			}
			ct := ss.Contracts[key]
			vc := ctx.genFunc(fn, ct, nil)
			vc.Obls = append(vc.Obls, ctx.globalWriteScan(inv.Pkg, ss.Invs)...)
			vc.attachFindings(findings, prop)
			vcs = append(vcs, vc)
		}
	}
	for _, l := range lemmas {
		vc := ctx.genLemma(l)
		vc.attachFindings(findings, prop)
		vcs = append(vcs, vc)
	}
	opts := SolveOpts{TimeoutS: 20, WorkDir: work, Workers: min(16, max(2, runtime.NumCPU()))}
	if *tier == "thorough" {
		opts.TimeoutS = 60
		opts.Consensus = true
	}
	solveAll(vcs, opts, true)

	// ---- report
	broken := []string{}
	nObl, nDis := 0, 0
	bySolver := map[string]int{}
	byKind := map[string]int{}
	solverTime := 0.0
	var samples []oblReport
	var failed []*Obligation
	failedVC := map[*Obligation]*FuncVC{}
	var funcs []string
	havoc := map[string]bool{}
	trusted := map[string]bool{}
	notes := map[string]bool{}
	var specErrs, unsupp []string
	covers := 0
	knownHits := []string{}
	// assumptions that come with contract options of this property's contracts (every one of them is listed)
	for _, k := range keys {
		ct := ss.Contracts[k]
		if ct == nil {
			continue
		}
		if len(ct.Unverified) > 0 {
			trusted["assumed, not proved: "+strings.Join(ct.Unverified, ", ")+" satisfy the interface contract "+shortKey(k)] = true
		}
		if ct.Pure && !ct.SpecOnly && ct.Claims != nil && !ct.Claims["frame"] {
			trusted["assumed: "+shortKey(k)+" is side-effect free (pure; its frame is not among the obligation kinds claimed for it)"] = true
		}
		if ct.AssumeChecks {
			notes["assume-checks in "+shortKey(k)+": past a run-time check of a Go statement (bounds, nil, division, make, type assertion) the checked condition is assumed on the rest of the path"] = true
		}
	}
	for k, ct := range ss.Contracts {
		// pure / spec-only functions whose bodies are not verified but whose applications appear in this
		// property's specifications are uninterpreted functions of their arguments and the heap
		if ct != nil && ct.SpecOnly && usedSpecOnly(ss, keys, k) {
			trusted["assumed: "+shortKey(k)+" is side-effect free and a function of its arguments and the heap (spec-only, body not verified)"] = true
		}
	}
	for _, vc := range vcs {
		funcs = append(funcs, shortKey(vc.Key))
		for _, e := range vc.SpecErrs {
			specErrs = append(specErrs, e)
		}
		for _, u := range vc.Unsupported {
			unsupp = append(unsupp, shortKey(vc.Key)+": "+u)
		}
		for _, h := range vc.HavocCallees {
			havoc[h] = true
		}
		if vc.Gen != nil {
			for t := range vc.Gen.usedTrusted {
				trusted[t] = true
			}
		}
		for _, n := range vc.Notes {
			notes[n] = true
		}
		reach := false
		for _, o := range vc.Covers {
			covers++
			if strings.Contains(o.Name, "cover[pre]") {
				if o.Status != "sat" {
					broken = append(broken, fmt.Sprintf("vacuous precondition (%s) in %s", o.Status, shortKey(vc.Key)))
				}
			} else if strings.Contains(o.Name, "#reach[") {
				// a `reachable` clause: SAT is the proof (a witness execution prefix exists); UNSAT is a violation
				nObl++
				byKind["reach"]++
				if o.Status == "sat" {
					nDis++
					bySolver[o.Solver]++
				} else {
					failed = append(failed, o)
					failedVC[o] = vc
				}
			} else if o.Status == "sat" {
				reach = true
			}
		}
		if !reach && len(vc.Covers) > 1 {
			broken = append(broken, "no reachable return in "+shortKey(vc.Key))
		}
		for _, o := range vc.Obls {
			solverTime += o.TimeS
			if kf := vc.FindingFor[o.Name]; kf != nil {
				// known finding: must still fail, and only inside its class
				res := vc.checkKnown(o, kf, opts, work)
				switch res {
				case "known":
					knownHits = append(knownHits, fmt.Sprintf("KNOWN-FINDING: property=%s %s %s", prop, shortKey(o.Name), kf.Text))
				case "gone":
					// the obligation now discharges: nothing to report (entry can become a fixed: line)
					nObl++
					nDis++
				default:
					failed = append(failed, o)
					failedVC[o] = vc
					nObl++
				}
				continue
			}
			nObl++
			byKind[o.Kind]++
			if o.Status == "unsat" {
				nDis++
				bySolver[o.Solver]++
			} else {
				failed = append(failed, o)
				failedVC[o] = vc
			}
			if len(samples) < 12 || o.Status != "unsat" {
				samples = append(samples, oblReport{shortKey(o.Name), statusWord(o.Status), o.Solver, round3(o.TimeS)})
			}
			if os.Getenv("GOVC_SLOW") != "" && o.TimeS >= 2 {
				fmt.Fprintf(os.Stderr, "SLOW %.1fs %s %s\n", o.TimeS, statusWord(o.Status), shortKey(o.Name))
			}
		}
	}
	sort.Strings(funcs)
	wall := time.Since(t0).Seconds()

	// floors
	floorObl, floorFn := loadFloor(prop)
	if nObl < floorObl || len(vcs) < floorFn {
		broken = append(broken, fmt.Sprintf("obligation/function count %d/%d below recorded floor %d/%d", nObl, len(vcs), floorObl, floorFn))
	}
	if len(specErrs) > 0 {
		for _, e := range specErrs {
			broken = append(broken, "contract does not evaluate: "+e)
		}
	}

	exit := 0
	var violLines []string
	for _, o := range failed {
		vc := failedVC[o]
		path, confirmed := writeReplay(ctx, vc, o, prop)
		line := fmt.Sprintf("VIOLATION property=%s replay=%s", prop, path)
		if !confirmed {
			line += " no-failing-input-found"
		}
		fmt.Printf("FAILED %s  %s (%s %.2fs)\n", shortKey(o.Name), o.Status, o.Solver, o.TimeS)
		violLines = append(violLines, line)
		exit = 1
	}
	for _, k := range knownHits {
		fmt.Println(k)
	}
	ev := map[string]interface{}{
		"property_id": prop,
		"tier":        *tier,
		"seed":        seed,
		"level":       "proof",
		"wall_s":      round3(wall),
		"violations":  len(failed),
		"coverage": map[string]interface{}{
			"obligations":              nObl,
			"discharged":               nDis,
			"checker_cmd":              fmt.Sprintf("/verif/bin/govc check %s --tier %s", prop, *tier),
			"trusted_base":             trustedBase(trusted),
			"functions_under_contract": funcs,
			"lemmas":                   lemmaNames(lemmas),
			"by_solver":                bySolver,
			"by_kind":                  byKind,
			"solver_time_s":            round3(solverTime),
			"package_load_s":           round3(loadS),
			"vacuity_checks":           covers,
			"havoc_callees":            sortedKeys(havoc),
			"abstractions":             sortedKeys(withRebindNotes(notes, funcs)),
			"unsupported":              unsupp,
			"known_findings_hit":       knownHits,
			"undecided":                undecided,
			"samples":                  samples,
			"integer_model":            "mathematical Int with explicit wrap-around at every fixed-width operation (no bit-vectors)",
			"timeout_s":                opts.TimeoutS,
			"consensus":                opts.Consensus,
			"contract_drift":           drift,
		},
		"assumptions": globalAssumptions(),
	}
	if os.Getenv("GOVC_NOEVIDENCE") == "" {
		os.MkdirAll(filepath.Join(verifDir, "evidence"), 0o755)
		eb, _ := json.MarshalIndent(ev, "", " ")
		os.WriteFile(filepath.Join(verifDir, "evidence", prop+".json"), eb, 0o644)
	}

	fmt.Printf("govc: %s %s: %d functions/lemmas, %d obligations, %d discharged, %d known findings; load %.1fs solver %.1fs wall %.1fs\n",
		prop, *tier, len(vcs), nObl, nDis, len(knownHits), loadS, solverTime, wall)
	if *verbose {
		for _, h := range sortedKeys(havoc) {
			fmt.Println("  havoc-callee:", h)
		}
		for _, u := range unsupp {
			fmt.Println("  unsupported:", u)
		}
	}
	for _, l := range violLines {
		fmt.Println(l)
	}
	if exit == 1 {
		return 1
	}
	if len(broken) > 0 {
		for _, b := range broken {
			fmt.Println("BROKEN:", b)
		}
		return 2
	}
	if len(undecided) > 0 {
		for _, u := range undecided {
			fmt.Println("UNDECIDED:", u)
		}
		return 3
	}
	fmt.Printf("OK property=%s\n", prop)
	return 0
}

func statusWord(s string) string {
	if s == "unsat" {
		return "discharged"
	}
	if s == "sat" {
		return "counterexample"
	}
	return s
}

func round3(f float64) float64 { return float64(int(f*1000+0.5)) / 1000 }

func sortedKeys(m map[string]bool) []string {
	out := []string{}
	for k := range m {
		out = append(out, k)
	}
	sort.Strings(out)
	return out
}

func lemmaNames(ls []*Lemma) []string {
	out := []string{}
	for _, l := range ls {
		out = append(out, l.Name)
	}
	return out
}

// usedSpecOnly: the simple name of the spec-only function k occurs in the text of a clause of one of the contracts.
func usedSpecOnly(ss *SpecSet, keys []string, k string) bool {
	name := k
	if i := strings.LastIndex(name, "."); i >= 0 {
		name = name[i+1:]
	}
	name = strings.TrimSuffix(strings.TrimPrefix(name, "("), ")")
	for _, key := range keys {
		ct := ss.Contracts[key]
		if ct == nil {
			continue
		}
		for _, t := range ct.allClauseTexts() {
			if strings.Contains(t, name+"(") {
				return true
			}
		}
	}
	return false
}

func trustedBase(used map[string]bool) []string {
	out := []string{
		"go/ssa (x/tools v0.29.0) translation of /repo's working tree",
		"govc VC generator (/verif/govc)",
		"SMT solvers: z3 5.1.0 (z3-new), cvc5 1.0.x, z3 4.8.12",
	}
	var ext []string
	for k := range used {
		if strings.HasPrefix(k, "havoc:") {
			ext = append(ext, "external, result/heap arbitrary: "+strings.TrimPrefix(k, "havoc:"))
		} else if strings.HasPrefix(k, "assumed") {
			ext = append(ext, k)
		} else {
			ext = append(ext, "trusted model: "+k)
		}
	}
	sort.Strings(ext)
	return append(out, ext...)
}

func globalAssumptions() []string {
	return []string{
		"A1 go/ssa faithfully translates the Go source the compiler builds",
		"A2 the VC generator implements the documented semantics (mitigated by the must-fail selftest corpus and replay)",
		"A3 solvers answer unsat only for unsatisfiable queries",
		"A4 trusted models of external functions (listed in coverage.trusted_base) are correct",
		"A5 sequential semantics: no interference from other goroutines; locks/atomics are no-ops",
		"A6 machine integers are wrapped mathematical integers; int is 64 bit; slice capacities <= 2^40",
		"A8 no unsafe/reflection writes in the functions under contract",
		"A9 termination proved only where a decreases clause is listed",
		"A11 pointer receivers of methods under contract are non-nil (checked at contracted call sites)",
		"A12 vacuity covers are checked without the quantified facts of the prelude",
	}
}

type floorRec struct {
	Obligations int `json:"obligations"`
	Functions   int `json:"functions"`
}

func loadFloor(prop string) (int, int) {
	b, err := os.ReadFile(filepath.Join(verifDir, "floors.json"))
	if err != nil {
		return 1, 1
	}
	m := map[string]floorRec{}
	if json.Unmarshal(b, &m) != nil {
		return 1, 1
	}
	if f, ok := m[prop]; ok {
		return f.Obligations, f.Functions
	}
	return 1, 1
}

// withRebindNotes adds one note per function of this check whose clauses were read with renamed locals (rebind.go).
func withRebindNotes(notes map[string]bool, funcs []string) map[string]bool {
	for ck, m := range theRebinder.maps {
		if len(m) == 0 {
			continue
		}
		i := strings.Index(ck, "\x00")
		if i < 0 {
			continue
		}
		fn := ck[i+1:] // "<recv>.<name>"
		name := fn[strings.Index(fn, ".")+1:]
		for _, f := range funcs {
			if strings.Contains(f, name) {
				var parts []string
				for a, b := range m {
					parts = append(parts, a+"->"+b)
				}
				sort.Strings(parts)
				notes["clauses of "+f+" read with locals renamed since HEAD ("+strings.Join(parts, ", ")+")"] = true
			}
		}
	}
	return notes
}
