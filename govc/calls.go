package main

// Calls: modular (contract) calls, inlining, interface dispatch, frame obligations, builtins.

import (
	"fmt"
	"go/token"
	"go/types"
	"golang.org/x/tools/go/ssa/ssautil"
	"math/big"
	"sort"
	"strings"

	"golang.org/x/tools/go/ssa"
)

type ModEntry struct {
	Key  string // "" = wildcard over Typ's leaves; otherwise heap key prefix (without comp suffix)
	Lo   Term   // address interval [Lo, Hi)
	Hi   Term
	Typ  types.Type // wildcard: aggregate type at Lo; slice range: element type
	Rng  bool       // slice element range
	Text string
}

const maxInlineDepth = 6

func (f *Frame) call(instr ssa.Instruction, c *ssa.CallCommon, st *State, res ssa.Value) {
	var args []Val
	for _, a := range c.Args {
		args = append(args, f.val(a, a.Type()))
	}
	f.checkAtCall(instr, c, st)
	if callee := c.StaticCallee(); callee != nil {
		if st.called == nil {
			st.called = map[string]Term{}
		}
		st.called[f.g.ctx.funcKey(callee)] = boolLit(true)
	}
	f.curCallArgs = c.Args
	vals := f.callCommon(instr, c, st, res, args)
	f.curCallArgs = nil
	if res != nil {
		f.setResult(res, vals)
	}
}

func (f *Frame) setResult(res ssa.Value, vals []Val) {
	if tup, ok := res.Type().(*types.Tuple); ok {
		v := Val{}
		for i := 0; i < tup.Len(); i++ {
			if i < len(vals) {
				v.Comps = append(v.Comps, vals[i].Comps...)
			}
		}
		f.set(res, v)
		return
	}
	if len(vals) == 1 {
		f.set(res, vals[0])
	} else if len(vals) == 0 {
		f.vals[res] = Val{Typ: res.Type()}
	}
}

// callCommon executes a call and returns the result values.
func (f *Frame) callCommon(instr ssa.Instruction, c *ssa.CallCommon, st *State, res ssa.Value, args []Val) []Val {
	g := f.g
	sig := c.Signature()
	pos := instr.Pos()
	if c.IsInvoke() {
		recv := f.val(c.Value, c.Value.Type())
		return f.invoke(instr, c, st, recv, args)
	}
	switch callee := c.Value.(type) {
	case *ssa.Builtin:
		return f.builtin(instr, callee, c, st, args)
	case *ssa.Function:
		return f.callStatic(instr, callee, nil, st, args, pos)
	case *ssa.MakeClosure:
		if ci := f.closures[callee]; ci != nil {
			return f.callStatic(instr, ci.fn, ci.bindings, st, args, pos)
		}
	}
	// closure value defined elsewhere in this frame?
	if ci := f.closures[c.Value]; ci != nil {
		return f.callStatic(instr, ci.fn, ci.bindings, st, args, pos)
	}
	// a closure variable of the enclosing function, captured by reference (e.g. `split := func...`)
	if callee, bindings, ok := f.resolveCapturedClosure(c.Value); ok {
		return f.callStatic(instr, callee, bindings, st, args, pos)
	}
	// closure passed as parameter from an inlining caller
	if p, ok := c.Value.(*ssa.Parameter); ok && f.parent != nil {
		if ci := f.paramClosures[p]; ci != nil {
			return f.callStatic(instr, ci.fn, ci.bindings, st, args, pos)
		}
	}
	g.havocCallees["dynamic call in "+shortKey(g.ctx.funcKey(f.fn))+": "+f.text(pos)] = true
	g.frameHavoc(st, pos, f.text(pos))
	return f.havocCall(st, sig)
}

func (f *Frame) havocCall(st *State, sig *types.Signature) []Val {
	g := f.g
	g.havocAll(st)
	var out []Val
	for i := 0; i < sig.Results().Len(); i++ {
		v := g.freshVal("hres", sig.Results().At(i).Type())
		g.assumeWF(st, v)
		out = append(out, v)
	}
	return out
}

func (f *Frame) callStatic(instr ssa.Instruction, callee *ssa.Function, bindings []Val, st *State, args []Val, pos token.Pos) []Val {
	g := f.g
	key := g.ctx.funcKey(callee)
	sig := callee.Signature
	if m, ok := externModels[key]; ok {
		g.usedTrusted[key] = true
		return m(f, instr, st, args, pos)
	}
	if i := strings.Index(key, "["); i > 0 {
		if m, ok := externModels[key[:i]+"[]"]; ok { // generic instantiation
			g.usedTrusted[key[:i]] = true
			return m(f, instr, st, args, pos)
		}
	}
	ct := g.ctx.contracts[key]
	// closures and synthetic wrappers are part of the enclosing text: inline
	isClosure := callee.Parent() != nil
	isWrapper := callee.Synthetic != "" && len(callee.Blocks) > 0 && callee.Pkg == nil || strings.HasPrefix(callee.Synthetic, "wrapper") || strings.HasPrefix(callee.Synthetic, "bound") || strings.HasPrefix(callee.Synthetic, "thunk")
	if g.topC != nil && g.topC.InlineAll && len(callee.Blocks) > 0 && pkgOf(callee) == pkgOf(g.top) && f.depth < maxInlineDepth && !(ct != nil && (ct.Pure || ct.Modular) && !ct.Inline) {
		// (callees under a `pure` contract stay uninterpreted functions with their proved postconditions)
		return f.inline(callee, bindings, st, args)
	}
	if ct != nil && !ct.Inline && !(isClosure && !hasCallerVisibleContract(ct)) {
		f.curBindings = bindings
		r := f.modularCall(instr, callee, ct, st, args, pos)
		f.curBindings = nil
		return r
	}
	if (isClosure || isWrapper || (ct != nil && ct.Inline)) && len(callee.Blocks) > 0 && f.depth < maxInlineDepth {
		return f.inline(callee, bindings, st, args)
	}
	if len(callee.Blocks) == 0 || callee.Pkg == nil || !strings.HasPrefix(callee.Pkg.Pkg.Path(), modPath) {
		g.usedTrusted["havoc:"+key] = true
	} else {
		g.havocCallees[shortKey(key)] = true
	}
	if !pureExternal(key) {
		g.frameHavoc(st, pos, f.text(pos))
	}
	if pureExternal(key) {
		var out []Val
		for i := 0; i < sig.Results().Len(); i++ {
			out = append(out, g.pureAppN(pureKey(callee, key), i, args, sig.Results().At(i).Type(), st))
		}
		for _, v := range out {
			g.assumeWF(st, v)
		}
		return out
	}
	return f.havocCall(st, sig)
}

func hasCallerVisibleContract(ct *Contract) bool {
	return len(ct.Ensures) > 0 || len(ct.Requires) > 0 || ct.Pure || ct.HasModifies
}

// inline executes the callee body in the caller's state.
func (f *Frame) inline(callee *ssa.Function, bindings []Val, st *State, args []Val) []Val {
	g := f.g
	sub := g.newFrame(callee, f)
	sub.inlineArgs = args
	sub.paramClosures = map[*ssa.Parameter]*closureInfo{}
	for i, p := range callee.Params {
		if i < len(args) {
			a := args[i]
			a.Typ = p.Type()
			sub.vals[p] = a
		}
	}
	for i, fv := range callee.FreeVars {
		if i < len(bindings) {
			sub.freeVals[fv] = bindings[i]
		}
	}
	// closures passed as arguments stay callable
	if call, ok := callerCall(f, callee, args); ok {
		for i, a := range call {
			if ci := f.closures[a]; ci != nil && i < len(callee.Params) {
				sub.paramClosures[callee.Params[i]] = ci
			}
		}
	}
	if ct := g.ctx.contracts[g.ctx.funcKey(callee)]; ct != nil && (len(ct.LoopInv) > 0 || len(ct.LoopDec) > 0) {
		// the inlined body keeps the loop annotations of the callee's own contract (re-checked in this context)
		sub.contract = &Contract{Key: ct.Key, File: ct.File, Line: ct.Line, LoopInv: ct.LoopInv, LoopDec: ct.LoopDec, LoopStep: map[int][]*Clause{}}
	}
	entry := st.clone()
	if sub.contract != nil {
		sub.entry = entry.clone()
	}
	sub.run(entry)
	if len(sub.rets) == 0 {
		st.cond = boolLit(false)
		var out []Val
		for i := 0; i < callee.Signature.Results().Len(); i++ {
			out = append(out, g.zeroVal(callee.Signature.Results().At(i).Type()))
		}
		return out
	}
	var sts []*State
	for _, r := range sub.rets {
		sts = append(sts, r.st)
	}
	m := g.mergeStates(sts)
	*st = *m
	nres := callee.Signature.Results().Len()
	out := make([]Val, nres)
	for i := 0; i < nres; i++ {
		v := sub.rets[len(sub.rets)-1].vals[i]
		for k := len(sub.rets) - 2; k >= 0; k-- {
			v = f.iteVal(sub.rets[k].st.cond, sub.rets[k].vals[i], v)
		}
		v.Typ = callee.Signature.Results().At(i).Type()
		out[i] = g.nameVal("inl", v)
	}
	return out
}

func callerCall(f *Frame, callee *ssa.Function, args []Val) ([]ssa.Value, bool) {
	return f.curCallArgs, f.curCallArgs != nil
}

// calleeEnv builds the evaluation environment of a callee contract at a call site.
func (f *Frame) calleeEval(callee *ssa.Function, st, old *State, args []Val, results []Val) *Eval {
	ev := &Eval{g: f.g, st: st, old: old, fn: callee, vars: map[string]Val{}, pkg: pkgOf(callee)}
	if callee.Syntax() != nil {
		ev.pos = callee.Syntax().End() - 1
	}
	bindNames(ev.vars, callee, args, results)
	// free variables of a contracted closure, by name (dereferenced in the evaluation state)
	for i, fv := range callee.FreeVars {
		if _, ok := ev.vars[fv.Name()]; ok || i >= len(f.curBindings) {
			continue
		}
		pv := f.curBindings[i]
		if len(pv.Comps) == 1 {
			ev.vars[fv.Name()] = f.g.loadVal(st, pv.Comps[0], fv.Type().(*types.Pointer).Elem())
		}
	}
	return ev
}

func bindNames(vars map[string]Val, fn *ssa.Function, args []Val, results []Val) {
	if fn.Signature.Recv() != nil && len(args) > 0 {
		a := args[0]
		a.Typ = fn.Params[0].Type()
		vars["self"] = a
	}
	off := 0
	if fn.Signature.Recv() != nil {
		off = 1
	}
	for i, p := range fn.Params {
		if i < len(args) {
			a := args[i]
			a.Typ = p.Type()
			vars[p.Name()] = a
			vars[p.Name()+"0"] = a
			if i >= off {
				vars[fmt.Sprintf("arg%d", i-off)] = a
			}
		}
	}
	rs := fn.Signature.Results()
	for i := 0; i < rs.Len() && i < len(results); i++ {
		r := results[i]
		r.Typ = rs.At(i).Type()
		if n := rs.At(i).Name(); n != "" && n != "_" {
			vars[n] = r
		}
		vars[fmt.Sprintf("result%d", i)] = r
		if rs.Len() == 1 {
			vars["result"] = r
		}
		if i == rs.Len()-1 && (rs.At(i).Name() == "" || rs.At(i).Name() == "_") && types.Identical(rs.At(i).Type(), errorType()) {
			vars["err"] = r
		}
	}
}

func (f *Frame) modularCall(instr ssa.Instruction, callee *ssa.Function, ct *Contract, st *State, args []Val, pos token.Pos) []Val {
	g := f.g
	key := g.ctx.funcKey(callee)
	g.usedContracts[key] = true
	if ct.Trusted {
		g.usedTrusted["trusted contract: "+key] = true
	}
	sig := callee.Signature
	src := f.text(pos)
	// implicit precondition: non-nil pointer receiver
	if sig.Recv() != nil && len(args) > 0 {
		if _, ok := under(sig.Recv().Type()).(*types.Pointer); ok && !ct.NilRecvOK {
			g.oblige(st, "pre", pos, src+" :: receiver != nil", tNot(tEq(args[0].Comps[0], intLit(0))))
		}
	}
	pre := st.clone()
	ev := f.calleeEval(callee, st, nil, args, nil)
	for _, r := range ct.Requires {
		t, err := ev.evalBool(r.Expr)
		if err != nil {
			g.specError(ct, r, err)
			continue
		}
		g.oblige(st, "pre", pos, src+" :: "+r.Text, t)
	}
	if ct.Pure {
		var out []Val
		for i := 0; i < sig.Results().Len(); i++ {
			out = append(out, g.pureAppN(pureKey(callee, key), i, args, sig.Results().At(i).Type(), st))
		}
		ev2 := f.calleeEval(callee, st, pre, args, out)
		for _, e := range ct.Ensures {
			t, err := ev2.evalBool(e.Expr)
			if err != nil {
				g.specError(ct, e, err)
				continue
			}
			g.assume(st.cond, t)
		}
		return out
	}
	// havoc
	if !ct.HasModifies {
		g.havocAll(st)
	} else {
		mods := f.evalMods(ct, ev)
		for _, m := range mods {
			g.frameCall(st, m, pos, src)
		}
		for _, m := range mods {
			g.havocEntry(st, m)
		}
		w := g.sym("W")
		g.declare(w, SInt)
		g.assume(boolLit(true), tCmp(">=", raw(w, SInt), st.W))
		st.W = Term{S: w, Sort: SInt}
		for _, m := range mods {
			lo := m.Lo
			g.bumpTokAt(st, &lo, true)
		}
	}
	var out []Val
	for i := 0; i < sig.Results().Len(); i++ {
		v := g.freshVal("res_"+callee.Name(), sig.Results().At(i).Type())
		g.assumeWF(st, v)
		out = append(out, v)
	}
	ev2 := f.calleeEval(callee, st, pre, args, out)
	for _, e := range ct.Ensures {
		t, err := ev2.evalBool(e.Expr)
		if err != nil {
			g.specError(ct, e, err)
			continue
		}
		g.assume(st.cond, t)
	}
	return out
}

func (g *Gen) pureAppN(key string, idx int, args []Val, resT types.Type, st *State) Val {
	if idx == 0 {
		return g.pureApp(key, args, resT, st)
	}
	return g.pureApp(fmt.Sprintf("%s#%d", key, idx), args, resT, st)
}

// evalMods evaluates a contract's modifies entries in the given environment.
func (f *Frame) evalMods(ct *Contract, ev *Eval) []ModEntry {
	g := f.g
	var out []ModEntry
	for _, m := range ct.Modifies {
		e, err := g.evalMod(m, ev)
		if err != nil {
			g.specErrs = append(g.specErrs, fmt.Sprintf("%s:%d: modifies %q: %v", ct.File, ct.Line, m, err))
			continue
		}
		out = append(out, e...)
	}
	return out
}

func (g *Gen) evalMod(m string, ev *Eval) ([]ModEntry, error) {
	switch {
	case strings.HasSuffix(m, ".*"):
		e, err := parseExpr(strings.TrimSuffix(m, ".*"))
		if err != nil {
			return nil, err
		}
		s, err := ev.ev(e)
		if err != nil {
			return nil, err
		}
		var addr Term
		var T types.Type
		if s.addr != nil {
			addr, T = *s.addr, s.v.Typ
		} else if pt, ok := under(s.v.Typ).(*types.Pointer); ok {
			addr, T = s.v.Comps[0], pt.Elem()
		} else {
			return nil, fmt.Errorf("%s is not a pointer or located aggregate", m)
		}
		return []ModEntry{{Key: "", Lo: addr, Hi: tAdd(addr, intLit(cellSize(T))), Typ: T, Text: m}}, nil
	case strings.HasSuffix(m, "[*]"), strings.HasSuffix(m, "[:cap]"):
		whole := strings.HasSuffix(m, "[:cap]")
		e, err := parseExpr(strings.TrimSuffix(strings.TrimSuffix(m, "[*]"), "[:cap]"))
		if err != nil {
			return nil, err
		}
		v, err := ev.eval(e)
		if err != nil {
			return nil, err
		}
		sl, ok := under(v.Typ).(*types.Slice)
		if !ok {
			return nil, fmt.Errorf("%s is not a slice", m)
		}
		n := v.Comps[1]
		if whole {
			n = v.Comps[2]
		}
		return []ModEntry{{Key: "", Lo: v.Comps[0], Hi: tAdd(v.Comps[0], tMul(n, intLit(cellSize(sl.Elem())))), Typ: sl.Elem(), Rng: true, Text: m}}, nil
	case strings.HasPrefix(m, "*"):
		e, err := parseExpr(m[1:])
		if err != nil {
			return nil, err
		}
		v, err := ev.eval(e)
		if err != nil {
			return nil, err
		}
		pt, ok := under(v.Typ).(*types.Pointer)
		if !ok {
			return nil, fmt.Errorf("%s: not a pointer", m)
		}
		if isAggregate(pt.Elem()) {
			return []ModEntry{{Key: "", Lo: v.Comps[0], Hi: tAdd(v.Comps[0], intLit(cellSize(pt.Elem()))), Typ: pt.Elem(), Text: m}}, nil
		}
		return []ModEntry{{Key: elemKey(pt.Elem()), Lo: v.Comps[0], Hi: tAdd(v.Comps[0], intLit(1)), Typ: pt.Elem(), Text: m}}, nil
	}
	// field path x.a.b
	e, err := parseExpr(m)
	if err != nil {
		return nil, err
	}
	sel, ok := e.(*SSel)
	if !ok {
		return nil, fmt.Errorf("unsupported modifies target %q", m)
	}
	base, err := ev.ev(sel.X)
	if err != nil {
		return nil, err
	}
	obj, path, _ := types.LookupFieldOrMethod(base.v.Typ, true, ev.pkg, sel.Sel)
	if _, ok := obj.(*types.Var); !ok {
		return nil, fmt.Errorf("no field %s", sel.Sel)
	}
	cur := base
	for n, idx := range path {
		if cur.addr == nil {
			pt, ok := under(cur.v.Typ).(*types.Pointer)
			if !ok {
				return nil, fmt.Errorf("modifies target is not in memory")
			}
			a := cur.v.Comps[0]
			cur = sval{v: Val{Typ: pt.Elem()}, addr: &a}
		}
		stt := under(cur.v.Typ).(*types.Struct)
		ft := stt.Field(idx).Type()
		if n == len(path)-1 {
			if isAggregate(ft) {
				a := tAdd(*cur.addr, intLit(fieldOffset(stt, idx)))
				return []ModEntry{{Key: "", Lo: a, Hi: tAdd(a, intLit(cellSize(ft))), Typ: ft, Text: m}}, nil
			}
			return []ModEntry{{Key: fieldKey(cur.v.Typ, idx), Lo: *cur.addr, Hi: tAdd(*cur.addr, intLit(1)), Typ: ft, Text: m}}, nil
		}
		if isAggregate(ft) {
			a := tAdd(*cur.addr, intLit(fieldOffset(stt, idx)))
			cur = sval{v: Val{Typ: ft}, addr: &a}
		} else {
			cur = sval{v: g.loadLeaf(ev.st, fieldKey(cur.v.Typ, idx), *cur.addr, ft)}
		}
	}
	return nil, fmt.Errorf("bad modifies path")
}

// havocEntry makes the memory named by a modifies entry arbitrary.
func (g *Gen) havocEntry(st *State, m ModEntry) {
	if m.Rng {
		// element range: every leaf key of the element type, cells in [Lo,Hi)
		var ls []leafRef
		leaves(m.Typ, 0, &ls)
		seen := map[string]bool{}
		for _, l := range ls {
			for i, c := range l.Comp {
				k := compKey(l.Key, i)
				if seen[k] {
					continue
				}
				seen[k] = true
				old := g.heapGet(st, k, arrSort(c.Sort))
				nn := g.sym("Hr_" + k)
				g.declare(nn, arrSort(c.Sort))
				g.emit(fmt.Sprintf("(assert (forall ((a Int)) (! (=> (not (and (<= %s a) (< a %s))) (= (select %s a) (select %s a))) :pattern ((select %s a)))))",
					m.Lo.S, m.Hi.S, nn, old.S, nn))
				st.heap[k] = Term{S: nn, Sort: arrSort(c.Sort)}
			}
		}
		return
	}
	if m.Key != "" {
		for i, c := range layout(m.Typ) {
			k := compKey(m.Key, i)
			old := g.heapGet(st, k, arrSort(c.Sort))
			fv := g.freshComp("hv", c)
			g.heapSet(st, k, tStore(old, m.Lo, fv))
		}
		return
	}
	var ls []leafRef
	leaves(m.Typ, 0, &ls)
	for _, l := range ls {
		for i, c := range l.Comp {
			k := compKey(l.Key, i)
			old := g.heapGet(st, k, arrSort(c.Sort))
			fv := g.freshComp("hv", c)
			g.heapSet(st, k, tStore(old, tAdd(m.Lo, intLit(l.Off)), fv))
		}
	}
}

func (g *Gen) covered(key string, lo, hi Term) Term {
	var alts []Term
	alts = append(alts, tCmp(">=", lo, g.entryW), tCmp("<=", hi, lo))
	for _, t := range g.topMods {
		if t.Key != "" && t.Key != key {
			continue
		}
		if t.Key == "" && key != "" && !t.Rng {
			// wildcard over an aggregate covers any key inside its address range
		}
		alts = append(alts, tAnd(tCmp("<=", t.Lo, lo), tCmp("<=", hi, t.Hi)))
	}
	return tOr(alts...)
}

// frameStore: a store must hit fresh memory or memory listed in the top function's modifies clause.
func (g *Gen) frameStore(st *State, key string, addr, n Term, pos token.Pos, src string) {
	if g.topC == nil || !g.topC.HasModifies {
		return
	}
	if key == "*" {
		key = ""
	}
	var goal Term
	if key == "" {
		// aggregate store: only wildcard/range entries can cover it
		alts := []Term{tCmp(">=", addr, g.entryW)}
		for _, t := range g.topMods {
			if t.Key == "" {
				alts = append(alts, tAnd(tCmp("<=", t.Lo, addr), tCmp("<=", tAdd(addr, n), t.Hi)))
			}
		}
		goal = tOr(alts...)
	} else {
		goal = g.covered(key, addr, tAdd(addr, n))
	}
	g.oblige(st, "frame", pos, src, goal)
}

func (g *Gen) frameCall(st *State, m ModEntry, pos token.Pos, src string) {
	if g.topC == nil || !g.topC.HasModifies {
		return
	}
	var goal Term
	if m.Key == "" {
		alts := []Term{tCmp(">=", m.Lo, g.entryW), tCmp("<=", m.Hi, m.Lo)}
		for _, t := range g.topMods {
			if t.Key == "" {
				alts = append(alts, tAnd(tCmp("<=", t.Lo, m.Lo), tCmp("<=", m.Hi, t.Hi)))
			}
		}
		goal = tOr(alts...)
	} else {
		goal = g.covered(m.Key, m.Lo, m.Hi)
	}
	g.oblige(st, "frame", pos, src+" :: callee modifies "+m.Text, goal)
}

func (g *Gen) frameHavoc(st *State, pos token.Pos, src string) {
	if g.topC == nil || !g.topC.HasModifies {
		return
	}
	if g.topC.AssumeCalleeFrames {
		g.usedTrusted["frame of uncontracted callees assumed in "+shortKey(g.topC.Key)] = true
		return
	}
	g.oblige(st, "frame", pos, src+" :: callee without modifies clause", boolLit(false))
}

// ---------------------------------------------------------------- interface dispatch

func (f *Frame) invoke(instr ssa.Instruction, c *ssa.CallCommon, st *State, recv Val, args []Val) []Val {
	g := f.g
	pos := instr.Pos()
	src := f.text(pos)
	g.oblige(st, "nil", pos, src, tNot(tEq(recv.Comps[0], intLit(0))))
	if c.Method.Name() == "Error" && c.Signature().Params().Len() == 0 && c.Signature().Results().Len() == 1 && types.Identical(c.Value.Type(), errorType()) {
		// error.Error(): assumed free of effects on caller-visible memory
		g.usedTrusted["error.Error() has no side effects"] = true
		return []Val{g.pureApp("error.Error", []Val{recv}, types.Typ[types.String], st)}
	}
	if ifc := g.ctx.ifaceContract(c.Method); ifc != nil {
		// interface-level contract: every implementation is checked to refine it
		return f.ifaceModular(instr, c, ifc, st, recv, args, pos)
	}
	cands := g.ctx.implementers(c.Value.Type(), c.Method, pkgOf(f.fn))
	type branch struct {
		st   *State
		vals []Val
	}
	var brs []branch
	var guards []Term
	for _, cd := range cands {
		key := g.ctx.funcKey(cd.fn)
		ct := g.ctx.contracts[key]
		isWrapper := cd.fn.Synthetic != ""
		if ct == nil && !isWrapper {
			continue
		}
		if ct == nil && isWrapper && !g.ctx.wrapperHasContract(cd.fn) {
			continue
		}
		guard := tEq(recv.Comps[0], intLit(tagOf(cd.typ)))
		sub := st.clone()
		sub.cond = g.name("c", tAnd(st.cond, guard))
		rv := g.unboxIface(sub, recv, cd.typ)
		if pt, ok := under(cd.typ).(*types.Pointer); ok {
			sz := cellSize(pt.Elem())
			g.assume(sub.cond, tAnd(tCmp(">=", rv.Comps[0], intLit(1)), tCmp("<=", tAdd(rv.Comps[0], intLit(sz)), sub.W)))
		}
		a2 := append([]Val{rv}, args...)
		vals := f.callStatic(instr, cd.fn, nil, sub, a2, pos)
		brs = append(brs, branch{sub, vals})
		guards = append(guards, guard)
	}
	// everything else: havoc
	other := st.clone()
	other.cond = g.name("c", tAnd(st.cond, tNot(tOr(guards...))))
	if !other.cond.isFalse() {
		g.havocCallees["interface call "+c.Method.Name()+" on uncontracted implementations in "+shortKey(g.ctx.funcKey(f.fn))] = true
		if ifc := g.ctx.ifaceContract(c.Method); ifc != nil {
			vals := f.ifaceModular(instr, c, ifc, other, recv, args, pos)
			brs = append(brs, branch{other, vals})
		} else {
			g.frameHavoc(other, pos, src)
			vals := f.havocCall(other, c.Signature())
			brs = append(brs, branch{other, vals})
		}
	}
	var sts []*State
	for _, b := range brs {
		if !b.st.cond.isFalse() {
			sts = append(sts, b.st)
		}
	}
	if len(sts) == 0 {
		st.cond = boolLit(false)
		return f.zeroResults(c.Signature())
	}
	m := g.mergeStates(sts)
	*st = *m
	n := c.Signature().Results().Len()
	out := make([]Val, n)
	for i := 0; i < n; i++ {
		var v Val
		first := true
		for k := len(brs) - 1; k >= 0; k-- {
			if brs[k].st.cond.isFalse() {
				continue
			}
			if first {
				v = brs[k].vals[i]
				first = false
			} else {
				v = f.iteVal(brs[k].st.cond, brs[k].vals[i], v)
			}
		}
		v.Typ = c.Signature().Results().At(i).Type()
		out[i] = g.nameVal("inv", v)
	}
	return out
}

func (f *Frame) zeroResults(sig *types.Signature) []Val {
	var out []Val
	for i := 0; i < sig.Results().Len(); i++ {
		out = append(out, f.g.zeroVal(sig.Results().At(i).Type()))
	}
	return out
}

type implCand struct {
	typ types.Type
	fn  *ssa.Function
}

func (c *Ctx) implementers(ifaceT types.Type, m *types.Func, from *types.Package) []implCand {
	iface := under(ifaceT).(*types.Interface)
	var out []implCand
	seen := map[string]bool{}
	pkgs := []*types.Package{}
	if from != nil {
		pkgs = append(pkgs, from)
	}
	if m.Pkg() != nil && m.Pkg() != from {
		pkgs = append(pkgs, m.Pkg())
	}
	for _, p := range pkgs {
		names := p.Scope().Names()
		sort.Strings(names)
		for _, n := range names {
			tn, ok := p.Scope().Lookup(n).(*types.TypeName)
			if !ok || tn.IsAlias() {
				continue
			}
			if _, isI := under(tn.Type()).(*types.Interface); isI {
				continue
			}
			if nt, ok := tn.Type().(*types.Named); ok && nt.TypeParams().Len() > 0 {
				continue
			}
			for _, t := range []types.Type{tn.Type(), types.NewPointer(tn.Type())} {
				if !types.Implements(t, iface) {
					continue
				}
				if !c.flowsInto(t, ifaceT) {
					continue // structurally compatible, but never converted to (a refinement of) this interface
				}
				sel := c.prog.MethodSets.MethodSet(t).Lookup(m.Pkg(), m.Name())
				if sel == nil {
					continue
				}
				fn := c.prog.MethodValue(sel)
				if fn == nil {
					continue
				}
				k := typeKey(t)
				if seen[k] {
					continue
				}
				seen[k] = true
				out = append(out, implCand{t, fn})
			}
		}
	}
	return out
}

// wrapperHasContract: a synthetic method wrapper is dispatched precisely only if the wrapped method is under contract.
func (c *Ctx) wrapperHasContract(fn *ssa.Function) bool {
	for _, b := range fn.Blocks {
		for _, in := range b.Instrs {
			if call, ok := in.(ssa.CallInstruction); ok {
				if callee := call.Common().StaticCallee(); callee != nil {
					if _, ok := c.contracts[c.funcKey(callee)]; ok {
						return true
					}
					if callee.Synthetic != "" {
						return c.wrapperHasContract(callee)
					}
				}
			}
		}
	}
	return false
}

func (c *Ctx) ifaceContract(m *types.Func) *Contract {
	// interface-level contract key: "<pkgpath>.<Iface>.<Method>"
	recv := m.Type().(*types.Signature).Recv()
	if recv == nil {
		return nil
	}
	if nt, ok := recv.Type().(*types.Named); ok && nt.Obj().Pkg() != nil {
		return c.contracts[nt.Obj().Pkg().Path()+"."+nt.Obj().Name()+"."+m.Name()]
	}
	return nil
}

func (f *Frame) ifaceModular(instr ssa.Instruction, c *ssa.CallCommon, ct *Contract, st *State, recv Val, args []Val, pos token.Pos) []Val {
	g := f.g
	g.usedContracts[ct.Key] = true
	sig := c.Signature()
	if len(ct.Requires) > 0 {
		ev0 := &Eval{g: g, st: st, vars: map[string]Val{}, pkg: c.Method.Pkg()}
		bindIfaceNames(ev0.vars, sig, recv, args, nil)
		for _, r := range ct.Requires {
			t, err := ev0.evalBool(r.Expr)
			if err != nil {
				g.specError(ct, r, err)
				continue
			}
			g.oblige(st, "pre", pos, f.text(pos)+" :: "+r.Text, t)
		}
	}
	if ct.Pure {
		all := append([]Val{recv}, args...)
		var out []Val
		for i := 0; i < sig.Results().Len(); i++ {
			out = append(out, g.pureAppN(c.Method.FullName(), i, all, sig.Results().At(i).Type(), st))
		}
		ev := &Eval{g: g, st: st, vars: map[string]Val{}, pkg: c.Method.Pkg()}
		bindIfaceNames(ev.vars, sig, recv, args, out)
		for _, e := range ct.Ensures {
			t, err := ev.evalBool(e.Expr)
			if err != nil {
				g.specError(ct, e, err)
				continue
			}
			g.assume(st.cond, t)
		}
		return out
	}
	pre := st.clone()
	if !ct.HasModifies {
		g.frameHavoc(st, pos, f.text(pos))
		g.havocAll(st)
	} else {
		// modifies self.*: the fields of the dynamic receiver, for every implementation that can flow into
		// the interface (closed world over the loaded packages)
		for _, m := range ct.Modifies {
			if m != "self.*" {
				g.specErrs = append(g.specErrs, fmt.Sprintf("%s:%d: interface contracts support only `modifies self.*` (got %q)", ct.File, ct.Line, m))
				continue
			}
			for _, cd := range g.ctx.implementers(c.Value.Type(), c.Method, pkgOf(f.fn)) {
				pt, ok := under(cd.typ).(*types.Pointer)
				if !ok {
					continue
				}
				guard := tEq(recv.Comps[0], intLit(tagOf(cd.typ)))
				lo := recv.Comps[1]
				gs := st.clone()
				gs.cond = g.name("c", tAnd(st.cond, guard))
				g.frameCall(gs, ModEntry{Key: "", Lo: lo, Hi: tAdd(lo, intLit(cellSize(pt.Elem()))), Typ: pt.Elem(), Text: "self.* (" + shortKey(typeKey(cd.typ)) + ")"}, pos, f.text(pos))
				var ls []leafRef
				leaves(pt.Elem(), 0, &ls)
				for _, l := range ls {
					for i, cmp := range l.Comp {
						k := compKey(l.Key, i)
						old := g.heapGet(st, k, arrSort(cmp.Sort))
						fv := g.freshComp("hv", cmp)
						g.heapSet(st, k, tIte(guard, tStore(old, tAdd(lo, intLit(l.Off)), fv), old))
					}
				}
			}
			g.bumpTokAt(st, &recv.Comps[1], true)
		}
		w := g.sym("W")
		g.declare(w, SInt)
		g.assume(boolLit(true), tCmp(">=", raw(w, SInt), st.W))
		st.W = Term{S: w, Sort: SInt}
	}
	var out []Val
	for i := 0; i < sig.Results().Len(); i++ {
		v := g.freshVal("ires", sig.Results().At(i).Type())
		g.assumeWF(st, v)
		out = append(out, v)
	}
	ev := &Eval{g: g, st: st, old: pre, vars: map[string]Val{}, pkg: c.Method.Pkg()}
	bindIfaceNames(ev.vars, sig, recv, args, out)
	for _, e := range ct.Ensures {
		t, err := ev.evalBool(e.Expr)
		if err != nil {
			g.specError(ct, e, err)
			continue
		}
		g.assume(st.cond, t)
	}
	return out
}

func bindIfaceNames(vars map[string]Val, sig *types.Signature, recv Val, args []Val, results []Val) {
	vars["self"] = recv
	for i := 0; i < sig.Params().Len() && i < len(args); i++ {
		if n := sig.Params().At(i).Name(); n != "" {
			vars[n] = args[i]
		}
		vars[fmt.Sprintf("arg%d", i)] = args[i]
	}
	for i := 0; i < sig.Results().Len() && i < len(results); i++ {
		vars[fmt.Sprintf("result%d", i)] = results[i]
		if sig.Results().Len() == 1 {
			vars["result"] = results[i]
		}
		if n := sig.Results().At(i).Name(); n != "" {
			vars[n] = results[i]
		}
	}
}

// ---------------------------------------------------------------- builtins

func (f *Frame) builtin(instr ssa.Instruction, b *ssa.Builtin, c *ssa.CallCommon, st *State, args []Val) []Val {
	g := f.g
	pos := instr.Pos()
	src := f.text(pos)
	resT := c.Signature().Results()
	switch b.Name() {
	case "len", "cap":
		x := args[0]
		switch u := under(c.Args[0].Type()).(type) {
		case *types.Slice:
			if b.Name() == "len" {
				return []Val{{Typ: tInt, Comps: []Term{x.Comps[1]}}}
			}
			return []Val{{Typ: tInt, Comps: []Term{x.Comps[2]}}}
		case *types.Basic:
			return []Val{{Typ: tInt, Comps: []Term{g.name("slen", withBounds(app("strlen", SInt, x.Comps[0]), big.NewInt(0), nil))}}}
		case *types.Array:
			return []Val{{Typ: tInt, Comps: []Term{intLit(u.Len())}}}
		case *types.Pointer:
			if a, ok := under(u.Elem()).(*types.Array); ok {
				return []Val{{Typ: tInt, Comps: []Term{intLit(a.Len())}}}
			}
		case *types.Map:
			return []Val{{Typ: tInt, Comps: []Term{g.mapLen(st, x)}}}
		case *types.Chan:
			v := g.freshVal("chlen", tInt)
			g.assume(boolLit(true), tCmp(">=", v.Comps[0], intLit(0)))
			return []Val{v}
		}
	case "append":
		return []Val{f.appendBuiltin(instr, c, st, args)}
	case "copy":
		dst, srcv := args[0], args[1]
		var n Term
		if _, isStr := under(c.Args[1].Type()).(*types.Basic); isStr {
			sl := g.name("slen", withBounds(app("strlen", SInt, srcv.Comps[0]), big.NewInt(0), nil))
			n = g.name("n", tIte(tCmp("<=", dst.Comps[1], sl), dst.Comps[1], sl))
			elem := under(c.Args[0].Type()).(*types.Slice).Elem()
			g.frameStore(st, elemKey(elem), dst.Comps[0], n, pos, src)
			g.havocRange(st, elem, dst.Comps[0], n)
			return []Val{{Typ: tInt, Comps: []Term{n}}}
		}
		n = g.name("n", tIte(tCmp("<=", dst.Comps[1], srcv.Comps[1]), dst.Comps[1], srcv.Comps[1]))
		n.Lo = big.NewInt(0)
		elem := under(c.Args[0].Type()).(*types.Slice).Elem()
		g.frameStore(st, elemKey(elem), dst.Comps[0], tMul(n, intLit(cellSize(elem))), pos, src)
		g.copyCells(st, elem, dst.Comps[0], srcv.Comps[0], n)
		return []Val{{Typ: tInt, Comps: []Term{n}}}
	case "min", "max":
		op := "<="
		if b.Name() == "max" {
			op = ">="
		}
		r := args[0].Comps[0]
		for _, a := range args[1:] {
			r = tIte(tCmp(op, r, a.Comps[0]), r, a.Comps[0])
		}
		return []Val{{Typ: resT.At(0).Type(), Comps: []Term{r}}}
	case "delete":
		g.mapDelete(st, args[0], args[1])
		return nil
	case "print", "println":
		return nil
	case "recover":
		v := g.freshVal("recover", resT.At(0).Type())
		return []Val{v}
	case "clear":
		g.havocAll(st)
		return nil
	}
	g.unsupp("builtin " + b.Name())
	var out []Val
	for i := 0; i < resT.Len(); i++ {
		out = append(out, g.freshVal("bres", resT.At(i).Type()))
	}
	return out
}

// copyCells: cells [dst, dst+n*cs) := cells [src, src+n*cs) for all leaf keys of elem.
func (g *Gen) copyCells(st *State, elem types.Type, dst, src, n Term) {
	var ls []leafRef
	leaves(elem, 0, &ls)
	cs := cellSize(elem)
	seen := map[string]bool{}
	for _, l := range ls {
		for i, c := range l.Comp {
			k := compKey(l.Key, i)
			if seen[k] {
				continue
			}
			seen[k] = true
			old := g.heapGet(st, k, arrSort(c.Sort))
			nn := g.sym("Hc_" + k)
			g.declare(nn, arrSort(c.Sort))
			hi := tAdd(dst, tMul(n, intLit(cs)))
			g.emit(fmt.Sprintf("(assert (forall ((a Int)) (! (= (select %s a) (ite (and (<= %s a) (< a %s)) (select %s (+ %s (- a %s))) (select %s a))) :pattern ((select %s a)))))",
				nn, dst.S, hi.S, old.S, src.S, dst.S, old.S, nn))
			st.heap[k] = Term{S: nn, Sort: arrSort(c.Sort)}
		}
	}
	g.bumpTokAt(st, &dst, hasPtrComps(elem))
}

func (f *Frame) appendBuiltin(instr ssa.Instruction, c *ssa.CallCommon, st *State, args []Val) Val {
	g := f.g
	pos := instr.Pos()
	src := f.text(pos)
	s := args[0]
	sl := under(c.Args[0].Type()).(*types.Slice)
	elem := sl.Elem()
	cs := cellSize(elem)
	var n Term
	var xs Val
	isStr := false
	if len(args) > 1 {
		xs = args[1]
		if _, ok := under(c.Args[1].Type()).(*types.Basic); ok {
			isStr = true
			n = g.name("slen", withBounds(app("strlen", SInt, xs.Comps[0]), big.NewInt(0), nil))
		} else {
			n = xs.Comps[1]
		}
	} else {
		return s
	}
	ptr, ln, cp := s.Comps[0], s.Comps[1], s.Comps[2]
	newLen := g.name("alen", tAdd(ln, n))
	inPlace := g.name("inplace", tCmp("<=", newLen, cp))
	// alias obligation (only when the contract asks for it): writing into spare capacity of a non-fresh slice
	if g.topC != nil && g.topC.CheckAlias {
		g.oblige(st, "alias", pos, src, tOr(tEq(n, intLit(0)), tNot(inPlace), tCmp(">=", ptr, g.entryW), g.coveredRange(elem, tAdd(ptr, tMul(ln, intLit(cs))), tAdd(ptr, tMul(newLen, intLit(cs))))))
	}
	// new backing array (used when not in place)
	ncap := g.freshComp("ncap", Comp{Sort: SInt, Kind: KSliceCap})
	g.assume(boolLit(true), tCmp(">=", ncap, newLen))
	nptr := g.alloc(st, tMul(ncap, intLit(cs)))
	rptr := g.name("aptr", tIte(inPlace, ptr, nptr))
	rcap := g.name("acap", tIte(inPlace, cp, ncap))
	// element heaps
	var ls []leafRef
	leaves(elem, 0, &ls)
	seen := map[string]bool{}
	single := false
	if c1, ok := n.isConst(); ok && c1.Cmp(bigOne) == 0 && !isStr {
		single = true
	}
	for _, l := range ls {
		for i, cmp := range l.Comp {
			k := compKey(l.Key, i)
			if seen[k] {
				continue
			}
			seen[k] = true
			old := g.heapGet(st, k, arrSort(cmp.Sort))
			nn := g.sym("Ha_" + k)
			g.declare(nn, arrSort(cmp.Sort))
			lo := tAdd(rptr, tMul(ln, intLit(cs)))
			hi := tAdd(rptr, tMul(newLen, intLit(cs)))
			var srcCell string
			if isStr {
				srcCell = fmt.Sprintf("(select %s a)", nn) // unconstrained
			} else {
				srcCell = fmt.Sprintf("(select %s (+ %s (- a %s)))", old.S, xs.Comps[0].S, lo.S)
			}
			// prefix copy when reallocated: cells [nptr, nptr+len*cs) = old cells [ptr, ...)
			g.emit(fmt.Sprintf("(assert (forall ((a Int)) (! (= (select %s a) (ite (and (<= %s a) (< a %s)) %s (ite (and (not %s) (<= %s a) (< a %s)) (select %s (+ %s (- a %s))) (select %s a)))) :pattern ((select %s a)))))",
				nn, lo.S, hi.S, srcCell,
				inPlace.S, nptr.S, tAdd(nptr, tMul(ln, intLit(cs))).S, old.S, ptr.S, nptr.S,
				old.S, nn))
			st.heap[k] = Term{S: nn, Sort: arrSort(cmp.Sort)}
			_ = single
		}
	}
	g.bumpTokAt(st, &rptr, hasPtrComps(elem))
	return Val{Typ: c.Args[0].Type(), Comps: []Term{rptr, newLen, rcap}}
}

func (g *Gen) coveredRange(elem types.Type, lo, hi Term) Term {
	var alts []Term
	for _, t := range g.topMods {
		if t.Key == "" {
			alts = append(alts, tAnd(tCmp("<=", t.Lo, lo), tCmp("<=", hi, t.Hi)))
		}
	}
	return tOr(alts...)
}

// scanCallMods: static over-approximation of what a call inside a loop may modify.
func (f *Frame) scanCallMods(ci ssa.CallInstruction, lm *loopMods, depth int) {
	g := f.g
	c := ci.Common()
	if c.IsInvoke() {
		cands := g.ctx.implementers(c.Value.Type(), c.Method, pkgOf(f.fn))
		ok := len(cands) > 0
		for _, cd := range cands {
			if !f.scanCalleeMods(cd.fn, lm, depth) {
				ok = false
			}
		}
		// uncontracted implementations / unknown dynamic types
		if ifc := g.ctx.ifaceContract(c.Method); ifc != nil && (ifc.Pure || ifc.HasModifies) {
			if !ifc.Pure {
				lm.alloc = true
			}
			return
		}
		_ = ok
		lm.all = true
		return
	}
	switch callee := c.Value.(type) {
	case *ssa.Builtin:
		switch callee.Name() {
		case "append":
			lm.alloc = true
			lm.tok = true
			if !staticallyFresh(c.Args[0], map[ssa.Value]bool{}) {
				lm.nonFresh = true
				lm.curDirty = true
				if hasPtrComps(under(c.Args[0].Type()).(*types.Slice).Elem()) {
					lm.escape = true
				}
			}
			lm.addType(under(c.Args[0].Type()).(*types.Slice).Elem(), false)
			lm.curDirty = false
		case "copy":
			lm.tok = true
			if !staticallyFresh(c.Args[0], map[ssa.Value]bool{}) {
				lm.nonFresh = true
				lm.curDirty = true
				if hasPtrComps(under(c.Args[0].Type()).(*types.Slice).Elem()) {
					lm.escape = true
				}
			}
			lm.addType(under(c.Args[0].Type()).(*types.Slice).Elem(), false)
			lm.curDirty = false
		case "delete":
			lm.tok = true
			lm.nonFresh = true
			lm.curDirty = true
			lm.addMap(c.Args[0].Type())
			lm.curDirty = false
		case "clear":
			lm.all = true
		}
		return
	case *ssa.Function:
		if !f.scanCalleeMods(callee, lm, depth) {
			lm.all = true
		}
		return
	case *ssa.MakeClosure:
		if !f.scanCalleeMods(callee.Fn.(*ssa.Function), lm, depth) {
			lm.all = true
		}
		return
	}
	if ci2 := f.closures[c.Value]; ci2 != nil {
		if !f.scanCalleeMods(ci2.fn, lm, depth) {
			lm.all = true
		}
		return
	}
	lm.all = true
}

// scanCalleeMods returns false if the callee's effects cannot be bounded.
func (f *Frame) scanCalleeMods(callee *ssa.Function, lm *loopMods, depth int) bool {
	g := f.g
	key := g.ctx.funcKey(callee)
	if fx, ok := externEffects[key]; ok {
		fx(lm)
		return true
	}
	if _, ok := externModels[key]; ok {
		return true // models without registered effects are effect-free
	}
	ct := g.ctx.contracts[key]
	isClosure := callee.Parent() != nil
	if ct != nil && !ct.Inline && !(isClosure && !hasCallerVisibleContract(ct)) {
		if ct.Pure {
			return true
		}
		if !ct.HasModifies {
			return false
		}
		lm.alloc = true
		lm.curDirty = true
		for _, m := range ct.Modifies {
			if !staticMod(callee, m, lm) {
				lm.curDirty = false
				return false
			}
		}
		lm.curDirty = false
		if len(ct.Modifies) > 0 {
			lm.tok = true
			lm.nonFresh, lm.escape = true, true
		}
		return true
	}
	isWrapper := callee.Synthetic != ""
	if (isClosure || isWrapper || (ct != nil && ct.Inline)) && len(callee.Blocks) > 0 && depth < maxInlineDepth {
		sub := g.newFrame(callee, f)
		sub.scanMods(callee.Blocks, lm, depth+1)
		return !lm.all
	}
	if pureExternal(key) {
		return true
	}
	return false
}

// staticMod resolves a modifies entry to heap keys using static types only.
func staticMod(callee *ssa.Function, m string, lm *loopMods) bool {
	base := m
	mode := "field"
	switch {
	case strings.HasSuffix(m, ".*"):
		base, mode = strings.TrimSuffix(m, ".*"), "wild"
	case strings.HasSuffix(m, "[*]"), strings.HasSuffix(m, "[:cap]"):
		base, mode = strings.TrimSuffix(strings.TrimSuffix(m, "[*]"), "[:cap]"), "elems"
	case strings.HasPrefix(m, "*"):
		base, mode = m[1:], "deref"
	}
	parts := strings.Split(base, ".")
	var t types.Type
	for _, p := range callee.Params {
		if p.Name() == parts[0] {
			t = p.Type()
		}
	}
	if t == nil {
		return false
	}
	walk := parts[1:]
	last := ""
	if mode == "field" {
		if len(walk) == 0 {
			return false
		}
		last = walk[len(walk)-1]
		walk = walk[:len(walk)-1]
	}
	for _, fld := range walk {
		obj, _, _ := types.LookupFieldOrMethod(t, true, callee.Pkg.Pkg, fld)
		v, ok := obj.(*types.Var)
		if !ok {
			return false
		}
		t = v.Type()
	}
	switch mode {
	case "wild", "deref":
		if pt, ok := under(t).(*types.Pointer); ok {
			t = pt.Elem()
		}
		lm.addType(t, false)
		return true
	case "elems":
		sl, ok := under(t).(*types.Slice)
		if !ok {
			return false
		}
		lm.addType(sl.Elem(), false)
		return true
	}
	obj, path, _ := types.LookupFieldOrMethod(t, true, callee.Pkg.Pkg, last)
	if _, ok := obj.(*types.Var); !ok {
		return false
	}
	cur := t
	for n, idx := range path {
		if pt, ok := under(cur).(*types.Pointer); ok {
			cur = pt.Elem()
		}
		stt, ok := under(cur).(*types.Struct)
		if !ok {
			return false
		}
		ft := stt.Field(idx).Type()
		if n == len(path)-1 {
			if isAggregate(ft) {
				lm.addType(ft, false)
			} else {
				lm.addField(cur, idx, ft, false)
			}
			return true
		}
		cur = ft
	}
	return false
}

func (g *Gen) panicAllowed(f *Frame, p *ssa.Panic, st *State) bool { return false }

// flowsInto: is the concrete type t converted somewhere in the program to an interface J whose method
// set includes iface's (J == iface included)? Structural implementers that are never stored in such an
// interface are not dispatch candidates.
func (c *Ctx) flowsInto(t types.Type, ifaceT types.Type) bool {
	if c.mkIface == nil {
		c.mkIface = map[string]map[string]bool{}
		for fn := range ssautil.AllFunctions(c.prog) {
			for _, b := range fn.Blocks {
				for _, in := range b.Instrs {
					if mi, ok := in.(*ssa.MakeInterface); ok {
						if j, ok := under(mi.Type()).(*types.Interface); ok && j.NumMethods() > 0 {
							k := typeKey(mi.X.Type())
							if c.mkIface[k] == nil {
								c.mkIface[k] = map[string]bool{}
							}
							c.mkIface[k][typeKey(mi.Type())] = true
						}
					}
				}
			}
		}
	}
	return c.mkIface[typeKey(t)][typeKey(ifaceT)]
}

// pureKey: the name of the uninterpreted function standing for a pure Go function (shared by code and specs).
func pureKey(fn *ssa.Function, fallback string) string {
	if o, ok := fn.Object().(*types.Func); ok && o != nil {
		return o.FullName()
	}
	return fallback
}

// resolveCapturedClosure: `*fv` where fv is a free variable bound (in the parent's MakeClosure of this
// function) to a cell that is assigned exactly once, with a MakeClosure value.
func (f *Frame) resolveCapturedClosure(v ssa.Value) (*ssa.Function, []Val, bool) {
	ld, ok := v.(*ssa.UnOp)
	if !ok || ld.Op != token.MUL {
		return nil, nil, false
	}
	var cell *ssa.Alloc
	var myMC *ssa.MakeClosure
	switch x := ld.X.(type) {
	case *ssa.Alloc:
		cell = x
	case *ssa.FreeVar:
		parent := f.fn.Parent()
		if parent == nil {
			return nil, nil, false
		}
		k := -1
		for i, fv := range f.fn.FreeVars {
			if fv == x {
				k = i
			}
		}
		for _, b := range parent.Blocks {
			for _, in := range b.Instrs {
				if mc, ok := in.(*ssa.MakeClosure); ok && mc.Fn == ssa.Value(f.fn) {
					myMC = mc
				}
			}
		}
		if myMC == nil || k < 0 || k >= len(myMC.Bindings) {
			return nil, nil, false
		}
		cell, _ = myMC.Bindings[k].(*ssa.Alloc)
	}
	if cell == nil {
		return nil, nil, false
	}
	var target *ssa.MakeClosure
	var plain *ssa.Function
	nstores := 0
	for _, r := range *cell.Referrers() {
		if s, ok := r.(*ssa.Store); ok && s.Addr == ssa.Value(cell) {
			nstores++
			target, _ = s.Val.(*ssa.MakeClosure)
			plain, _ = s.Val.(*ssa.Function)
		}
	}
	if nstores == 1 && plain != nil {
		return plain, nil, true // function literal without captured variables
	}
	if nstores != 1 || target == nil {
		return nil, nil, false
	}
	callee := target.Fn.(*ssa.Function)
	// bindings of the target closure as seen from here
	var bindings []Val
	for _, b := range target.Bindings {
		var bv Val
		found := false
		if cur, ok := f.vals[b]; ok { // same frame (the cell lives in this function)
			bv, found = cur, true
		}
		if !found && myMC != nil {
			for j, mb := range myMC.Bindings {
				if mb == b && j < len(f.fn.FreeVars) {
					bv, found = f.val(f.fn.FreeVars[j], f.fn.FreeVars[j].Type()), true
				}
			}
		}
		if !found {
			bv = f.g.freshVal("capt_"+b.Name(), b.Type())
			f.g.assume(boolLit(true), tCmp(">=", bv.Comps[0], intLit(1)))
		}
		bindings = append(bindings, bv)
	}
	return callee, bindings, true
}

// checkAtCall: `at-call` assertions of the function under verification, evaluated just before the call.
func (f *Frame) checkAtCall(instr ssa.Instruction, c *ssa.CallCommon, st *State) {
	g := f.g
	ct := f.contract
	inlined := false
	if !f.isTop && g.topC != nil && (ct == nil || ct.Inline) {
		// a call site inside a callee that is verified inlined: the `reachable` clauses of the function under
		// verification apply there too (assertions - `requires` - stay with the function's own call sites)
		ct, inlined = g.topC, true
	}
	if ct == nil || len(ct.AtCall) == 0 {
		return
	}
	src := f.text(instr.Pos())
	for _, ac := range ct.AtCall {
		if inlined && !ac.Reach {
			continue
		}
		if strings.HasPrefix(ac.Match, "^") {
			// anchored: the call's own text starts with the pattern (an enclosing call does not match)
			if !strings.HasPrefix(strings.TrimSpace(src), ac.Match[1:]) {
				continue
			}
		} else if !strings.Contains(src, ac.Match) {
			continue
		}
		g.atReturnUsed["at-call:"+ac.Match+"::"+ac.Clause.Text]++
		blk := instr.Block()
		idx := 0
		for i, in := range blk.Instrs {
			if in == instr {
				idx = i
			}
		}
		ev := &Eval{g: g, st: st, old: f.entry, fn: f.fn, pos: instr.Pos(), vars: map[string]Val{}, pkg: pkgOf(f.fn)}
		ev.lookup = func(name string) (Val, bool) { return f.varBefore(blk, idx, name, instr.Pos(), st) }
		// arg0, arg1, ...: the operands of the call as go/ssa lists them (arg0 is the receiver of a static
		// method call); recv: the receiver of an interface method call
		for i, a := range c.Args {
			v := f.val(a, a.Type())
			v.Typ = a.Type()
			ev.vars[fmt.Sprintf("arg%d", i)] = v
		}
		if c.IsInvoke() {
			v := f.val(c.Value, c.Value.Type())
			v.Typ = c.Value.Type()
			ev.vars["recv"] = v
		}
		t, err := ev.evalBool(ac.Clause.Expr)
		if err != nil {
			g.specError(ct, ac.Clause, err)
			continue
		}
		if ac.Reach {
			// must-reach: the call site can be reached with the expression true (checked like the vacuity covers:
			// the query has to be SAT; UNSAT means no execution of this function gets there in that situation)
			name := fmt.Sprintf("%s#reach[%d]{%s :: %s}", g.ctx.funcKey(f.fn), len(g.pendingReach)+1, oneLine(src), ac.Clause.Text)
			g.pendingReach = append(g.pendingReach, &Obligation{Name: name, Kind: "cover", Fn: g.ctx.funcKey(f.fn), Cond: tAnd(st.cond, t), Goal: boolLit(false), PreludeLen: len(g.lines)})
			continue
		}
		g.oblige(st, "at-call", instr.Pos(), src+" :: "+ac.Clause.Text, t)
	}
}

func oneLine(s string) string {
	s = strings.Join(strings.Fields(s), " ")
	if len(s) > 80 {
		s = s[:80] + "..."
	}
	return s
}

// varBefore: value of a source variable just before instruction idx of block blk.
func (f *Frame) varBefore(blk *ssa.BasicBlock, idx int, name string, pos token.Pos, st *State) (Val, bool) {
	if strings.HasSuffix(name, "0") {
		for i, p := range f.fn.Params {
			if p.Name()+"0" == name {
				if f.inlineArgs != nil && i < len(f.inlineArgs) {
					return f.inlineArgs[i], true
				}
				return f.val(p, p.Type()), true
			}
		}
	}
	if name == "__iter" {
		// the range counter of the nearest loop whose header dominates this point
		for b := blk; b != nil; b = b.Idom() {
			if f.loops[b] == nil {
				continue
			}
			for _, in := range b.Instrs {
				if p, ok := in.(*ssa.Phi); ok && strings.HasPrefix(p.Comment, "range") {
					if _, have := f.vals[p]; have {
						return f.val(p, p.Type()), true
					}
				}
			}
		}
		return Val{}, false
	}
	obj := f.g.ctx.scopeLookup(f.fn, pos, name)
	cands := map[ssa.Value]bool{}
	for o, vs := range f.debugVals {
		if o == obj || (obj == nil && o.Name() == name) {
			for _, v := range vs {
				cands[v] = true
			}
		}
	}
	if v, ok := f.allocOf(cands, st); ok {
		return v, true
	}
	first := true
	for b := blk; b != nil; b = b.Idom() {
		hi := len(b.Instrs) - 1
		if first {
			hi = idx - 1
			first = false
		}
		for i := hi; i >= 0; i-- {
			if d, isRef := b.Instrs[i].(*ssa.DebugRef); isRef && refMatches(d, obj, name) {
				if _, isAlloc := d.X.(*ssa.Alloc); !isAlloc {
					return f.val(d.X, d.X.Type()), true
				}
			}
			v, ok := b.Instrs[i].(ssa.Value)
			if !ok {
				continue
			}
			match := cands[v] && !valueOnlyCand(v)
			if p, ok := v.(*ssa.Phi); ok && !match && p.Comment == name {
				match = true
			}
			if !match {
				continue
			}
			if a, ok := v.(*ssa.Alloc); ok {
				if fv, ok := f.finalVals[a]; ok {
					return Val{Comps: fv.Comps}, true
				}
				av := f.val(a, a.Type())
				return f.g.loadVal(st, av.Comps[0], a.Type().(*types.Pointer).Elem()), true
			}
			return f.val(v, v.Type()), true
		}
	}
	for _, p := range f.fn.Params {
		if p.Name() == name {
			return f.val(p, p.Type()), true
		}
	}
	for _, fv := range f.fn.FreeVars {
		if fv.Name() == name {
			pv := f.val(fv, fv.Type())
			return f.g.loadVal(st, pv.Comps[0], fv.Type().(*types.Pointer).Elem()), true
		}
	}
	return Val{}, false
}

// checkAtReturn: `at-return` assertions over the locals in scope at a return (ret0.. are the returned values).
func (f *Frame) checkAtReturn(ret *ssa.Return, st *State, rv []Val) {
	g := f.g
	ct := f.contract
	if ct == nil || len(ct.AtReturn) == 0 {
		return
	}
	blk := ret.Block()
	idx := len(blk.Instrs) - 1
	for _, c := range ct.AtReturn {
		ev := &Eval{g: g, st: st, old: f.entry, fn: f.fn, pos: ret.Pos(), vars: map[string]Val{}, pkg: pkgOf(f.fn)}
		for i, v := range rv {
			ev.vars[fmt.Sprintf("ret%d", i)] = v
		}
		ev.lookup = func(name string) (Val, bool) { return f.varBefore(blk, idx, name, ret.Pos(), st) }
		t, err := ev.evalBool(c.Expr)
		if err != nil {
			if strings.Contains(err.Error(), "unresolved identifier") {
				// a local that is not in scope at this return: the clause does not speak about this site
				g.atReturnSkipped[c.Text]++
				continue
			}
			g.specError(ct, c, err)
			continue
		}
		g.atReturnUsed[c.Text]++
		g.oblige(st, "at-return", ret.Pos(), f.text(ret.Pos())+" :: "+c.Text, t)
	}
}
