package main

// Evaluation of contract expressions to SMT terms in a given symbolic state.

import (
	"fmt"
	"go/constant"
	"go/token"
	"go/types"
	"math/big"
	"strings"

	"golang.org/x/tools/go/ssa"
)

type Eval struct {
	g      *Gen
	st     *State
	old    *State
	fn     *ssa.Function // scope for name resolution
	pos    token.Pos
	vars   map[string]Val
	lookup func(name string) (Val, bool)
	pkg    *types.Package
	depth  int
	header *Eval // loop step assertions: evaluation context at the loop head
	pre    *Eval // loop invariants / step assertions: evaluation context when the loop was entered
}

var (
	untypedInt = types.Typ[types.UntypedInt]
	tBool      = types.Typ[types.Bool]
	tInt       = types.Typ[types.Int]
	tagMarker  = types.NewNamed(types.NewTypeName(token.NoPos, nil, "__typetag", nil), types.Typ[types.Int], nil)
)

// sval: value or an unloaded aggregate located at addr.
type sval struct {
	v    Val
	addr *Term // if set: aggregate of type v.Typ stored at this address (not loaded)
}

func (ev *Eval) force(s sval) Val {
	if s.addr != nil {
		return ev.g.loadVal(ev.st, *s.addr, s.v.Typ)
	}
	return s.v
}

func (ev *Eval) evalBool(e SExpr) (Term, error) {
	v, err := ev.eval(e)
	if err != nil {
		return Term{}, err
	}
	if len(v.Comps) != 1 || v.Comps[0].Sort != SBool {
		return Term{}, fmt.Errorf("expression is not boolean")
	}
	return v.Comps[0], nil
}

func (ev *Eval) eval(e SExpr) (Val, error) {
	s, err := ev.ev(e)
	if err != nil {
		return Val{}, err
	}
	return ev.force(s), nil
}

// withBound: the other-state evaluation context with the variables bound so far (quantifier binders, spec
// function parameters) visible in it.
func (ev *Eval) withBound(other *Eval) *Eval {
	if len(ev.vars) == 0 {
		return other
	}
	sub := *other
	sub.vars = make(map[string]Val, len(other.vars)+len(ev.vars))
	for k, v := range other.vars {
		sub.vars[k] = v
	}
	for k, v := range ev.vars {
		sub.vars[k] = v
	}
	return &sub
}

func boolVal(t Term) Val               { return Val{Typ: tBool, Comps: []Term{t}} }
func intVal(t Term, ty types.Type) Val { return Val{Typ: ty, Comps: []Term{t}} }

func (ev *Eval) resolveType(s string) (types.Type, error) {
	s = strings.TrimSpace(s)
	pkg := ev.pkg
	tv, err := types.Eval(ev.g.ctx.fset, pkg, ev.pos, s)
	if err != nil {
		// retry at package scope
		tv, err = types.Eval(ev.g.ctx.fset, pkg, token.NoPos, s)
		if err != nil && pkg != nil {
			// imports are file-scoped: try every file of the package
			for i := 0; i < pkg.Scope().NumChildren() && err != nil; i++ {
				fs := pkg.Scope().Child(i)
				if fs.End() > fs.Pos() {
					tv, err = types.Eval(ev.g.ctx.fset, pkg, fs.End()-1, s)
				}
			}
		}
		if err != nil {
			return nil, fmt.Errorf("cannot resolve type %q: %v", s, err)
		}
	}
	if !tv.IsType() {
		return nil, fmt.Errorf("%q is not a type", s)
	}
	return tv.Type, nil
}

func (ev *Eval) objVal(o types.Object) (sval, bool, error) {
	switch o := o.(type) {
	case *types.Const:
		return sval{v: constVal(ev.g, o.Val(), o.Type())}, true, nil
	case *types.Var:
		if o.Parent() == o.Pkg().Scope() { // package-level variable
			addr := ev.g.globalAddr(o)
			if isAggregate(o.Type()) {
				return sval{v: Val{Typ: o.Type()}, addr: &addr}, true, nil
			}
			return sval{v: ev.g.loadVal(ev.st, addr, o.Type())}, true, nil
		}
	case *types.Nil:
		return sval{v: Val{Typ: types.Typ[types.UntypedNil]}}, true, nil
	}
	return sval{}, false, nil
}

func constVal(g *Gen, cv constant.Value, t types.Type) Val {
	switch cv.Kind() {
	case constant.Bool:
		return Val{Typ: t, Comps: []Term{boolLit(constant.BoolVal(cv))}}
	case constant.Int:
		n, _ := new(big.Int).SetString(cv.ExactString(), 10)
		return Val{Typ: t, Comps: []Term{bigLit(n)}}
	case constant.String:
		return Val{Typ: t, Comps: []Term{g.strLit(constant.StringVal(cv))}}
	case constant.Float:
		f, _ := constant.Float64Val(cv)
		if b, ok := under(t).(*types.Basic); ok && b.Info()&types.IsInteger != 0 {
			n, _ := new(big.Int).SetString(constant.ToInt(cv).ExactString(), 10)
			return Val{Typ: t, Comps: []Term{bigLit(n)}}
		}
		return Val{Typ: t, Comps: []Term{raw(realLit(f), SReal)}}
	}
	panic("constVal: unsupported constant kind")
}

func realLit(f float64) string {
	r := new(big.Rat)
	r.SetFloat64(f)
	neg := r.Sign() < 0
	if neg {
		r.Neg(r)
	}
	s := fmt.Sprintf("(/ %s.0 %s.0)", r.Num().String(), r.Denom().String())
	if neg {
		s = "(- " + s + ")"
	}
	return s
}

func (g *Gen) strLit(s string) Term {
	if t, ok := g.strLits[s]; ok {
		return t
	}
	n := g.sym("str")
	g.declare(n, SInt)
	g.emit(fmt.Sprintf("(assert (and (>= %s 1) (= (strlen %s) %d)))", n, n, len(s)))
	for _, o := range g.strLits {
		g.emit(fmt.Sprintf("(assert (not (= %s %s)))", n, o.S))
	}
	t := Term{S: n, Sort: SInt, Lo: big.NewInt(1)}
	g.strLits[s] = t
	return t
}

func (g *Gen) globalAddr(o types.Object) Term {
	return g.globalAddrN(o.Pkg().Path(), o.Name(), o.Type())
}

func (g *Gen) globalAddrN(pkg, name string, t types.Type) Term {
	n := "glob_" + sanitize(pkg+"."+name)
	if !g.declared[n] {
		g.declare(n, SInt)
		g.emit(fmt.Sprintf("(assert (and (>= %s 1) (< (+ %s %d) W0)))", n, n, cellSize(t)))
	}
	return Term{S: n, Sort: SInt, Lo: big.NewInt(1)}
}

func (ev *Eval) ev(e SExpr) (sval, error) {
	g := ev.g
	switch x := e.(type) {
	case *SLit:
		return sval{v: Val{Typ: untypedInt, Comps: []Term{bigLit(x.Val)}}}, nil
	case *SFloatLit:
		return sval{v: Val{Typ: types.Typ[types.Float64], Comps: []Term{raw(realLit(x.Val), SReal)}}}, nil
	case *SStrLit:
		return sval{v: Val{Typ: types.Typ[types.String], Comps: []Term{g.strLit(x.Val)}}}, nil
	case *STypeExpr:
		t, err := ev.resolveType(x.Type)
		if err != nil {
			return sval{}, err
		}
		return sval{v: Val{Typ: tagMarker, Comps: []Term{intLit(tagOf(t))}}}, nil
	case *SIdent:
		switch x.Name {
		case "true":
			return sval{v: boolVal(boolLit(true))}, nil
		case "false":
			return sval{v: boolVal(boolLit(false))}, nil
		case "nil":
			return sval{v: Val{Typ: types.Typ[types.UntypedNil]}}, nil
		}
		if v, ok := ev.vars[x.Name]; ok {
			return sval{v: v}, nil
		}
		if ev.lookup != nil {
			if v, ok := ev.lookup(x.Name); ok {
				return sval{v: v}, nil
			}
		}
		if o := g.ctx.scopeLookupPkg(ev.pkg, ev.pos, x.Name); o != nil {
			if s, ok, err := ev.objVal(o); ok || err != nil {
				return s, err
			}
			// a type name used as a value: its dynamic-type tag (for typeOf(x) == (uint32))
			if tn, ok := o.(*types.TypeName); ok {
				return sval{v: Val{Typ: tagMarker, Comps: []Term{intLit(tagOf(tn.Type()))}}}, nil
			}
		}
		return sval{}, fmt.Errorf("unresolved identifier %q", x.Name)
	case *SSel:
		// package-qualified?
		if id, ok := x.X.(*SIdent); ok {
			if _, bound := ev.vars[id.Name]; !bound {
				if o := g.ctx.scopeLookupPkg(ev.pkg, ev.pos, id.Name); o != nil {
					if pn, ok := o.(*types.PkgName); ok {
						mo := pn.Imported().Scope().Lookup(x.Sel)
						if mo == nil {
							return sval{}, fmt.Errorf("%s.%s not found", id.Name, x.Sel)
						}
						s, ok, err := ev.objVal(mo)
						if !ok && err == nil {
							err = fmt.Errorf("%s.%s is not a value", id.Name, x.Sel)
						}
						return s, err
					}
				}
			}
		}
		base, err := ev.ev(x.X)
		if err != nil {
			return sval{}, err
		}
		return ev.selectField(base, x.Sel)
	case *SIndex:
		base, err := ev.eval(x.X)
		if err != nil {
			return sval{}, err
		}
		idx, err := ev.eval(x.I)
		if err != nil {
			return sval{}, err
		}
		switch u := under(base.Typ).(type) {
		case *types.Slice:
			addr := tAdd(base.Comps[0], tMul(idx.Comps[0], intLit(cellSize(u.Elem()))))
			if g.topC != nil && g.topC.IndexFn {
				// quantified reasoning (inside quantifiers, in lemmas, and in functions that keep spec functions
				// opaque): address through the uninterpreted index function, so that E-matching can instantiate
				// on shifted indices (idxN(p,i) = p + N*i is given as an axiom)
				addr = g.idxTerm(base.Comps[0], idx.Comps[0], cellSize(u.Elem()))
			}
			if isAggregate(u.Elem()) {
				return sval{v: Val{Typ: u.Elem()}, addr: &addr}, nil
			}
			return sval{v: g.loadVal(ev.st, addr, u.Elem())}, nil
		case *types.Array:
			ely := layout(u.Elem())
			v := Val{Typ: u.Elem()}
			for k := range ely {
				v.Comps = append(v.Comps, tSelect(base.Comps[k], idx.Comps[0], ely[k].Sort))
			}
			return sval{v: v}, nil
		case *types.Map:
			mv := g.mapLookup(ev.st, base, idx)
			return sval{v: mv}, nil
		}
		return sval{}, fmt.Errorf("cannot index %v", base.Typ)
	case *SSlice:
		base, err := ev.eval(x.X)
		if err != nil {
			return sval{}, err
		}
		sl, ok := under(base.Typ).(*types.Slice)
		if !ok {
			return sval{}, fmt.Errorf("cannot slice %v", base.Typ)
		}
		lo := intLit(0)
		hi := base.Comps[1]
		if x.Lo != nil {
			v, err := ev.eval(x.Lo)
			if err != nil {
				return sval{}, err
			}
			lo = v.Comps[0]
		}
		if x.Hi != nil {
			v, err := ev.eval(x.Hi)
			if err != nil {
				return sval{}, err
			}
			hi = v.Comps[0]
		}
		cs := cellSize(sl.Elem())
		return sval{v: Val{Typ: base.Typ, Comps: []Term{tAdd(base.Comps[0], tMul(lo, intLit(cs))), tSub(hi, lo), tSub(base.Comps[2], lo)}}}, nil
	case *SUnary:
		if x.Op == "*" {
			p, err := ev.eval(x.X)
			if err != nil {
				return sval{}, err
			}
			pt, ok := under(p.Typ).(*types.Pointer)
			if !ok {
				return sval{}, fmt.Errorf("deref of non-pointer")
			}
			if p.Loc != nil {
				return sval{v: g.loadLeaf(ev.st, p.Loc.Key, p.Loc.Addr, p.Loc.Typ)}, nil
			}
			a := p.Comps[0]
			if isAggregate(pt.Elem()) {
				return sval{v: Val{Typ: pt.Elem()}, addr: &a}, nil
			}
			return sval{v: g.loadVal(ev.st, a, pt.Elem())}, nil
		}
		v, err := ev.eval(x.X)
		if err != nil {
			return sval{}, err
		}
		switch x.Op {
		case "!":
			return sval{v: boolVal(tNot(v.Comps[0]))}, nil
		case "-":
			return sval{v: intVal(tNeg(v.Comps[0]), v.Typ)}, nil
		}
		return sval{}, fmt.Errorf("unsupported unary %s", x.Op)
	case *SBinary:
		return ev.binary(x)
	case *SCond:
		c, err := ev.evalBool(x.C)
		if err != nil {
			return sval{}, err
		}
		a, err := ev.eval(x.A)
		if err != nil {
			return sval{}, err
		}
		b, err := ev.eval(x.B)
		if err != nil {
			return sval{}, err
		}
		if len(a.Comps) != len(b.Comps) {
			return sval{}, fmt.Errorf("ternary branches differ in shape")
		}
		r := Val{Typ: a.Typ}
		if a.Typ == untypedInt {
			r.Typ = b.Typ
		}
		for i := range a.Comps {
			r.Comps = append(r.Comps, tIte(c, a.Comps[i], b.Comps[i]))
		}
		return sval{v: r}, nil
	case *SQuant:
		return ev.quant(x)
	case *SCall:
		return ev.call(x)
	}
	return sval{}, fmt.Errorf("unsupported expression %T", e)
}

func (c *Ctx) scopeLookupPkg(pkg *types.Package, pos token.Pos, name string) types.Object {
	if pkg == nil {
		return types.Universe.Lookup(name)
	}
	if pos.IsValid() {
		if inner := pkg.Scope().Innermost(pos); inner != nil {
			if _, o := inner.LookupParent(name, pos); o != nil {
				return o
			}
		}
	}
	// file scopes hold the imports
	for i := 0; i < pkg.Scope().NumChildren(); i++ {
		if o := pkg.Scope().Child(i).Lookup(name); o != nil {
			if _, ok := o.(*types.PkgName); ok {
				return o
			}
		}
	}
	if o := pkg.Scope().Lookup(name); o != nil {
		return o
	}
	return types.Universe.Lookup(name)
}

func (ev *Eval) selectField(base sval, sel string) (sval, error) {
	g := ev.g
	T := base.v.Typ
	obj, path, _ := types.LookupFieldOrMethod(T, true, ev.pkg, sel)
	if obj == nil {
		// an unexported field of a type of another package (specifications may name it): look it up in the
		// declaring package's scope
		tt := T
		if pt, ok := under(tt).(*types.Pointer); ok {
			tt = pt.Elem()
		}
		if nt, ok := tt.(*types.Named); ok && nt.Obj() != nil && nt.Obj().Pkg() != nil {
			obj, path, _ = types.LookupFieldOrMethod(T, true, nt.Obj().Pkg(), sel)
		}
	}
	if obj == nil {
		return sval{}, fmt.Errorf("no field %s in %v", sel, T)
	}
	if _, isVar := obj.(*types.Var); !isVar {
		return sval{}, fmt.Errorf("%s is a method, call it", sel)
	}
	cur := base
	for _, idx := range path {
		// normalise: pointer to struct -> located aggregate
		if cur.addr == nil {
			if pt, ok := under(cur.v.Typ).(*types.Pointer); ok {
				a := cur.v.Comps[0]
				cur = sval{v: Val{Typ: pt.Elem()}, addr: &a}
			}
		}
		st, ok := under(cur.v.Typ).(*types.Struct)
		if !ok {
			return sval{}, fmt.Errorf("selector on non-struct %v", cur.v.Typ)
		}
		ft := st.Field(idx).Type()
		if cur.addr != nil {
			if isAggregate(ft) {
				a := tAdd(*cur.addr, intLit(fieldOffset(st, idx)))
				cur = sval{v: Val{Typ: ft}, addr: &a}
			} else {
				cur = sval{v: g.loadLeaf(ev.st, fieldKey(cur.v.Typ, idx), *cur.addr, ft)}
			}
		} else {
			k := 0
			for j := 0; j < idx; j++ {
				k += ncomps(st.Field(j).Type())
			}
			cur = sval{v: Val{Typ: ft, Comps: cur.v.Comps[k : k+ncomps(ft)]}}
		}
	}
	return cur, nil
}

func isNilVal(v Val) bool {
	b, ok := v.Typ.(*types.Basic)
	return ok && b.Kind() == types.UntypedNil
}

func nilTest(v Val) Term {
	switch under(v.Typ).(type) {
	case *types.Interface:
		return tEq(v.Comps[0], intLit(0))
	default:
		return tEq(v.Comps[0], intLit(0))
	}
}

func valsEqual(a, b Val) (Term, error) {
	if isNilVal(a) && isNilVal(b) {
		return boolLit(true), nil
	}
	if isNilVal(a) {
		return nilTest(b), nil
	}
	if isNilVal(b) {
		return nilTest(a), nil
	}
	if len(a.Comps) != len(b.Comps) {
		return Term{}, fmt.Errorf("comparing values of different shape (%v vs %v)", a.Typ, b.Typ)
	}
	var cs []Term
	for i := range a.Comps {
		if a.Comps[i].Sort != b.Comps[i].Sort {
			return Term{}, fmt.Errorf("comparing different sorts")
		}
		cs = append(cs, tEq(a.Comps[i], b.Comps[i]))
	}
	return tAnd(cs...), nil
}

func (ev *Eval) binary(x *SBinary) (sval, error) {
	switch x.Op {
	case "&&", "||", "==>", "<==>":
		a, err := ev.evalBool(x.X)
		if err != nil {
			return sval{}, err
		}
		b, err := ev.evalBool(x.Y)
		if err != nil {
			return sval{}, err
		}
		var r Term
		switch x.Op {
		case "&&":
			r = tAnd(a, b)
		case "||":
			r = tOr(a, b)
		case "==>":
			r = tImp(a, b)
		case "<==>":
			r = tEq(a, b)
		}
		return sval{v: boolVal(r)}, nil
	}
	a, err := ev.eval(x.X)
	if err != nil {
		return sval{}, err
	}
	b, err := ev.eval(x.Y)
	if err != nil {
		return sval{}, err
	}
	switch x.Op {
	case "==", "===":
		r, err := valsEqual(a, b)
		return sval{v: boolVal(r)}, err
	case "!=", "!==":
		r, err := valsEqual(a, b)
		return sval{v: boolVal(tNot(r))}, err
	}
	if len(a.Comps) != 1 || len(b.Comps) != 1 {
		return sval{}, fmt.Errorf("operator %s on non-scalar", x.Op)
	}
	at, bt := a.Comps[0], b.Comps[0]
	rt := a.Typ
	if a.Typ == untypedInt {
		rt = b.Typ
	}
	if at.Sort == SReal || bt.Sort == SReal {
		if at.Sort == SInt {
			at = app("to_real", SReal, at)
		}
		if bt.Sort == SInt {
			bt = app("to_real", SReal, bt)
		}
		switch x.Op {
		case "<", "<=", ">", ">=":
			return sval{v: boolVal(app(x.Op, SBool, at, bt))}, nil
		case "+", "-", "*", "/":
			return sval{v: Val{Typ: types.Typ[types.Float64], Comps: []Term{app(x.Op, SReal, at, bt)}}}, nil
		}
		return sval{}, fmt.Errorf("unsupported real operator %s", x.Op)
	}
	switch x.Op {
	case "<", "<=", ">", ">=":
		return sval{v: boolVal(tCmp(x.Op, at, bt))}, nil
	case "+":
		return sval{v: intVal(tAdd(at, bt), rt)}, nil
	case "-":
		return sval{v: intVal(tSub(at, bt), rt)}, nil
	case "*":
		return sval{v: intVal(tMul(at, bt), rt)}, nil
	case "/":
		return sval{v: intVal(tDivE(at, bt), rt)}, nil
	case "%":
		return sval{v: intVal(tModE(at, bt), rt)}, nil
	case "&", "|":
		// operands of unsigned Go types are within their range (typed values); say so for the bit-level encodings
		for _, o := range []struct {
			t   *Term
			typ types.Type
		}{{&at, a.Typ}, {&bt, b.Typ}} {
			if o.typ == nil || o.t.Lo != nil {
				continue
			}
			if bb, ok := isIntType(o.typ); ok {
				if lo, hi, ok := intRange(bb); ok && lo.Sign() == 0 {
					o.t.Lo, o.t.Hi = lo, hi
				}
			}
		}
		if x.Op == "&" {
			return sval{v: intVal(ev.g.bitAnd(at, bt), rt)}, nil
		}
		return sval{v: intVal(ev.g.bitOr(at, bt), rt)}, nil
	case "<<":
		if c, ok := bt.isConst(); ok {
			return sval{v: intVal(tMul(at, bigLit(pow2(uint(c.Int64())))), rt)}, nil
		}
	case ">>":
		if c, ok := bt.isConst(); ok {
			return sval{v: intVal(tDivE(at, bigLit(pow2(uint(c.Int64())))), rt)}, nil
		}
	}
	return sval{}, fmt.Errorf("unsupported operator %s", x.Op)
}

func (ev *Eval) quant(q *SQuant) (sval, error) {
	g := ev.g
	saved := map[string]*Val{}
	var binders []string
	var ranges []Term
	for _, v := range q.Vars {
		t, err := ev.resolveType(v.Type)
		if err != nil {
			return sval{}, err
		}
		ly := layout(t)
		val := Val{Typ: t}
		for i, c := range ly {
			bn := fmt.Sprintf("q_%s_%d_%d", sanitize(v.Name), g.nsym, i)
			g.nsym++
			binders = append(binders, fmt.Sprintf("(%s %s)", bn, c.Sort))
			bt := Term{S: bn, Sort: c.Sort}
			if c.Kind == KInt {
				if lo, hi, ok := intRange(c.Typ.(*types.Basic)); ok {
					ranges = append(ranges, tCmp("<=", bigLit(lo), bt), tCmp("<=", bt, bigLit(hi)))
				}
			} else if c.Sort == SInt {
				ranges = append(ranges, tCmp(">=", bt, intLit(0)))
			}
			val.Comps = append(val.Comps, bt)
		}
		if old, ok := ev.vars[v.Name]; ok {
			o := old
			saved[v.Name] = &o
		} else {
			saved[v.Name] = nil
		}
		ev.vars[v.Name] = val
	}
	g.noName++
	body, err := ev.evalBool(q.Body)
	g.noName--
	for n, o := range saved {
		if o == nil {
			delete(ev.vars, n)
		} else {
			ev.vars[n] = *o
		}
	}
	if err != nil {
		return sval{}, err
	}
	var f Term
	if q.Forall && len(binders) == 1 && g.topC != nil && g.topC.AddressQuant {
		if t, ok := addressQuant(binders[0], tImp(tAnd(ranges...), body).S); ok {
			return sval{v: boolVal(raw(t, SBool))}, nil
		}
	}
	if q.Forall {
		f = raw(fmt.Sprintf("(forall (%s) %s)", strings.Join(binders, " "), tImp(tAnd(ranges...), body).S), SBool)
	} else {
		f = raw(fmt.Sprintf("(exists (%s) %s)", strings.Join(binders, " "), tAnd(append(ranges, body)...).S), SBool)
	}
	return sval{v: boolVal(f)}, nil
}

func (ev *Eval) call(x *SCall) (sval, error) {
	g := ev.g
	// builtins and conversions
	if id, ok := x.Fun.(*SIdent); ok {
		switch id.Name {
		case "old":
			if ev.old == nil {
				return sval{}, fmt.Errorf("old() not available here")
			}
			sub := *ev
			sub.st = ev.old
			v, err := sub.eval(x.Args[0])
			return sval{v: v}, err
		case "header":
			if ev.header == nil {
				return sval{}, fmt.Errorf("header() is only available in loop step assertions")
			}
			v, err := ev.withBound(ev.header).eval(x.Args[0])
			return sval{v: v}, err
		case "has":
			// has(m, k): k is a key of map m
			if len(x.Args) != 2 {
				return sval{}, fmt.Errorf("has(m, k)")
			}
			mv, err := ev.eval(x.Args[0])
			if err != nil {
				return sval{}, err
			}
			kv, err := ev.eval(x.Args[1])
			if err != nil {
				return sval{}, err
			}
			mt, modeled := mapModeled(mv.Typ)
			if mt == nil || !modeled {
				return sval{}, fmt.Errorf("has(): %v is not a map with a single-component key", mv.Typ)
			}
			kv.Typ = mt.Key()
			return sval{v: boolVal(g.mapHas(ev.st, mv, kv))}, nil
		case "pre":
			if ev.pre == nil {
				return sval{}, fmt.Errorf("pre() is only available in loop invariants and step assertions")
			}
			v, err := ev.withBound(ev.pre).eval(x.Args[0])
			return sval{v: v}, err
		case "len", "cap":
			v, err := ev.eval(x.Args[0])
			if err != nil {
				return sval{}, err
			}
			switch u := under(v.Typ).(type) {
			case *types.Slice:
				if id.Name == "len" {
					return sval{v: intVal(v.Comps[1], tInt)}, nil
				}
				return sval{v: intVal(v.Comps[2], tInt)}, nil
			case *types.Basic:
				if u.Info()&types.IsString != 0 {
					return sval{v: intVal(withBounds(app("strlen", SInt, v.Comps[0]), big.NewInt(0), nil), tInt)}, nil
				}
			case *types.Array:
				return sval{v: intVal(intLit(u.Len()), tInt)}, nil
			case *types.Map:
				return sval{v: intVal(g.mapLen(ev.st, v), tInt)}, nil
			}
			return sval{}, fmt.Errorf("len of %v", v.Typ)
		case "min", "max":
			a, err := ev.eval(x.Args[0])
			if err != nil {
				return sval{}, err
			}
			b, err := ev.eval(x.Args[1])
			if err != nil {
				return sval{}, err
			}
			op := "<="
			if id.Name == "max" {
				op = ">="
			}
			rt := a.Typ
			if rt == untypedInt {
				rt = b.Typ
			}
			return sval{v: intVal(tIte(tCmp(op, a.Comps[0], b.Comps[0]), a.Comps[0], b.Comps[0]), rt)}, nil
		case "typeOf":
			v, err := ev.eval(x.Args[0])
			if err != nil {
				return sval{}, err
			}
			if _, ok := under(v.Typ).(*types.Interface); !ok {
				if v.Typ != nil && v.Typ != untypedInt && !isNilVal(v) && payloadIsDirect(v.Typ) {
					// a value of known dynamic type (the receiver in a refinement obligation)
					return sval{v: Val{Typ: tagMarker, Comps: []Term{intLit(tagOf(v.Typ))}}}, nil
				}
				return sval{}, fmt.Errorf("typeOf of non-interface")
			}
			return sval{v: Val{Typ: tagMarker, Comps: []Term{v.Comps[0]}}}, nil
		case "__assert":
			v, err := ev.eval(x.Args[0])
			if err != nil {
				return sval{}, err
			}
			te := x.Args[1].(*STypeExpr)
			t, err := ev.resolveType(te.Type)
			if err != nil {
				return sval{}, err
			}
			return sval{v: g.unboxIface(ev.st, v, t)}, nil
		case "called":
			// called(<substring of a function key>): that function has been called on this path
			id2, ok := x.Args[0].(*SIdent)
			var pat string
			if ok {
				pat = id2.Name
			} else if sl, ok := x.Args[0].(*SSel); ok {
				if b, ok := sl.X.(*SIdent); ok {
					pat = b.Name + "." + sl.Sel
				}
			}
			if pat == "" {
				return sval{}, fmt.Errorf("called() needs a function name")
			}
			var alts []Term
			for k, t := range ev.st.called {
				if strings.HasSuffix(k, "."+pat) || strings.HasSuffix(k, "/"+pat) || strings.Contains(k, pat) {
					alts = append(alts, t)
				}
			}
			return sval{v: boolVal(tOr(alts...))}, nil
		case "addrBE32":
			v, err := ev.eval(x.Args[0])
			if err != nil {
				return sval{}, err
			}
			return sval{v: intVal(g.addrBE32(v), types.Typ[types.Uint32])}, nil
		case "fresh":
			v, err := ev.eval(x.Args[0])
			if err != nil {
				return sval{}, err
			}
			w := g.entryW
			if ev.old != nil {
				w = ev.old.W
			}
			pc := v.Comps[0]
			if _, isI := under(v.Typ).(*types.Interface); isI && len(v.Comps) == 2 {
				pc = v.Comps[1] // the object held by the interface
			}
			return sval{v: boolVal(tCmp(">=", pc, w))}, nil
		}
		if _, bound := ev.vars[id.Name]; !bound {
			// spec function (macro)
			if fn, ok := g.ctx.specs.Fns[id.Name]; ok {
				return ev.expandSpecFn(fn, x.Args, false)
			}
			// old_f(args): arguments taken from the current state, f's body evaluated in the entry state
			if strings.HasPrefix(id.Name, "old_") {
				if fn, ok := g.ctx.specs.Fns[strings.TrimPrefix(id.Name, "old_")]; ok && ev.old != nil {
					return ev.expandSpecFn(fn, x.Args, true)
				}
			}
			if gf, ok := g.ctx.specs.Ghosts[id.Name]; ok {
				if len(x.Args) != len(gf.Params) {
					return sval{}, fmt.Errorf("ghost fn %s: wrong argument count", id.Name)
				}
				var argVals []Val
				for i, a := range x.Args {
					v, err := ev.eval(a)
					if err != nil {
						return sval{}, err
					}
					if pt, err := ev.resolveType(gf.Params[i].Type); err == nil {
						if v.Typ == untypedInt || isNilVal(v) {
							if isNilVal(v) {
								v = g.zeroVal(pt)
							}
						}
						v.Typ = pt
					}
					argVals = append(argVals, v)
				}
				rt, err := ev.resolveType(gf.Result)
				if err != nil {
					return sval{}, err
				}
				return sval{v: g.pureApp("ghost:"+id.Name, argVals, rt, ev.st)}, nil
			}
			if key, ok := g.ctx.specs.Aliases[id.Name]; ok {
				fn := g.ctx.lookupFunc(key)
				if fn == nil {
					return sval{}, fmt.Errorf("alias %s: function %s not found", id.Name, key)
				}
				var argVals []Val
				for i, a := range x.Args {
					v, err := ev.eval(a)
					if err != nil {
						return sval{}, err
					}
					if i < len(fn.Params) {
						v.Typ = fn.Params[i].Type()
					}
					argVals = append(argVals, v)
				}
				return sval{v: g.pureApp(pureKey(fn, key), argVals, fn.Signature.Results().At(0).Type(), ev.st)}, nil
			}
			if o := g.ctx.scopeLookupPkg(ev.pkg, ev.pos, id.Name); o != nil {
				switch o := o.(type) {
				case *types.TypeName:
					return ev.convert(o.Type(), x.Args)
				case *types.Func:
					return ev.pureCall(o, nil, x.Args)
				}
			}
		}
		return sval{}, fmt.Errorf("unknown function %q", id.Name)
	}
	if te, ok := x.Fun.(*STypeExpr); ok {
		t, err := ev.resolveType(te.Type)
		if err != nil {
			return sval{}, err
		}
		return ev.convert(t, x.Args)
	}
	if sel, ok := x.Fun.(*SSel); ok {
		// pkg.Func / pkg.Type conversions
		if id, ok := sel.X.(*SIdent); ok {
			if _, bound := ev.vars[id.Name]; !bound {
				if o := g.ctx.scopeLookupPkg(ev.pkg, ev.pos, id.Name); o != nil {
					if pn, ok := o.(*types.PkgName); ok {
						mo := pn.Imported().Scope().Lookup(sel.Sel)
						switch mo := mo.(type) {
						case *types.TypeName:
							return ev.convert(mo.Type(), x.Args)
						case *types.Func:
							return ev.pureCall(mo, nil, x.Args)
						}
						return sval{}, fmt.Errorf("%s.%s not callable", id.Name, sel.Sel)
					}
				}
			}
		}
		recv, err := ev.ev(sel.X)
		if err != nil {
			return sval{}, err
		}
		obj, _, _ := types.LookupFieldOrMethod(recv.v.Typ, true, ev.pkg, sel.Sel)
		if recv.addr != nil {
			obj, _, _ = types.LookupFieldOrMethod(types.NewPointer(recv.v.Typ), true, ev.pkg, sel.Sel)
		}
		m, ok := obj.(*types.Func)
		if !ok {
			return sval{}, fmt.Errorf("method %s not found on %v", sel.Sel, recv.v.Typ)
		}
		return ev.pureCall(m, &recv, x.Args)
	}
	return sval{}, fmt.Errorf("unsupported call form")
}

func (ev *Eval) convert(t types.Type, args []SExpr) (sval, error) {
	if len(args) != 1 {
		return sval{}, fmt.Errorf("conversion needs one argument")
	}
	v, err := ev.eval(args[0])
	if err != nil {
		return sval{}, err
	}
	if b, ok := isIntType(t); ok && len(v.Comps) == 1 {
		x := v.Comps[0]
		if x.Sort == SReal {
			x = app("to_int", SInt, x)
		}
		bits, signed := intBits(b)
		if signed {
			x = wrapSigned(x, bits)
		} else {
			x = wrapUnsigned(x, bits)
		}
		return sval{v: Val{Typ: t, Comps: []Term{x}}}, nil
	}
	if b, ok := under(t).(*types.Basic); ok && b.Info()&types.IsFloat != 0 && len(v.Comps) == 1 {
		x := v.Comps[0]
		if x.Sort == SInt {
			x = app("to_real", SReal, x)
		}
		return sval{v: Val{Typ: t, Comps: []Term{x}}}, nil
	}
	if len(layout(t)) == len(v.Comps) {
		return sval{v: Val{Typ: t, Comps: v.Comps}}, nil
	}
	return sval{}, fmt.Errorf("unsupported conversion to %v", t)
}

func (ev *Eval) expandSpecFn(fn *SpecFn, args []SExpr, inOld bool) (sval, error) {
	if len(args) != len(fn.Params) {
		return sval{}, fmt.Errorf("spec fn %s: wrong argument count", fn.Name)
	}
	if g := ev.g; g.topC != nil && g.topC.Hide[fn.Name] {
		// opaque: an uninterpreted function of the arguments and the state the body would be evaluated in
		var argVals []Val
		for i, a := range args {
			v, err := ev.eval(a)
			if err != nil {
				return sval{}, err
			}
			if pt, err := ev.resolveType(fn.Params[i].Type); err == nil {
				if isNilVal(v) {
					v = g.zeroVal(pt)
				}
				v.Typ = pt
			}
			argVals = append(argVals, v)
		}
		rt, err := ev.resolveType(fn.Result)
		if err != nil {
			return sval{}, err
		}
		st := ev.st
		if inOld {
			st = ev.old
		}
		return sval{v: g.pureApp("spec:"+fn.Name, argVals, rt, st)}, nil
	}
	if ev.depth > 40 {
		return sval{}, fmt.Errorf("spec fn expansion too deep (recursive?)")
	}
	sub := *ev
	sub.depth = ev.depth + 1
	sub.vars = map[string]Val{}
	sub.lookup = nil
	if inOld {
		sub.st = ev.old
	}
	// the body is resolved in the scope of the package that declares the spec function
	if fn.Pkg != "" && (ev.pkg == nil || ev.pkg.Path() != fn.Pkg) {
		if tp := ev.g.ctx.typPkgs[fn.Pkg]; tp != nil {
			sub.pkg = tp.Types
			sub.pos = token.NoPos
			sub.fn = nil
		}
	}
	for i, p := range fn.Params {
		v, err := ev.eval(args[i])
		if err != nil {
			return sval{}, err
		}
		// a concrete (pointer-like) argument for an interface-typed parameter is boxed, so that
		// typeOf / type assertions in the body work for receivers of known dynamic type
		if pt, err := sub.resolveType(p.Type); err == nil && v.Typ != nil && !isNilVal(v) {
			if _, pIface := under(pt).(*types.Interface); pIface {
				if _, aIface := under(v.Typ).(*types.Interface); !aIface && v.Typ != untypedInt && payloadIsDirect(v.Typ) && len(v.Comps) == 1 {
					v = ev.g.boxIface(ev.st, v, v.Typ)
					v.Typ = pt
				}
			}
		}
		sub.vars[p.Name] = v
	}
	v, err := sub.eval(fn.Body)
	if err != nil {
		return sval{}, fmt.Errorf("in spec fn %s: %v", fn.Name, err)
	}
	return sval{v: v}, nil
}

// pureCall: application of a (pure) Go function as an uninterpreted function of its arguments and the heap token.
func (ev *Eval) pureCall(m *types.Func, recv *sval, args []SExpr) (sval, error) {
	g := ev.g
	sig := m.Type().(*types.Signature)
	var argVals []Val
	if recv != nil {
		rv := *recv
		// adapt receiver to the method's receiver type
		if sig.Recv() != nil {
			rt := sig.Recv().Type()
			_, wantPtr := under(rt).(*types.Pointer)
			if _, isIface := under(rv.v.Typ).(*types.Interface); isIface {
				argVals = append(argVals, ev.force(rv))
			} else if wantPtr {
				if rv.addr != nil {
					argVals = append(argVals, Val{Typ: types.NewPointer(rv.v.Typ), Comps: []Term{*rv.addr}})
				} else {
					argVals = append(argVals, rv.v)
				}
			} else {
				v := ev.force(rv)
				if pt, ok := under(v.Typ).(*types.Pointer); ok {
					v = g.loadVal(ev.st, v.Comps[0], pt.Elem())
				}
				argVals = append(argVals, v)
			}
		}
	}
	for _, a := range args {
		v, err := ev.eval(a)
		if err != nil {
			return sval{}, err
		}
		argVals = append(argVals, v)
	}
	// untyped nil / ints adapt to parameter types
	np := sig.Params().Len()
	off := len(argVals) - np
	for i := 0; i < np && off >= 0; i++ {
		if isNilVal(argVals[off+i]) {
			argVals[off+i] = g.zeroVal(sig.Params().At(i).Type())
		}
	}
	if sig.Results().Len() < 1 {
		return sval{}, fmt.Errorf("pure call %s has no result", m.Name())
	}
	// functions with several results: the specification value is the first result
	// callees marked `inline` are evaluated by executing their (loop-free) body in the spec state
	if fn := g.ctx.prog.FuncValue(m); fn != nil && g.noName == 0 {
		if ct := g.ctx.contracts[g.ctx.funcKey(fn)]; ct != nil && ct.Inline && len(fn.Blocks) > 0 {
			for len(argVals) < len(fn.Params) {
				// omitted variadic parameter: nil slice
				argVals = append(argVals, g.zeroVal(fn.Params[len(argVals)].Type()))
			}
			g.muteObl++
			host := g.newFrame(fn, nil)
			host.depth = 1
			st2 := ev.st.clone()
			res := host.inline(fn, nil, st2, argVals)
			g.muteObl--
			if len(res) == 1 {
				return sval{v: res[0]}, nil
			}
		}
	}
	key := m.FullName()
	res := g.pureApp(key, argVals, sig.Results().At(0).Type(), ev.st)
	return sval{v: res}, nil
}

func (g *Gen) pureApp(key string, args []Val, resT types.Type, st *State) Val {
	var argSorts []string
	var argTerms []string
	for _, a := range args {
		for _, c := range a.Comps {
			argSorts = append(argSorts, c.Sort)
			argTerms = append(argTerms, c.S)
		}
	}
	argSorts = append(argSorts, SInt, SInt)
	if heapIndependent(key) {
		argTerms = append(argTerms, "0", "0")
	} else {
		// results may depend on memory written during this call only through an argument that points into it
		var fresh []Term
		known := true
		for _, a := range args {
			if a.Typ == nil {
				known = false
				continue
			}
			ly := layout(a.Typ)
			if len(ly) != len(a.Comps) {
				known = false
				continue
			}
			for i, c := range ly {
				switch c.Kind {
				case KPtr, KSlicePtr, KIfacePay, KOpaque:
					fresh = append(fresh, tCmp(">=", a.Comps[i], g.entryW))
				}
			}
		}
		ft := st.ftok
		if ft.S == "" {
			ft = st.tok
		}
		var second Term
		switch {
		case !known:
			second = ft
		case len(fresh) == 0:
			second = intLit(0)
		default:
			second = tIte(tOr(fresh...), ft, intLit(0))
		}
		argTerms = append(argTerms, st.tok.S, second.S)
	}
	ly := layout(resT)
	res := Val{Typ: resT}
	for i, c := range ly {
		fn := fmt.Sprintf("pf_%s_%d", sanitize(key), i)
		g.declareFun(fn, argSorts, c.Sort)
		t := Term{S: "(" + fn + " " + strings.Join(argTerms, " ") + ")", Sort: c.Sort}
		if g.noName == 0 {
			t = g.typedLoad(t, c)
		}
		res.Comps = append(res.Comps, t)
	}
	g.usedPure[key] = true
	return res
}

// heapIndependent: pure functions over value types whose result does not depend on mutable memory.
func heapIndependent(key string) bool {
	for _, p := range []string{"(net/netip.", "net/netip.", "math.", "(time.Duration)", "(time.Time)", "time.Unix", "math/bits."} {
		if strings.HasPrefix(key, p) {
			return true
		}
	}
	return false
}

// idxTerm: p + cs*i as an uninterpreted application (with its defining axiom), for use in quantified facts.
func (g *Gen) idxTerm(p, i Term, cs int64) Term {
	fn := fmt.Sprintf("idx%d", cs)
	if !g.declared[fn] {
		g.declared[fn] = true
		g.emit(fmt.Sprintf("(declare-fun %s (Int Int) Int)", fn))
		g.emit(fmt.Sprintf("(assert (forall ((p Int) (i Int)) (! (= (%s p i) (+ p (* %d i))) :pattern ((%s p i)))))", fn, cs, fn))
	}
	return app(fn, SInt, p, i)
}

// addressQuant restates `forall k :: P(k, H[base+k])` over the address a = base+k:
// `forall a :: P(a-base, H[a])` with the pattern (select H a).  The two are equivalent (k <-> base+k is a bijection
// on Int); the second can be instantiated by E-matching on any read of H, also one whose address is not
// syntactically `base + something` (an element of a re-sliced or appended slice).  Only done when the bound
// variable is an Int that occurs in element addresses of one base.
func addressQuant(binder, body string) (string, bool) {
	f := strings.Fields(strings.Trim(binder, "()"))
	if len(f) != 2 || f[1] != "Int" {
		return "", false
	}
	q := f[0]
	base := ""
	var heaps []string
	seenHeap := map[string]bool{}
	rest := body
	for {
		i := strings.Index(rest, "(select ")
		if i < 0 {
			break
		}
		args := splitTop(sexprBody(rest[i:]))
		rest = rest[i+len("(select "):]
		if len(args) != 3 || !containsSym(args[2], q) {
			continue
		}
		a := args[2]
		var parts []string
		if strings.HasPrefix(a, "(+ ") {
			parts = splitTop(a[3 : len(a)-1])
		}
		if len(parts) != 2 || parts[1] != q || containsSym(parts[0], q) || containsSym(args[1], q) {
			if strings.Contains(a, "(select ") && !containsSym(args[1], q) {
				// the variable sits in an inner read (the address of a field of the element): that read is
				// looked at on its own as the scan goes on
				continue
			}
			return "", false
		}
		if base != "" && base != parts[0] {
			return "", false
		}
		base = parts[0]
		if !seenHeap[args[1]] {
			seenHeap[args[1]] = true
			heaps = append(heaps, args[1])
		}
	}
	if base == "" || len(heaps) == 0 {
		return "", false
	}
	qa := q + "_a"
	out := strings.ReplaceAll(body, "(+ "+base+" "+q+")", qa)
	out = replaceSym(out, q, "(- "+qa+" "+base+")")
	var pats []string
	for _, h := range heaps {
		pats = append(pats, "(select "+h+" "+qa+")")
	}
	return fmt.Sprintf("(forall ((%s Int)) (! %s :pattern (%s)))", qa, out, strings.Join(pats, " ")), true
}

// sexprBody returns the inside of the s-expression that starts at s[0] == '('.
func sexprBody(s string) string {
	depth := 0
	for i := 0; i < len(s); i++ {
		switch s[i] {
		case '(':
			depth++
		case ')':
			depth--
			if depth == 0 {
				return s[1:i]
			}
		}
	}
	return s[1:]
}

func isSymChar(c byte) bool {
	return c != ' ' && c != '(' && c != ')' && c != '\n' && c != '\t'
}

func containsSym(s, sym string) bool {
	for i := 0; ; {
		j := strings.Index(s[i:], sym)
		if j < 0 {
			return false
		}
		j += i
		if (j == 0 || !isSymChar(s[j-1])) && (j+len(sym) == len(s) || !isSymChar(s[j+len(sym)])) {
			return true
		}
		i = j + len(sym)
	}
}

func replaceSym(s, sym, with string) string {
	var b strings.Builder
	for i := 0; i < len(s); {
		j := strings.Index(s[i:], sym)
		if j < 0 {
			b.WriteString(s[i:])
			break
		}
		j += i
		if (j == 0 || !isSymChar(s[j-1])) && (j+len(sym) == len(s) || !isSymChar(s[j+len(sym)])) {
			b.WriteString(s[i:j])
			b.WriteString(with)
		} else {
			b.WriteString(s[i : j+len(sym)])
		}
		i = j + len(sym)
	}
	return b.String()
}
